#!/usr/bin/env python3
"""Verify seeded changes and run the checks against them.
usage: seeded.py verify <dir with Cxx/{patch.diff,demo.py,meta.json}>   -> confirms: applies, tests pass with it, demo fails with / passes without
       seeded.py run [<id> ...]                                        -> applies each /verif/seeded/<id>/patch.diff to /repo, runs all claimed checks, undoes it
"""
import json, os, shutil, subprocess, sys, tempfile

V = '/verif'


def sh(cmd, **kw):
    return subprocess.run(cmd, shell=True, capture_output=True, text=True, **kw)


def verify(src):
    wt = tempfile.mkdtemp(prefix='cvseed_')
    os.rmdir(wt)
    assert sh(f'git -C /repo worktree add -q {wt} HEAD').returncode == 0
    out = {}
    try:
        for d in sorted(os.listdir(src)):
            p = os.path.join(src, d)
            if not (os.path.isdir(p) and os.path.exists(os.path.join(p, 'patch.diff'))):
                continue
            env = f'PYTHONPATH={wt}'
            sh(f'git -C {wt} checkout -- . && git -C {wt} clean -fdq')
            base = sh(f'cd {p} && {env} /venv/bin/python demo.py')
            ap = sh(f'git -C {wt} apply {p}/patch.diff')
            tests = sh(f'cd {wt} && {env} /venv/bin/python -m pytest -q -p no:cacheprovider 2>&1 | tail -1')
            demo = sh(f'cd {p} && {env} /venv/bin/python demo.py')
            ok = ap.returncode == 0 and '116 passed' in tests.stdout and demo.returncode != 0 and base.returncode == 0
            out[d] = dict(applies=ap.returncode == 0, tests=tests.stdout.strip(), demo_with=demo.returncode, demo_without=base.returncode, ok=ok)
            print(d, out[d])
    finally:
        sh(f'git -C /repo worktree remove --force {wt}')
    return out


def fast(ids, workers=8):
    """same verdicts as `run`, but each seed is applied to its own scratch copy of /repo/cardutil and seeds run in parallel
    (used while developing; the recorded RESULTS.json comes from `run`, which patches /repo itself)"""
    from concurrent.futures import ThreadPoolExecutor
    man = json.load(open(f'{V}/MANIFEST.json'))
    props = [c['property_id'] for c in man['checks']]
    assert sh('git -C /repo status --porcelain').stdout.strip() == '', 'repo not clean'

    def one(sid):
        tmp = tempfile.mkdtemp(prefix='cvsd_')
        try:
            shutil.copytree('/repo/cardutil', os.path.join(tmp, 'cardutil'), ignore=shutil.ignore_patterns('__pycache__'))
            r = subprocess.run(['patch', '-p1', '-s', '-d', tmp, '-i', f'{V}/seeded/{sid}/patch.diff'], capture_output=True, text=True)
            if r.returncode != 0:
                return sid, {'patch': 'does not apply'}
            res = {}
            for pr in props:
                r = subprocess.run(['python3', '-m', 'cardverif', 'check', pr, '--repo', tmp], cwd=V, capture_output=True, text=True,
                                   env={**os.environ, 'CARDVERIF_NOEVIDENCE': '1'})
                if r.returncode != 0:
                    obs = sorted({l.split()[1] for l in r.stdout.splitlines() if l.startswith('REFUTED ')})
                    und = sorted({l.split('obligation=')[1].split()[0] for l in r.stdout.splitlines() if l.startswith('UNDECIDED ')})
                    res[pr] = {'exit': r.returncode, 'refuted': obs, 'undecided': und}
            return sid, res
        finally:
            shutil.rmtree(tmp, ignore_errors=True)
    results = {}
    with ThreadPoolExecutor(workers) as ex:
        for sid, res in ex.map(one, ids):
            results[sid] = res
            print(sid, json.dumps(res))
    return results


def run(ids):
    man = json.load(open(f'{V}/MANIFEST.json'))
    props = [c['property_id'] for c in man['checks']]
    results = {}
    for sid in ids:
        patch = f'{V}/seeded/{sid}/patch.diff'
        assert sh('git -C /repo status --porcelain').stdout.strip() == '', 'repo not clean'
        assert sh(f'git -C /repo apply {patch}').returncode == 0, f'{sid} does not apply'
        try:
            res = {}

            def check_one(pr):
                # the 20 checks only read /repo: they run side by side on the patched tree
                r = subprocess.run(['python3', '-m', 'cardverif', 'check', pr], cwd=V, capture_output=True, text=True,
                                   env={**os.environ, 'CARDVERIF_NOEVIDENCE': '1'})
                return pr, r
            from concurrent.futures import ThreadPoolExecutor
            with ThreadPoolExecutor(14) as ex:
                for pr, r in ex.map(check_one, props):
                    if r.returncode != 0:
                        obs = sorted({l.split()[1] for l in r.stdout.splitlines() if l.startswith('REFUTED ')})
                        und = sorted({l.split('obligation=')[1].split()[0] for l in r.stdout.splitlines() if l.startswith('UNDECIDED ')})
                        res[pr] = {'exit': r.returncode, 'refuted': obs, 'undecided': und}
            results[sid] = res
            print(sid, json.dumps(res))
        finally:
            sh('git -C /repo checkout -- .')
    return results


if __name__ == '__main__':
    if sys.argv[1] == 'verify':
        verify(sys.argv[2])
    else:
        ids = sys.argv[2:] or sorted(d for d in os.listdir(f'{V}/seeded') if os.path.isdir(f'{V}/seeded/{d}'))
        if sys.argv[1] == 'fast':
            r = fast(ids)
            out = f'{V}/seeded/RESULTS.fast.json'
        else:
            r = run(ids)
            out = f'{V}/seeded/RESULTS.json'
        if sys.argv[2:] and os.path.exists(out):
            # a partial run updates the recorded results of the named seeds only
            r = {**json.load(open(out)), **r}
        json.dump(dict(sorted(r.items())), open(out, 'w'), indent=1)
