#!/usr/bin/env python3
"""Mechanical mutation of cardutil to measure what the checks miss (checker-side mutation testing).

For every mutant (one small syntactic change of one statement / operator / constant in the anchored modules):
  1. the mutated tree is written to a scratch copy (never /repo),
  2. the repository's own test suite is run on it - mutants the tests kill are of no interest here,
  3. the 20 checks are run on the survivors (`--repo <scratch>`), and the mutants on which every check still says
     PROVED are listed for triage: each is either an equivalent mutant (behaviour unchanged, or changed outside every
     property) or a hole in the rules.

usage: mutate.py [--files a.py,b.py] [--ops sdl,ror,aor,crp] [--limit N] [--out FILE]
Results: JSON lines {id, file, line, func, op, before, after, tests, checks:{C01: rc...}, verdict}
"""
import ast, copy, json, os, shutil, subprocess, sys, tempfile
from concurrent.futures import ThreadPoolExecutor

V = os.path.dirname(os.path.dirname(os.path.abspath(__file__)))
REPO = os.environ.get('CARDVERIF_REPO', '/repo')
FILES = ['cardutil/iso8583.py', 'cardutil/mciipm.py', 'cardutil/card.py', 'cardutil/key.py', 'cardutil/pinblock.py',
         'cardutil/BitArray.py', 'cardutil/cli/mci_ipm_to_csv.py', 'cardutil/cli/mci_csv_to_ipm.py', 'cardutil/cli/mideu.py',
         'cardutil/cli/mci_ipm_encode.py', 'cardutil/cli/mci_ipm_param_encode.py', 'cardutil/cli/paramconv.py',
         'cardutil/cli/mci_ipm_param_to_csv.py', 'cardutil/cli/__init__.py', 'cardutil/__init__.py']
PROPS = ['C%02d' % i for i in range(1, 21)]


def is_logging(stmt):
    if isinstance(stmt, ast.Expr) and isinstance(stmt.value, ast.Call):
        f = stmt.value.func
        if isinstance(f, ast.Attribute) and isinstance(f.value, ast.Name) and f.value.id in ('LOGGER', 'logging', 'logger'):
            return True
        if isinstance(f, ast.Name) and f.id == 'print':
            return False
    return False


def is_docstring(stmt):
    return isinstance(stmt, ast.Expr) and isinstance(stmt.value, ast.Constant) and isinstance(stmt.value.value, str)


ROR = {ast.Lt: [ast.LtE], ast.LtE: [ast.Lt], ast.Gt: [ast.GtE], ast.GtE: [ast.Gt], ast.Eq: [ast.NotEq], ast.NotEq: [ast.Eq],
       ast.Is: [ast.IsNot], ast.IsNot: [ast.Is], ast.In: [ast.NotIn], ast.NotIn: [ast.In]}
AOR = {ast.Add: [ast.Sub], ast.Sub: [ast.Add], ast.Mult: [ast.FloorDiv], ast.FloorDiv: [ast.Mult], ast.Mod: [ast.FloorDiv],
       ast.BitXor: [ast.BitOr], ast.BitAnd: [ast.BitOr], ast.BitOr: [ast.BitAnd], ast.LShift: [ast.RShift], ast.RShift: [ast.LShift]}


STR_TABLE = {'big': ['little'], 'little': ['big'], '>I': ['<I', '>H'], '>B': ['>b'], 'rb': ['r'], 'wb': ['w', 'ab'], 'w': ['a'],
             'cp500': ['cp037', 'latin1'], 'cp037': ['cp500'], 'latin1': ['cp500', 'ascii'], 'latin_1': ['cp500'], 'ascii': ['latin1'],
             'utf8': ['latin1'], 'PDS': ['ICC'], 'ICC': ['PDS'], 'PAN': ['PAN-PREFIX'], 'PAN-PREFIX': ['PAN'], 'DE43': ['PDS'],
             'LLVAR': ['LLLVAR'], 'LLLVAR': ['LLVAR'], 'FIXED': ['LLVAR'], 'field_length': ['field_type'], 'ebcdic': ['ascii'],
             'vbs': ['1014'], '1014': ['vbs'], 'ignore': ['raise'], '\n': ['\r\n'], '': ['x']}


def str_variants(v):
    if isinstance(v, bytes):
        if len(v) == 1:
            return [bytes([v[0] ^ 0x60])]
        if v == b'':
            return [b' ']
        return []
    if v in STR_TABLE:
        return STR_TABLE[v]
    if len(v) == 1:
        return [{'0': ' ', ' ': '0', '*': '0', 'F': 'A', 'A': 'F', 'x': 'X', 'X': 'x', '<': '>', '>': '<', 'f': 'a'}.get(v, 'z' if v != 'z' else 'y')]
    if v.startswith('%') and len(v) <= 14:
        return [v.replace('%y', '%Y') if '%y' in v else v.replace('%m', '%d', 1)]
    return []


def enumerate_mutants(tree, ops):
    """yield (op, lineno, funcname, description, apply(tree_copy_node_map))  - mutants are identified by node index"""
    nodes = list(ast.walk(tree))
    parents = {}
    for n in nodes:
        for c in ast.iter_child_nodes(n):
            parents[c] = n

    def func_of(n):
        names = []
        while n in parents:
            n = parents[n]
            if isinstance(n, (ast.FunctionDef, ast.ClassDef)):
                names.append(n.name)
        return '.'.join(reversed(names))

    def in_main(n):
        while n in parents:
            n = parents[n]
            if isinstance(n, ast.If) and isinstance(n.test, ast.Compare) and isinstance(n.test.left, ast.Name) and n.test.left.id == '__name__':
                return True
        return False
    def in_log(n):
        while n in parents:
            n = parents[n]
            if isinstance(n, ast.stmt):
                return is_logging(n) or isinstance(n, ast.Raise) or (isinstance(n, ast.Expr) and isinstance(n.value, ast.Call)
                                                                     and isinstance(n.value.func, ast.Name) and n.value.func.id == 'print')
        return False
    for idx, n in enumerate(nodes):
        if in_main(n) or not func_of(n):
            continue
        fn = func_of(n)
        if 'sdl' in ops and isinstance(n, ast.stmt) and not isinstance(n, (ast.FunctionDef, ast.ClassDef, ast.Import, ast.ImportFrom,
                                                                                ast.Pass, ast.Global, ast.Nonlocal)):
            if is_logging(n) or is_docstring(n):
                continue
            par = parents.get(n)
            if isinstance(n, (ast.Return,)) and n.value is None:
                continue
            yield ('sdl', n.lineno, fn, f'delete: {ast.unparse(n)[:90]}', idx, None)
        if 'ror' in ops and isinstance(n, ast.Compare) and len(n.ops) == 1:
            for new in ROR.get(type(n.ops[0]), []):
                yield ('ror', n.lineno, fn, f'{ast.unparse(n)[:70]}  :  {type(n.ops[0]).__name__} -> {new.__name__}', idx, new)
        if 'aor' in ops and isinstance(n, (ast.BinOp, ast.AugAssign)):
            for new in AOR.get(type(n.op), []):
                if isinstance(n, ast.BinOp) and isinstance(n.left, ast.Constant) and isinstance(n.left.value, (str, bytes)):
                    continue
                yield ('aor', n.lineno, fn, f'{ast.unparse(n)[:70]}  :  {type(n.op).__name__} -> {new.__name__}', idx, new)
        if 'crp' in ops and isinstance(n, ast.Constant) and type(n.value) is int and not isinstance(parents.get(n), ast.Expr):
            for d in (1, -1):
                yield ('crp', n.lineno, fn, f'{ast.unparse(parents.get(n))[:70]}  :  {n.value} -> {n.value + d}', idx, n.value + d)
        if 'slc' in ops and isinstance(n, ast.Slice) and not in_log(n):
            if n.lower is not None:
                yield ('slc', parents[n].lineno, fn, f'{ast.unparse(parents[n])[:70]}  :  drop lower bound', idx, 'lower')
            if n.upper is not None:
                yield ('slc', parents[n].lineno, fn, f'{ast.unparse(parents[n])[:70]}  :  drop upper bound', idx, 'upper')
        if 'uoi' in ops and isinstance(n, ast.UnaryOp) and isinstance(n.op, ast.Not):
            yield ('uoi', n.lineno, fn, f'{ast.unparse(n)[:80]}  :  drop not', idx, None)
        if 'scr' in ops and isinstance(n, ast.Constant) and isinstance(n.value, (str, bytes)) and not in_log(n) \
                and not isinstance(parents.get(n), (ast.Expr, ast.JoinedStr, ast.FormattedValue)):
            for new in str_variants(n.value):
                yield ('scr', n.lineno, fn, f'{ast.unparse(parents.get(n))[:60]}  :  {n.value!r} -> {new!r}', idx, new)
        if 'arg' in ops and isinstance(n, ast.Call) and len(n.args) >= 2 and not in_log(n) and not any(isinstance(a, ast.Starred) for a in n.args[:2]):
            yield ('arg', n.lineno, fn, f'{ast.unparse(n)[:80]}  :  swap first two arguments', idx, None)
        if 'neg' in ops and isinstance(n, (ast.If, ast.While)) :
            yield ('neg', n.lineno, fn, f'negate: {ast.unparse(n.test)[:80]}', idx, None)
        if 'bop' in ops and isinstance(n, ast.BoolOp):
            yield ('bop', n.lineno, fn, f'{ast.unparse(n)[:80]}  :  and <-> or', idx, None)


def apply_mutant(src, op, idx, arg):
    tree = ast.parse(src)
    nodes = list(ast.walk(tree))
    n = nodes[idx]
    if op == 'sdl':
        new = ast.Pass()
        ast.copy_location(new, n)
        for par in nodes:
            for field, val in ast.iter_fields(par):
                if isinstance(val, list) and n in val:
                    val[val.index(n)] = new
    elif op == 'ror':
        n.ops = [arg()]
    elif op == 'aor':
        n.op = arg()
    elif op == 'crp':
        n.value = arg
    elif op == 'neg':
        n.test = ast.UnaryOp(op=ast.Not(), operand=n.test)
    elif op == 'slc':
        setattr(n, arg, None)
    elif op == 'uoi':
        for par in nodes:
            for field, val in ast.iter_fields(par):
                if val is n:
                    setattr(par, field, n.operand)
                elif isinstance(val, list) and n in val:
                    val[val.index(n)] = n.operand
    elif op == 'scr':
        n.value = arg
    elif op == 'arg':
        n.args[0], n.args[1] = n.args[1], n.args[0]
    elif op == 'bop':
        n.op = ast.Or() if isinstance(n.op, ast.And) else ast.And()
    ast.fix_missing_locations(tree)
    return ast.unparse(tree) + '\n'


def run_one(job):
    mid, rel, op, line, fn, desc, idx, arg = job
    tmp = tempfile.mkdtemp(prefix='cvmut_')
    rec = dict(id=mid, file=rel, line=line, func=fn, op=op, desc=desc)
    try:
        shutil.copytree(os.path.join(REPO, 'cardutil'), os.path.join(tmp, 'cardutil'), ignore=shutil.ignore_patterns('__pycache__'))
        shutil.copytree(os.path.join(REPO, 'tests'), os.path.join(tmp, 'tests'), ignore=shutil.ignore_patterns('__pycache__'))
        for extra in ('setup.py', 'setup.cfg', 'pyproject.toml', 'pytest.ini', 'tox.ini', 'conftest.py', 'README.rst', 'README.md'):
            if os.path.exists(os.path.join(REPO, extra)):
                shutil.copy(os.path.join(REPO, extra), tmp)
        path = os.path.join(tmp, rel)
        src = open(path).read()
        try:
            new = apply_mutant(src, op, idx, arg)
            compile(new, rel, 'exec')
        except Exception as ex:
            rec['tests'] = f'invalid: {ex}'
            return rec
        open(path, 'w').write(new)
        try:
            r = subprocess.run(['/venv/bin/python', '-m', 'pytest', '-q', '-x', '-p', 'no:cacheprovider'], cwd=tmp, capture_output=True,
                               text=True, timeout=120, env={**os.environ, 'PYTHONPATH': tmp, 'PYTHONDONTWRITEBYTECODE': '1'})
            last = (r.stdout.strip().splitlines() or ['?'])[-1]
            rec['tests'] = 'pass' if r.returncode == 0 else 'fail'
            rec['tests_line'] = last[:80]
        except subprocess.TimeoutExpired:
            rec['tests'] = 'timeout'
        if rec['tests'] != 'pass':
            return rec
        checks = {}
        for pr in PROPS:
            r = subprocess.run(['python3', '-m', 'cardverif', 'check', pr, '--repo', tmp], cwd=V, capture_output=True, text=True,
                               env={**os.environ, 'CARDVERIF_NOEVIDENCE': '1', 'CARDVERIF_TIME_BUDGET': '60'})
            if r.returncode != 0:
                first = [l for l in r.stdout.splitlines() if l.startswith(('REFUTED', 'UNDECIDED', 'ANALYSIS'))]
                checks[pr] = [r.returncode, (first[0] if first else r.stderr[-200:])[:200]]
        rec['checks'] = checks
        rec['verdict'] = 'refuted' if any(v[0] == 1 for v in checks.values()) else 'undecided' if checks else 'SILENT'
        return rec
    finally:
        shutil.rmtree(tmp, ignore_errors=True)


def main():
    args = sys.argv[1:]

    def opt(name, default):
        if name in args:
            i = args.index(name)
            v = args[i + 1]
            del args[i:i + 2]
            return v
        return default
    files = opt('--files', ','.join(FILES)).split(',')
    ops = opt('--ops', 'sdl,ror,aor,crp,bop').split(',')
    limit = int(opt('--limit', '0'))
    out = opt('--out', '/tmp/mutants.jsonl')
    workers = int(opt('--workers', '14'))
    jobs = []
    for rel in files:
        p = os.path.join(REPO, rel)
        if not os.path.exists(p):
            continue
        src = open(p).read()
        tree = ast.parse(src)
        for k, (op, line, fn, desc, idx, arg) in enumerate(enumerate_mutants(tree, ops)):
            jobs.append((f'{rel}:{line}:{op}:{k}', rel, op, line, fn, desc, idx, arg))
    retest = opt('--retest', '')
    if retest:
        want = {json.loads(l)['id'] for l in open(retest) if json.loads(l).get('verdict') in ('SILENT', 'undecided')}
        jobs = [j for j in jobs if j[0] in want]
    if limit:
        import random
        random.Random(1).shuffle(jobs)
        jobs = jobs[:limit]
    print(f'{len(jobs)} mutants', file=sys.stderr)
    n = dict(killed=0, silent=0, refuted=0, undecided=0, invalid=0)
    with open(out, 'w') as fo, ThreadPoolExecutor(workers) as ex:
        for rec in ex.map(run_one, jobs):
            fo.write(json.dumps(rec) + '\n')
            fo.flush()
            if rec['tests'] != 'pass':
                n['invalid' if str(rec['tests']).startswith('invalid') else 'killed'] += 1
            else:
                n[rec['verdict'].lower()] += 1
                if rec['verdict'] == 'SILENT':
                    print(f"SILENT {rec['file']}:{rec['line']} {rec['func']} [{rec['op']}] {rec['desc']}")
    print(json.dumps(n))


if __name__ == '__main__':
    main()
