#!/usr/bin/env python3
"""Vacuity audit of the rules ("a rule matching zero sites passes vacuously forever").

For every kind of observation the interpreter hands to the rules (event kinds, fact kinds) the checks are re-run on the
unchanged tree with that kind hidden from the rules (CARDVERIF_ABLATE).  An obligation that *reads* that kind and is
still PROVED when it cannot see any instance of it would also be PROVED on a tree where the construct is written in a
shape the rule does not recognise - that is a silent pass.  Expected outcome after the audit: every (obligation, kind)
pair in the report is either not PROVED under ablation, or listed in tools/ablate_ok.json with the reason why the
obligation does not rest on that kind.

usage: ablate.py [--repo DIR] [PROPS...]      -> prints the pairs that stay PROVED and are not explained; exit 1 if any
"""
import json, os, re, subprocess, sys
from concurrent.futures import ThreadPoolExecutor

V = os.path.dirname(os.path.dirname(os.path.abspath(__file__)))
KINDS = ['loop-iter', 'loop-head', 'loop-back', 'loop-exit', 'loop-end-snap', 'for-iter', 'ext-call', 'read', 'write', 'method',
         'setitem', 'setattr', 'enter', 'leave', 'slice', 'open', 'codec', 'unit-call', 'unit-ret', 'return', 'mutate-shared',
         'dict-pop', 'list-pop', 'call', 'seek', 'close', 'getitem', 'comprehension', 'comp-filter', 'caught', 'raise',
         'op-may-raise', 'print', 'recursion', 'global-write', 'class-attr-write', 'global-decl', 'list-append', 'new',
         'fact:truth', 'fact:sym-eq', 'fact:eq', 'fact:seq-eq', 'fact:in', 'fact:order', 'fact:isinstance', 'fact:startswith',
         'fact:isnumeric', 'fact:isdigit', 'fact:isdecimal', 'fact:endswith', 'make-set', 'dict-update', 'getattr-proxy']


def run(prop, kind, repo):
    env = {**os.environ, 'CARDVERIF_NOEVIDENCE': '1', 'CARDVERIF_TIME_BUDGET': '120', 'CARDVERIF_LIST_OBS': '1'}
    if kind:
        env['CARDVERIF_ABLATE'] = kind
    r = subprocess.run(['python3', '-m', 'cardverif', 'check', prop, '--repo', repo], cwd=V, env=env,
                       capture_output=True, text=True)
    out = {}
    for line in r.stdout.splitlines():
        if line.startswith('OB\t'):
            _, verdict, oid, rule, construct = line.split('\t')
            out.setdefault(f'{oid} [{rule or construct}]', set()).add(verdict.upper())
    return prop, kind, r.returncode, out, r.stdout[-300:] if not out else ''


def main():
    args = sys.argv[1:]
    repo = '/repo'
    if '--repo' in args:
        i = args.index('--repo')
        repo = args[i + 1]
        del args[i:i + 2]
    man = json.load(open(f'{V}/MANIFEST.json'))
    props = args or [c['property_id'] for c in man['checks']]
    okfile = f'{V}/tools/ablate_ok.json'
    explained = json.load(open(okfile)) if os.path.exists(okfile) else {}
    jobs = [(p, k) for p in props for k in [''] + KINDS]
    with ThreadPoolExecutor(14) as ex:
        results = list(ex.map(lambda j: run(j[0], j[1], repo), jobs))
    base = {p: out for p, k, rc, out, tail in results if not k}
    sens = {}      # obligation -> kinds that matter (not PROVED when hidden)
    for p, k, rc, out, tail in results:
        if not k:
            continue
        if not out:
            # the whole check failed (anchor not found ...): every obligation is sensitive to k
            for ob in base[p]:
                sens.setdefault(ob, set()).add(k)
            continue
        for ob in base[p]:
            if out.get(ob) != {'PROVED'}:
                sens.setdefault(ob, set()).add(k)
    # which kinds does each rule module read?
    reads = {}
    for p in props:
        src = open(f'{V}/cardverif/rules/{p.lower()}.py').read()
        reads[p] = {k for k in KINDS if re.search(r"'%s'" % re.escape(k.split(':')[-1]), src)}
    bad = 0
    report = {}
    for p in props:
        for ob in sorted(base[p]):
            s = sens.get(ob, set())
            report[ob] = sorted(s)
            if not s and ob not in explained:
                print(f'INSENSITIVE {ob}: PROVED whatever kind of observation is hidden')
                bad += 1
    json.dump({'sensitive_to': report, 'reads': {p: sorted(v) for p, v in reads.items()}}, open('/tmp/ablate_report.json', 'w'), indent=1)
    print(f'{len(report)} obligations, {bad} insensitive; report in /tmp/ablate_report.json')
    return 1 if bad else 0


if __name__ == '__main__':
    sys.exit(main())
