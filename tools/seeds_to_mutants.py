#!/usr/bin/env python3
"""Register every seeded change as a regression mutant of the self-test (thorough tier): for each property that reports
the seed (REFUTED, or UNDECIDED where that is all that is reached) an entry /verif/mutants/seed_<id>/expect.json is
written next to a copy of the patch.  Input: seeded/RESULTS.fast.json (or RESULTS.json)."""
import json, os, shutil, sys
V = '/verif'
src = f'{V}/seeded/RESULTS.fast.json' if os.path.exists(f'{V}/seeded/RESULTS.fast.json') else f'{V}/seeded/RESULTS.json'
res = json.load(open(src))
n = 0
for sid, d in sorted(res.items()):
    if 'patch' in d or not d:
        continue
    ref = sorted(p for p, v in d.items() if v['exit'] == 1)
    und = sorted(p for p, v in d.items() if v['exit'] == 2)
    dst = f'{V}/mutants/seed_{sid}'
    os.makedirs(dst, exist_ok=True)
    shutil.copy(f'{V}/seeded/{sid}/patch.diff', f'{dst}/patch.diff')
    if ref:
        json.dump({'props': ref, 'allow_undecided': False, 'from': f'seeded/{sid}'}, open(f'{dst}/expect.json', 'w'))
    else:
        json.dump({'props': und, 'allow_undecided': True, 'from': f'seeded/{sid}'}, open(f'{dst}/expect.json', 'w'))
    n += 1
print(n, 'seed mutants registered from', src)
