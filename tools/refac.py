#!/usr/bin/env python3
"""Run every check against scratch copies with a behaviour-preserving patch applied; report any non-zero exit.
usage: refac.py <dir with */patch.diff> [props...]"""
import os, shutil, subprocess, sys, tempfile, json
from concurrent.futures import ThreadPoolExecutor
V='/verif'
PROPS=[json.loads(l)['id'] for l in open(f'{V}/properties.jsonl')]
def one(args):
    name, patch, props = args
    tmp=tempfile.mkdtemp(prefix='cvrf_')
    try:
        shutil.copytree('/repo/cardutil', os.path.join(tmp,'cardutil'), ignore=shutil.ignore_patterns('__pycache__'))
        r=subprocess.run(['patch','-p1','-s','-d',tmp,'-i',patch],capture_output=True,text=True)
        if r.returncode!=0: return name, {'patch':'does not apply: '+r.stdout[:200]}
        out={}
        for p in props:
            r=subprocess.run(['python3','-m','cardverif','check',p,'--repo',tmp],cwd=V,capture_output=True,text=True,env={**os.environ,'CARDVERIF_NOEVIDENCE':'1'})
            if r.returncode!=0:
                first=[l for l in r.stdout.splitlines() if l.startswith(('REFUTED','UNDECIDED','ANALYSIS'))]
                out[p]=(r.returncode, [f[:260] for f in first[:3]] or r.stderr[-300:])
        return name,out
    finally: shutil.rmtree(tmp,ignore_errors=True)
src=os.path.abspath(sys.argv[1]); props=sys.argv[2:] or PROPS
jobs=[(d, os.path.join(src,d,'patch.diff'), props) for d in sorted(os.listdir(src)) if os.path.exists(os.path.join(src,d,'patch.diff'))]
with ThreadPoolExecutor(8) as ex:
    for name,out in ex.map(one,jobs):
        print(name, 'OK' if not out else json.dumps(out,indent=1))
