#!/usr/bin/env python3
"""Developer tool: run checks against a scratch copy of /repo with one textual edit applied.
usage: mut.py <props comma sep> <file rel to repo> <old> <new> [--tests]"""
import os, shutil, subprocess, sys, tempfile

def main():
    props, rel, old, new = sys.argv[1:5]
    tests = '--tests' in sys.argv
    tmp = tempfile.mkdtemp(prefix='cvmut_')
    try:
        shutil.copytree('/repo/cardutil', os.path.join(tmp, 'cardutil'), ignore=shutil.ignore_patterns('__pycache__'))
        p = os.path.join(tmp, rel)
        s = open(p).read()
        if s.count(old) != 1:
            print(f'pattern occurs {s.count(old)} times'); return 3
        open(p, 'w').write(s.replace(old, new))
        import ast; ast.parse(open(p).read())
        if tests:
            shutil.copytree('/repo/tests', os.path.join(tmp, 'tests'))
            for f in ('setup.cfg', 'pyproject.toml'):
                if os.path.exists('/repo/' + f): shutil.copy('/repo/' + f, tmp)
            r = subprocess.run(['/venv/bin/python', '-m', 'pytest', '-q', '-x', '-p', 'no:cacheprovider'], cwd=tmp,
                               env={**os.environ, 'PYTHONPATH': tmp}, capture_output=True, text=True)
            print('TESTS:', r.stdout.strip().splitlines()[-1] if r.stdout.strip() else r.stderr[-300:])
        for prop in props.split(','):
            r = subprocess.run(['python3', '-m', 'cardverif', 'check', prop, '--repo', tmp], cwd='/verif',
                               capture_output=True, text=True, env={**os.environ, 'CARDVERIF_NOEVIDENCE': '1'})
            print(f'[{prop}] exit={r.returncode}')
            print(r.stdout.strip()[-1500:])
            if r.stderr.strip(): print(r.stderr[-1500:])
    finally:
        shutil.rmtree(tmp, ignore_errors=True)

if __name__ == '__main__':
    sys.exit(main())
