#!/usr/bin/env python3
"""Regenerate MANIFEST.json checks/not_applicable from tools/claims.json."""
import json, os
V='/verif'
man=json.load(open(f'{V}/MANIFEST.json'))
claims=json.load(open(f'{V}/tools/claims.json'))
props=[json.loads(l)['id'] for l in open(f'{V}/properties.jsonl')]
checks=[]; na=[]
for p in props:
    c=claims.get(p)
    if c and c.get('claimed'):
        checks.append({
          "property_id":p,
          "quick_cmd":f"./check {p} --tier quick",
          "thorough_cmd":f"./check {p} --tier thorough",
          "evidence_file":f"evidence/{p}.json",
          "replay_cmd_template":"./check replay {path}",
          "engine":"cardverif",
          "level_claimed":{"category":"other","text":c['text'],"design_ref":f"DESIGN.md section 5, {p}"},
          "level_note":c['note'],
          "technique":c['technique']})
    else:
        na.append({"property_id":p,"reason":(c or {}).get('reason','static check not built yet in this session (planned in DESIGN.md section 5)')})
man['checks']=checks; man['not_applicable']=na
man['engines'][0]['serves_properties']=[c['property_id'] for c in checks]
json.dump(man,open(f'{V}/MANIFEST.json','w'),indent=1)
print(len(checks),'claimed',len(na),'n/a')
