#!/usr/bin/env python3
"""Markdown table of seeded changes for DESIGN.md: seed_table.py <prefix> [results.json]"""
import json, os, sys

V = os.path.dirname(os.path.dirname(os.path.abspath(__file__)))
prefix = sys.argv[1]
res = json.load(open(sys.argv[2] if len(sys.argv) > 2 else f'{V}/seeded/RESULTS.fast.json'))
print('| Seed | What it changes | Caught by |')
print('|---|---|---|')
for sid in sorted(res):
    if not sid.startswith(prefix):
        continue
    meta = json.load(open(f'{V}/seeded/{sid}/meta.json'))
    summ = ' '.join(str(meta.get('summary', '')).split())
    if len(summ) > 175:
        summ = summ[:172] + '...'
    r = res[sid]
    ref = sorted({o for v in r.values() if isinstance(v, dict) for o in v.get('refuted', [])})
    und = sorted({o for v in r.values() if isinstance(v, dict) for o in v.get('undecided', [])})
    if ref:
        caught = ', '.join(ref)
    elif r:
        caught = 'undecided: ' + (', '.join(und) or ', '.join(sorted(r)))
    else:
        caught = '**accepted**'
    print(f'| {sid} | {summ.replace("|", "/")} | {caught} |')
