#!/usr/bin/env python3
"""Mechanical behaviour-preserving rewrites of cardutil against the checks (the false-alarm counterpart of mutate.py).

Every variant applies ONE semantics-preserving transformation at ONE site of an anchored module (scratch copy, never
/repo); the test suite is run as a sanity check of the transformation itself, then all 20 checks.  A REFUTED verdict on
such a variant is a false alarm of the checker; an UNDECIDED one is a loss of precision.

transformations: aug (x += e -> x = x + e, names bound to str/bytes/int only), negif (if c: A else: B -> if not c: B else: A),
flip (a < b -> b > a ..., effect-free operands), tmp (return E -> _r = E; return _r), slc (a[0:n] -> a[:n], a[:n] -> a[0:n]),
elif (elif chain -> nested else: if), demorgan (if a and b -> if not (not a or not b)), cond (if c: -> _c = c; if _c:)
usage: equiv.py [--ops ...] [--limit N] [--out FILE]
"""
import ast, json, os, shutil, subprocess, sys, tempfile
from concurrent.futures import ThreadPoolExecutor

sys.path.insert(0, os.path.dirname(os.path.abspath(__file__)))
import mutate                                      # noqa: E402  (file list, helpers)

V = mutate.V
REPO = mutate.REPO
PROPS = mutate.PROPS
FLIP = {ast.Lt: ast.Gt, ast.Gt: ast.Lt, ast.LtE: ast.GtE, ast.GtE: ast.LtE, ast.Eq: ast.Eq, ast.NotEq: ast.NotEq}


def pure(e):
    for n in ast.walk(e):
        if isinstance(n, ast.Call):
            if not (isinstance(n.func, ast.Name) and n.func.id in ('len', 'int', 'str', 'abs')):
                return False
        if isinstance(n, (ast.Yield, ast.YieldFrom, ast.Await, ast.NamedExpr, ast.Lambda)):
            return False
    return True


def sites(tree, ops):
    nodes = list(ast.walk(tree))
    parents = {}
    for n in nodes:
        for c in ast.iter_child_nodes(n):
            parents[c] = n

    def func_of(n):
        names = []
        while n in parents:
            n = parents[n]
            if isinstance(n, (ast.FunctionDef, ast.ClassDef)):
                names.append(n.name)
        return '.'.join(reversed(names))
    for idx, n in enumerate(nodes):
        fn = func_of(n)
        if not fn:
            continue
        if 'aug' in ops and isinstance(n, ast.AugAssign) and isinstance(n.op, (ast.Add, ast.Sub)) and isinstance(n.target, (ast.Name, ast.Attribute)) \
                and pure(n.target) and not any(isinstance(x, (ast.List, ast.ListComp)) for x in ast.walk(n.value)):
            yield ('aug', n.lineno, fn, ast.unparse(n)[:80], idx)
        if 'negif' in ops and isinstance(n, ast.If) and n.orelse and not (len(n.orelse) == 1 and isinstance(n.orelse[0], ast.If)):
            yield ('negif', n.lineno, fn, 'if ' + ast.unparse(n.test)[:70], idx)
        if 'flip' in ops and isinstance(n, ast.Compare) and len(n.ops) == 1 and type(n.ops[0]) in FLIP and pure(n.left) and pure(n.comparators[0]):
            yield ('flip', n.lineno, fn, ast.unparse(n)[:80], idx)
        if 'tmp' in ops and isinstance(n, ast.Return) and n.value is not None and not isinstance(n.value, (ast.Name, ast.Constant)):
            yield ('tmp', n.lineno, fn, ast.unparse(n)[:80], idx)
        if 'slc' in ops and isinstance(n, ast.Slice) and n.step is None:
            if isinstance(n.lower, ast.Constant) and n.lower.value == 0:
                yield ('slc', parents[n].lineno, fn, ast.unparse(parents[n])[:80] + '  : drop the 0', idx)
            elif n.lower is None and n.upper is not None:
                yield ('slc', parents[n].lineno, fn, ast.unparse(parents[n])[:80] + '  : add the 0', idx)
        if 'elif' in ops and isinstance(n, ast.If) and len(n.orelse) == 1 and isinstance(n.orelse[0], ast.If) and \
                n.orelse[0].col_offset == n.col_offset:
            yield ('elif', n.lineno, fn, 'elif ' + ast.unparse(n.orelse[0].test)[:70], idx)
        if 'demorgan' in ops and isinstance(n, (ast.If, ast.While)) and isinstance(n.test, ast.BoolOp) and isinstance(n.test.op, ast.And) \
                and len(n.test.values) == 2:
            yield ('demorgan', n.lineno, fn, ast.unparse(n.test)[:80], idx)
        if 'cond' in ops and isinstance(n, ast.If) and not isinstance(n.test, (ast.Name, ast.Constant)) and \
                not (isinstance(parents.get(n), ast.If) and n in parents[n].orelse and len(parents[n].orelse) == 1):
            yield ('cond', n.lineno, fn, 'if ' + ast.unparse(n.test)[:70], idx)


def apply(src, op, idx):
    tree = ast.parse(src)
    nodes = list(ast.walk(tree))
    n = nodes[idx]

    def replace_stmt(old, new_list):
        for par in nodes:
            for field, val in ast.iter_fields(par):
                if isinstance(val, list) and old in val:
                    i = val.index(old)
                    val[i:i + 1] = new_list
                    return
    if op == 'aug':
        load = ast.parse(ast.unparse(n.target), mode='eval').body
        new = ast.Assign(targets=[n.target], value=ast.BinOp(left=load, op=n.op, right=n.value))
        replace_stmt(n, [new])
    elif op == 'negif':
        n.test, n.body, n.orelse = ast.UnaryOp(op=ast.Not(), operand=n.test), n.orelse, n.body
    elif op == 'flip':
        n.left, n.comparators, n.ops = n.comparators[0], [n.left], [FLIP[type(n.ops[0])]()]
    elif op == 'tmp':
        replace_stmt(n, [ast.Assign(targets=[ast.Name(id='_result', ctx=ast.Store())], value=n.value),
                         ast.Return(value=ast.Name(id='_result', ctx=ast.Load()))])
    elif op == 'slc':
        n.lower = None if n.lower is not None else ast.Constant(value=0)
    elif op == 'elif':
        pass          # unparse of an If whose orelse is [If] prints elif; wrap to force the nested form
        n.orelse = [ast.If(test=ast.Constant(value=True), body=[n.orelse[0]], orelse=[])]
    elif op == 'demorgan':
        a, b = n.test.values
        n.test = ast.UnaryOp(op=ast.Not(), operand=ast.BoolOp(op=ast.Or(), values=[ast.UnaryOp(op=ast.Not(), operand=a),
                                                                                    ast.UnaryOp(op=ast.Not(), operand=b)]))
    elif op == 'cond':
        name = ast.Name(id='_condition', ctx=ast.Store())
        replace_stmt(n, [ast.Assign(targets=[name], value=n.test), n])
        n.test = ast.Name(id='_condition', ctx=ast.Load())
    ast.fix_missing_locations(tree)
    return ast.unparse(tree) + '\n'


def run_one(job):
    mid, rel, op, line, fn, desc, idx = job
    tmp = tempfile.mkdtemp(prefix='cveq_')
    rec = dict(id=mid, file=rel, line=line, func=fn, op=op, desc=desc)
    try:
        shutil.copytree(os.path.join(REPO, 'cardutil'), os.path.join(tmp, 'cardutil'), ignore=shutil.ignore_patterns('__pycache__'))
        shutil.copytree(os.path.join(REPO, 'tests'), os.path.join(tmp, 'tests'), ignore=shutil.ignore_patterns('__pycache__'))
        for extra in ('setup.py', 'setup.cfg', 'pyproject.toml', 'README.rst'):
            if os.path.exists(os.path.join(REPO, extra)):
                shutil.copy(os.path.join(REPO, extra), tmp)
        path = os.path.join(tmp, rel)
        try:
            new = apply(open(path).read(), op, idx)
            compile(new, rel, 'exec')
        except Exception as ex:
            rec['tests'] = f'invalid: {ex}'
            return rec
        open(path, 'w').write(new)
        r = subprocess.run(['/venv/bin/python', '-m', 'pytest', '-q', '-x', '-p', 'no:cacheprovider'], cwd=tmp, capture_output=True, text=True,
                           timeout=180, env={**os.environ, 'PYTHONPATH': tmp, 'PYTHONDONTWRITEBYTECODE': '1'})
        rec['tests'] = 'pass' if r.returncode == 0 else 'fail'
        if rec['tests'] != 'pass':
            return rec
        checks = {}
        for pr in PROPS:
            r = subprocess.run(['python3', '-m', 'cardverif', 'check', pr, '--repo', tmp], cwd=V, capture_output=True, text=True,
                               env={**os.environ, 'CARDVERIF_NOEVIDENCE': '1', 'CARDVERIF_TIME_BUDGET': '90'})
            if r.returncode != 0:
                first = [l for l in r.stdout.splitlines() if l.startswith(('REFUTED', 'UNDECIDED', 'ANALYSIS'))]
                checks[pr] = [r.returncode, (first[0] if first else r.stderr[-200:])[:260]]
        rec['checks'] = checks
        rec['verdict'] = 'REFUTED' if any(v[0] == 1 for v in checks.values()) else 'undecided' if checks else 'silent'
        return rec
    finally:
        shutil.rmtree(tmp, ignore_errors=True)


def main():
    args = sys.argv[1:]

    def opt(name, default):
        if name in args:
            i = args.index(name)
            v = args[i + 1]
            del args[i:i + 2]
            return v
        return default
    ops = opt('--ops', 'aug,negif,flip,tmp,slc,elif,demorgan,cond').split(',')
    limit = int(opt('--limit', '0'))
    out = opt('--out', '/tmp/equiv.jsonl')
    jobs = []
    for rel in mutate.FILES:
        p = os.path.join(REPO, rel)
        if not os.path.exists(p):
            continue
        tree = ast.parse(open(p).read())
        for k, (op, line, fn, desc, idx) in enumerate(sites(tree, ops)):
            jobs.append((f'{rel}:{line}:{op}:{k}', rel, op, line, fn, desc, idx))
    if limit:
        import random
        random.Random(2).shuffle(jobs)
        jobs = jobs[:limit]
    print(f'{len(jobs)} variants', file=sys.stderr)
    n = {}
    with open(out, 'w') as fo, ThreadPoolExecutor(12) as ex:
        for rec in ex.map(run_one, jobs):
            fo.write(json.dumps(rec) + '\n')
            fo.flush()
            k = rec['tests'] if rec['tests'] != 'pass' else rec['verdict']
            n[k] = n.get(k, 0) + 1
            if rec['tests'] == 'pass' and rec['verdict'] != 'silent':
                print(f"{rec['verdict']} {rec['file']}:{rec['line']} {rec['func']} [{rec['op']}] {rec['desc']} -> "
                      f"{ {k: v[1][:90] for k, v in rec['checks'].items()} }")
            elif rec['tests'] != 'pass':
                print(f"TESTS-{rec['tests']} {rec['file']}:{rec['line']} [{rec['op']}] {rec['desc']}")
    print(json.dumps(n))


if __name__ == '__main__':
    main()
