"""Abstract values of the K2 interpreter."""
from __future__ import annotations

import itertools

from .lin import Lin

_ids = itertools.count(1)


class AVal:
    tags = frozenset()

    def with_tags(self, tags):
        if not tags:
            return self
        import copy
        c = copy.copy(self)
        c.tags = frozenset(self.tags) | frozenset(tags)
        return c


class ConstV(AVal):
    """None / bool / float / other immutable python constants (ints use IntV, text uses SeqV)."""
    def __init__(self, value, tags=frozenset()):
        self.value = value
        self.tags = tags

    def __repr__(self):
        return f'{self.value!r}'


class IntV(AVal):
    def __init__(self, lin, tags=frozenset()):
        self.lin = Lin.of(lin)
        self.tags = tags

    def __repr__(self):
        return f'int({self.lin})'


class SymV(AVal):
    """Opaque value.  kind: any|bool|dict|obj|decimal|datetime|elem|...;
    choices: optional tuple of python constants the value ranges over."""
    def __init__(self, name, kind='any', choices=None, tags=frozenset(), origin=None):
        self.name = name
        self.kind = kind
        self.choices = choices
        self.tags = tags
        self.origin = origin

    def __repr__(self):
        return f'<{self.kind}:{self.name}>'


class UnkV(AVal):
    def __init__(self, reason, tags=frozenset()):
        self.reason = reason
        self.tags = tags

    def __repr__(self):
        return f'<unknown:{self.reason}>'


# ---------------------------------------------------------------- sequences
class Source:
    """An underlying str/bytes object that slices refer to."""
    def __init__(self, name, kind, length, tags=frozenset(), charset=None):
        self.name = name
        self.kind = kind
        self.length = Lin.of(length)
        self.tags = frozenset(tags)
        self.charset = charset
        self.id = next(_ids)

    def __repr__(self):
        return self.name


class Seg:
    pass


class Lit(Seg):
    def __init__(self, data):
        self.data = data

    def length(self):
        return Lin.const(len(self.data))

    def __repr__(self):
        return repr(self.data)


class Sl(Seg):
    def __init__(self, src, lo, hi):
        self.src = src
        self.lo = Lin.of(lo)
        self.hi = Lin.of(hi)

    def length(self):
        return self.hi - self.lo

    def __repr__(self):
        return f'{self.src.name}[{self.lo}:{self.hi}]'


class Num(Seg):
    """Numeral of an integer: right aligned, filled on the left with `fill` up to minw.
    val: Lin or None (opaque value); width: Lin (constant or symbol)."""
    def __init__(self, val, base, minw, fill, width, upper=False, vdesc=None, vrange=None):
        self.val = val
        self.base = base
        self.minw = minw
        self.fill = fill
        self.width = Lin.of(width)
        self.upper = upper
        self.vdesc = vdesc
        self.vrange = vrange

    def length(self):
        return self.width

    def __repr__(self):
        v = self.val if self.val is not None else (self.vdesc or '?')
        return f'Num({v},base{self.base},minw{self.minw},fill{self.fill!r},w={self.width})'


class Rep(Seg):
    def __init__(self, unit, count):
        self.unit = unit          # 1-element str/bytes constant, or a SeqV of length 1 (e.g. mask_char)
        self.count = Lin.of(count)

    def length(self):
        return self.count

    def __repr__(self):
        return f'{self.unit!r}*({self.count})'


class Opq(Seg):
    def __init__(self, length, desc, deps=()):
        self.len = Lin.of(length)
        self.desc = desc
        self.deps = tuple(deps)

    def length(self):
        return self.len

    def __repr__(self):
        return f'Opq<{self.desc}>[{self.len}]'


class SeqV(AVal):
    def __init__(self, kind, segs, tags=frozenset()):
        self.kind = kind
        self.segs = tuple(segs)
        self.tags = frozenset(tags)

    def length(self):
        total = Lin.const(0)
        for s in self.segs:
            total = total + s.length()
        return total

    def is_lit(self):
        return all(isinstance(s, Lit) for s in self.segs)

    def lit_value(self):
        if self.kind == 'str':
            return ''.join(s.data for s in self.segs)
        return b''.join(s.data for s in self.segs)

    def all_tags(self):
        t = set(self.tags)
        for s in self.segs:
            if isinstance(s, Sl):
                t |= s.src.tags
            if isinstance(s, Opq):
                for d in s.deps:
                    if isinstance(d, AVal):
                        t |= value_tags(d)
        return frozenset(t)

    def __repr__(self):
        p = 'b' if self.kind == 'bytes' else 's'
        return p + '[' + ' ++ '.join(repr(s) for s in self.segs) + ']'


def value_tags(v):
    if isinstance(v, SeqV):
        return v.all_tags()
    return frozenset(getattr(v, 'tags', frozenset()))


def lit(data, tags=frozenset()):
    kind = 'bytes' if isinstance(data, (bytes, bytearray)) else 'str'
    if len(data) == 0:
        return SeqV(kind, (), tags)
    return SeqV(kind, (Lit(bytes(data) if kind == 'bytes' else data),), tags)


# ---------------------------------------------------------------- containers
class TupleV(AVal):
    def __init__(self, items, tags=frozenset()):
        self.items = list(items)
        self.tags = tags

    def __repr__(self):
        return '(' + ', '.join(repr(i) for i in self.items) + ')'


class ListV(AVal):
    def __init__(self, items=None, elem=None, length=None, order=None, tags=frozenset(), desc=None):
        self.items = items            # list[AVal] or None (unknown contents)
        self.elem = elem              # generic element when items is None
        self.len = Lin.of(length) if length is not None else (Lin.const(len(items)) if items is not None else None)
        self.order = order            # 'asc' | 'desc' | None
        self.tags = tags
        self.desc = desc
        self.id = next(_ids)
        self.stores = []              # symbolic stores (index, value)

    def __repr__(self):
        if self.items is not None and len(self.items) <= 6:
            return '[' + ', '.join(repr(i) for i in self.items) + ']'
        return f'<list#{self.id} len={self.len} elem={self.elem!r} order={self.order} {self.desc or ""}>'


class DictV(AVal):
    def __init__(self, items=None, default=None, open_=False, tags=frozenset(), desc=None):
        self.items = dict(items or {})   # python key -> AVal
        self.default = default           # callable(interp, key_aval, node) -> AVal for unknown keys
        self.open = open_
        self.sym_stores = []             # (key aval, value aval)
        self.tags = tags
        self.desc = desc
        self.id = next(_ids)
        self.memo = {}

    def __repr__(self):
        ks = ','.join(repr(k) for k in list(self.items)[:6])
        return f'<dict#{self.id} {self.desc or ""} keys=[{ks}]{"+" if self.open or self.sym_stores else ""}>'


class PyLit(AVal):
    """A concrete immutable python literal structure (the packaged configuration)."""
    def __init__(self, value, path='config', tags=frozenset()):
        self.value = value
        self.path = path
        self.tags = tags

    def __repr__(self):
        return f'<pylit {self.path}>'


class SliceV(AVal):
    def __init__(self, lo, hi, step=None):
        self.lo = lo
        self.hi = hi
        self.step = step

    def __repr__(self):
        return f'slice({self.lo},{self.hi})'


class RangeV(AVal):
    def __init__(self, lo, hi, step=1):
        self.lo = lo
        self.hi = hi
        self.step = step

    def __repr__(self):
        return f'range({self.lo},{self.hi},{self.step})'


class IterV(AVal):
    """Generic iterable with a generic element (generator expression, enumerate, zip, reader object...)."""
    def __init__(self, elem, src=None, filtered=False, desc=None, length=None, tags=frozenset()):
        self.elem = elem
        self.src = src
        self.filtered = filtered
        self.desc = desc
        self.len = length
        self.tags = tags

    def __repr__(self):
        return f'<iter {self.desc or ""} elem={self.elem!r}{" filtered" if self.filtered else ""}>'


# ---------------------------------------------------------------- objects
class ObjV(AVal):
    def __init__(self, cls, tags=frozenset()):
        self.cls = cls
        self.fields = {}
        self.tags = tags
        self.id = next(_ids)

    def __repr__(self):
        return f'<{self.cls.name}#{self.id}>'


class FileV(AVal):
    def __init__(self, name, store=None, tags=frozenset(), mode=None):
        self.name = name
        self.tags = frozenset(tags)
        self.id = next(_ids)
        self.src = None        # Source of content (created lazily by interp)
        self.pos = Lin.const(0)
        self.mode = mode
        self.closed = False

    def __repr__(self):
        return f'<file {self.name}>'


class FuncV(AVal):
    def __init__(self, fi, self_obj=None, cls_obj=None):
        self.fi = fi
        self.self_obj = self_obj
        self.cls_obj = cls_obj

    def __repr__(self):
        return f'<fn {self.fi.short}>'


class ClassV(AVal):
    def __init__(self, ci):
        self.ci = ci

    def __repr__(self):
        return f'<cls {self.ci.name}>'


class ModV(AVal):
    def __init__(self, mod):
        self.mod = mod

    def __repr__(self):
        return f'<mod {self.mod.name}>'


class ExtV(AVal):
    """External (stdlib / third party) module, function or class by dotted name."""
    def __init__(self, name):
        self.name = name

    def __repr__(self):
        return f'<ext {self.name}>'


class BoundExt(AVal):
    """Method `name` of abstract receiver `recv` handled by a transfer function."""
    def __init__(self, recv, name):
        self.recv = recv
        self.name = name

    def __repr__(self):
        return f'<method {self.name} of {self.recv!r}>'


class SuperV(AVal):
    def __init__(self, obj, cls, owner):
        self.obj = obj
        self.cls = cls        # ClassInfo of the dynamic object / cls
        self.owner = owner    # ClassInfo where super() was evaluated

    def __repr__(self):
        return f'<super of {self.owner.name}>'


class ExcV(AVal):
    """An exception instance."""
    def __init__(self, cls, args=(), kwargs=None, node=None, stack=(), op=None, definite=True, cause=None):
        self.cls = cls            # ClassInfo or python exception class
        self.args = list(args)
        self.kwargs = dict(kwargs or {})
        self.node = node
        self.stack = stack
        self.op = op              # description of a raising operation, if any
        self.definite = definite
        self.cause = cause
        self.fields = {}
        self.raise_node = None

    def cls_name(self):
        return self.cls.name if hasattr(self.cls, 'qualname') else self.cls.__name__

    def __repr__(self):
        return f'<exc {self.cls_name()}>'


class GenCallV(AVal):
    """A generator function called but not started: its body runs when a for-loop consumes it."""
    def __init__(self, fi, args, kwargs, self_obj=None, cls_obj=None, closure=None):
        self.fi = fi
        self.args = list(args)
        self.kwargs = dict(kwargs)
        self.self_obj = self_obj
        self.cls_obj = cls_obj
        self.closure = closure
        self.started = False

    def __repr__(self):
        return f'<generator {self.fi.short}>'


class PartialV(AVal):
    """functools.partial(fn, *args, **kwargs) / operator.methodcaller / itemgetter / attrgetter: a deferred call"""
    def __init__(self, kind, fn, args=(), kwargs=None):
        self.kind = kind            # 'partial' | 'methodcaller' | 'itemgetter' | 'attrgetter'
        self.fn = fn
        self.args = list(args)
        self.kwargs = dict(kwargs or {})

    def __repr__(self):
        return f'<{self.kind} {self.fn!r}>'
