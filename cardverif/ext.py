"""Transfer functions for stdlib functions and for methods of abstract values."""
from __future__ import annotations

import binascii
import struct as _struct

from .lin import Lin
from .avals import *   # noqa
from .avals import value_tags
from . import seqops
from .signals import Raised, Abandon

# external callables that are total for our purposes (never raise on any argument that reaches them)
TOTAL_EXT = {
    'logging.getLogger', 'logging.basicConfig', 'cardutil.vendor.hexdump.hexdump', 'cardutil.vendor.hexdump',
    'argparse.ArgumentParser', 'collections.Counter', 'csv.DictWriter', 'csv.DictReader',
    'os.path.isfile', 'os.path.abspath', 'os.path.join', 'os.environ.get', 'itertools.cycle',
    'cryptography.hazmat.backends.default_backend', 'abc.abstractmethod',
    'cryptography.hazmat.primitives.ciphers.Cipher',
}
TOTAL_PREFIX = (
    'cryptography.hazmat.primitives.ciphers.', 'cryptography.hazmat.decrepit.ciphers.', 'logging.',
    'cardutil.vendor.hexdump.',
)


def _codec_of(it, args, kwargs):
    c = args[0] if args else kwargs.get('encoding')
    return it.resolve(c) if c is not None else lit('utf-8')


def _lossy_errors(it, args, kwargs):
    """the errors= argument of encode / decode when it is anything but 'strict' (a name, or '?' when it is not a constant)"""
    e = args[1] if len(args) > 1 else kwargs.get('errors')
    if e is None:
        return None
    k = it.py_key(it.resolve(e))
    if k == 'strict':
        return None
    return k if isinstance(k, str) else '?'


def _codec_name(it, codec):
    k = it.py_key(codec)
    return k if isinstance(k, str) else None


SINGLE_BYTE = {'latin_1', 'latin1', 'latin-1', 'iso-8859-1', 'iso8859-1', 'cp500', 'cp037', 'cp1252', 'l1',
               'cp1140', 'cp273', 'cp437', 'cp850', 'iso-8859-15'}
TOTAL_DECODE = {'latin_1', 'latin1', 'latin-1', 'iso-8859-1', 'iso8859-1', 'cp500', 'cp037', 'l1', 'cp1140',
                'cp273', 'cp437', 'cp850'}


def _conv_segs(it, v, to_kind, codec_name):
    out = []
    for g in v.segs:
        if isinstance(g, Lit):
            if codec_name is not None:
                try:
                    data = g.data.decode(codec_name) if to_kind == 'str' else g.data.encode(codec_name)
                    if len(data) == len(g.data):
                        out.append(Lit(data))
                        continue
                except (UnicodeError, LookupError):
                    pass
            d = g.data
            if (isinstance(d, str) and d.isascii() and d.isdigit()) or (isinstance(d, bytes) and d.isdigit() and codec_name is None):
                out.append(Opq(Lin.const(len(d)), ('recode-digits', d)))
            else:
                out.append(Opq(Lin.const(len(d)), ('recode', d)))
        elif isinstance(g, Rep) and isinstance(g.unit, (str, bytes)):
            u = None
            if codec_name is not None:
                try:
                    u = g.unit.decode(codec_name) if to_kind == 'str' else g.unit.encode(codec_name)
                except (UnicodeError, LookupError):
                    u = None
            if u is not None and len(u) == 1:
                out.append(Rep(u, g.count))
            else:
                out.append(Opq(g.count, ('recode-rep', g.unit)))
        else:
            out.append(g)
    return out


def _ascii_only(v):
    for g in v.segs:
        if isinstance(g, Lit):
            if not all(c < 128 for c in (g.data if isinstance(g.data, bytes) else g.data.encode('utf-8', 'replace'))):
                return False
        elif isinstance(g, Num):
            continue
        elif isinstance(g, Opq) and isinstance(g.desc, tuple) and g.desc and g.desc[0] in ('hexlify', 'upper', 'lower'):
            if g.desc[0] != 'hexlify':
                inner = g.desc[1]
                if not (isinstance(inner, SeqV) and _ascii_only(inner)):
                    return False
        else:
            return False
    return True


def seq_decode(it, v, args, kwargs, node):
    if v.kind != 'bytes':
        it.note_unknown(node, 'decode on str')
        return UnkV('decode')
    codec = _codec_of(it, args, kwargs)
    name = _codec_name(it, codec)
    lossy = _lossy_errors(it, args, kwargs)
    it.event('codec', node, op='decode', value=v, codec=codec, errors=lossy)
    if lossy:
        # errors='replace' / 'ignore' ...: never raises, and what the codec cannot decode is altered or dropped
        if lossy == 'replace':          # one replacement character per undecodable byte (single-byte codecs): same length
            return seqops.opaque(it, 'str', v.length(), f'decode(errors={lossy!r})', deps=(v,), tags=v.tags)
        return seqops.opaque_fresh(it, 'str', f'decode(errors={lossy!r})', deps=(v,), tags=v.tags)
    if _ascii_only(v) and (name is None and not args and 'encoding' not in kwargs or
                           (name or '').lower().replace('-', '_') in ('utf_8', 'utf8', 'ascii', 'latin_1', 'latin1')):
        it.op_safe(node, 'decode', 'argument is ASCII by construction (hex digits / numerals)')
        return seqops.normalise(it, 'str', _conv_segs(it, v, 'str', name or 'ascii'), v.tags)
    if not v.is_lit() or name is None:
        if name is None or name.lower().replace('-', '_') not in {n.replace('-', '_') for n in TOTAL_DECODE}:
            it.may_raise(UnicodeDecodeError, node, f'decode({codec!r})', wire='wire' in value_tags(v))
        else:
            it.op_safe(node, 'decode', f'codec {name} decodes every byte')
    else:
        try:
            return lit(v.lit_value().decode(name))
        except LookupError:
            raise Raised(ExcV(LookupError, [], node=node, stack=it.stack, op=f'decode: unknown encoding {name!r}', definite=True))
        except UnicodeError:
            raise Raised(ExcV(UnicodeDecodeError, [], node=node, stack=it.stack, op='decode', definite=True))
    r = seqops.normalise(it, 'str', _conv_segs(it, v, 'str', name), v.tags)
    r.codec = codec
    return r


def seq_encode(it, v, args, kwargs, node):
    if v.kind != 'str':
        it.note_unknown(node, 'encode on bytes')
        return UnkV('encode')
    codec = _codec_of(it, args, kwargs)
    name = _codec_name(it, codec)
    lossy = _lossy_errors(it, args, kwargs)
    it.event('codec', node, op='encode', value=v, codec=codec, errors=lossy)
    if lossy:
        if lossy == 'replace':
            return seqops.opaque(it, 'bytes', v.length(), f'encode(errors={lossy!r})', deps=(v,), tags=v.tags)
        return seqops.opaque_fresh(it, 'bytes', f'encode(errors={lossy!r})', deps=(v,), tags=v.tags)
    if v.is_lit() and name is not None:
        try:
            return lit(v.lit_value().encode(name))
        except LookupError:
            raise Raised(ExcV(LookupError, [], node=node, stack=it.stack, op=f'encode: unknown encoding {name!r}', definite=True))
        except UnicodeError:
            raise Raised(ExcV(UnicodeEncodeError, [], node=node, stack=it.stack, op='encode', definite=True))
    it.may_raise(UnicodeEncodeError, node, f'encode({codec!r})', wire='wire' in value_tags(v))
    r = seqops.normalise(it, 'bytes', _conv_segs(it, v, 'bytes', name), v.tags)
    r.codec = codec
    return r


def _m_decode(it, v, args, kwargs, node):
    return seq_decode(it, v, args, kwargs, node)


def _m_encode(it, v, args, kwargs, node):
    return seq_encode(it, v, args, kwargs, node)


def _m_startswith(it, v, args, kwargs, node):
    p = it.resolve(args[0])
    if isinstance(p, SeqV) and p.is_lit():
        n = len(p.lit_value())
        if it.store.decide_ge0(v.length() - n) is False:
            return ConstV(False)
        if v.segs and isinstance(v.segs[0], Lit) and len(v.segs[0].data) >= n:
            return ConstV(v.segs[0].data[:n] == p.lit_value())
        key = ('startswith', it._seq_key(v), p.lit_value())
        if key in it.binds:
            return ConstV(it.binds[key])
        r = it._fact_fork('startswith', node, value=v, prefix=p.lit_value())
        it.binds[key] = r
        if r:
            it.store.assume_ge0(v.length() - n)
        return ConstV(r)
    return ConstV(it._fact_fork('startswith', node, value=v, prefix=p))


def _m_endswith(it, v, args, kwargs, node):
    return ConstV(it._fact_fork('endswith', node, value=v, suffix=args[0]))


def _charclass(name):
    def f(it, v, args, kwargs, node):
        if v.is_lit():
            return ConstV(getattr(v.lit_value(), name)())
        from .calls import _is_digit_seq
        if name in ('isdigit', 'isnumeric', 'isdecimal') and _is_digit_seq(it, v):
            return ConstV(True)
        if it.store.decide_ge0(v.length() - 1) is False:
            return ConstV(False)
        key = (name, it._seq_key(v))
        if key in it.binds:
            return ConstV(it.binds[key])
        r = it._fact_fork(name, node, value=v)
        it.binds[key] = r
        if r:
            it.store.assume_ge0(v.length() - 1)
            if name == 'isdecimal' or (name == 'isdigit' and v.kind == 'bytes'):
                # str.isdigit() also accepts superscript digits, which int() rejects: only isdecimal (or the
                # ASCII-only bytes.isdigit) discharges int()
                it.binds[('digits', it._seq_key(v))] = True
            if name in ('isdigit', 'isdecimal'):
                # integers already parsed from this very text are non-negative
                k = it._seq_key(v)
                for sym, o in list(it.origin.items()):
                    if o[0] == 'int' and isinstance(o[1], SeqV) and it._seq_key(o[1]) == k and o[2] == 10:
                        it.store.assume_ge0(Lin.sym(sym))
        return ConstV(r)
    return f


def _m_upper(it, v, args, kwargs, node):
    if v.is_lit():
        return lit(v.lit_value().upper())
    return seqops.opaque(it, v.kind, v.length(), ('upper', v), deps=(v,), tags=v.tags)


def _m_recase(name):
    # capitalize / title / swapcase / casefold of text: the same number of characters for the ASCII text these tools handle
    def f(it, v, args, kwargs, node):
        if v.is_lit():
            return lit(getattr(v.lit_value(), name)())
        return seqops.opaque(it, v.kind, v.length(), (name, v), deps=(v,), tags=v.tags)
    return f


def _m_lower(it, v, args, kwargs, node):
    if v.is_lit():
        return lit(v.lit_value().lower())
    return seqops.opaque(it, v.kind, v.length(), ('lower', v), deps=(v,), tags=v.tags)


def _m_strip(which):
    def f(it, v, args, kwargs, node):
        if v.is_lit() and not args:
            return lit(getattr(v.lit_value(), which)())
        s = it.fresh('len<strip>')
        it.store.declare(s, 0, it.store.hi(v.length()))
        it.store.cons.append(v.length() - Lin.sym(s))
        return SeqV(v.kind, (Opq(Lin.sym(s), (which, v), (v,)),), v.tags)
    return f


def _m_just(align):
    def f(it, v, args, kwargs, node):
        w = it.as_lin(args[0])
        fill = ' '
        if len(args) > 1:
            fv = it.py_key(args[1])
            if fv is None:
                it.note_unknown(node, 'justify with symbolic fill')
                return seqops.opaque_fresh(it, v.kind, 'just')
            fill = fv if isinstance(fv, str) else fv.decode('latin_1')
        if w is None:
            it.note_unknown(node, 'justify with non-int width')
            return seqops.opaque_fresh(it, v.kind, 'just')
        return seqops.pad(it, v, w, align, fill)
    return f


def _m_partition(it, v, args, kwargs, node):
    """s.partition(sep): exact for literals and when s visibly starts with the literal separator"""
    sep = it.resolve(args[0]) if args else None
    if isinstance(sep, SeqV) and sep.is_lit() and sep.kind == v.kind and len(sep.lit_value()) > 0:
        sp = sep.lit_value()
        if v.is_lit():
            a, b, c = v.lit_value().partition(sp)
            return TupleV([lit(a), lit(b), lit(c)])
        if v.segs and isinstance(v.segs[0], Lit) and v.segs[0].data.startswith(sp):
            rest = seqops.slice_seq(it, v, Lin.const(len(sp)), v.length())
            return TupleV([lit(sp[:0]), lit(sp), rest])
    it.note_unknown(node, f'method partition of {v!r}')
    return TupleV([seqops.opaque_fresh(it, v.kind, 'partition'), seqops.opaque_fresh(it, v.kind, 'partition'),
                   seqops.opaque_fresh(it, v.kind, 'partition')])


def _m_zfill(it, v, args, kwargs, node):
    w = it.as_lin(args[0])
    if w is None:
        return seqops.opaque_fresh(it, v.kind, 'zfill')
    if len(v.segs) == 1 and isinstance(v.segs[0], Num) and v.segs[0].minw == 0:
        n = v.segs[0]
        cw = it.store.canon(w)
        if cw.is_const():
            return seqops.numeral(it, n.val, n.base, cw.c, '0', n.upper, v.kind, n.vdesc, n.vrange).with_tags(v.tags)
    return seqops.pad(it, v, w, '>', '0')


def _m_format(it, v, args, kwargs, node):
    """str.format with a literal template (nested specs with constant arguments are folded)."""
    if not (v.is_lit() and v.kind == 'str'):
        it.note_unknown(node, 'format on non-literal template')
        return seqops.opaque_fresh(it, 'str', 'str.format')
    import string
    out = lit('')
    auto = 0
    try:
        parsed = list(string.Formatter().parse(v.lit_value()))
    except ValueError:
        it.note_unknown(node, 'unparseable format template')
        return seqops.opaque_fresh(it, 'str', 'str.format')
    for text, field, spec, conv in parsed:
        if text:
            out = seqops.concat(it, out, lit(text))
        if field is None:
            continue
        if field == '':
            val = args[auto] if auto < len(args) else UnkV('format arg')
            auto += 1
        elif field.isdigit():
            val = args[int(field)] if int(field) < len(args) else UnkV('format arg')
        elif field in kwargs:
            val = kwargs[field]
        else:
            it.note_unknown(node, f'format field {field!r}')
            val = UnkV('format field')
        spec = spec or ''
        if '{' in spec:
            # nested replacement fields: fold constant arguments
            ok = True
            sub_out = ''
            for t2, f2, s2, c2 in string.Formatter().parse(spec):
                sub_out += t2 or ''
                if f2 is None:
                    continue
                if f2 == '':
                    a2 = args[auto] if auto < len(args) else None
                    auto += 1
                elif f2.isdigit():
                    a2 = args[int(f2)]
                else:
                    a2 = kwargs.get(f2)
                k2 = it.py_key(a2) if a2 is not None else None
                if k2 is None:
                    ok = False
                    break
                sub_out += format(k2, s2 or '')
            if not ok:
                it.note_unknown(node, 'nested format spec with symbolic argument')
                out = seqops.concat(it, out, seqops.opaque_fresh(it, 'str', 'format(nested)', deps=(val,)))
                continue
            spec = sub_out
        if conv == 's':
            val = seqops.to_str(it, val, node)
        elif conv in ('r', 'a'):
            val = seqops.opaque_fresh(it, 'str', 'repr', deps=(val,))
        out = seqops.concat(it, out, it.do_format(val, spec, node))
    return out


def _m_translate(it, v, args, kwargs, node):
    return seqops.opaque_fresh(it, v.kind, 'translate', deps=(v,), tags=value_tags(v))


def _m_join(it, v, args, kwargs, node):
    arg = it.resolve(args[0])
    if isinstance(arg, GenCallV):
        arg = it.drain_generator(arg, node)
    sep_len = v.length()
    if isinstance(arg, ListV) and arg.items is None and it.store.decide_eq0(sep_len) is True:
        from .loops import list_joined
        j = list_joined(it, arg)
        if j is not None and j.kind == v.kind:
            # non-empty list of elements of at least min_elem characters: the text is not empty
            m = getattr(arg, 'min_elem', None)
            if m and arg.len is not None and it.store.prove_ge0(arg.len - 1):
                it.store.assume_ge0(j.length() - m)
            return j
    if isinstance(arg, ListV) and arg.items is not None:
        out = SeqV(v.kind, ())
        for i, x in enumerate(arg.items):
            x = it.resolve(x)
            if not isinstance(x, SeqV):
                return seqops.opaque_fresh(it, v.kind, 'join')
            if i:
                out = seqops.concat(it, out, v)
            out = seqops.concat(it, out, x)
        return out
    elem, ln = it.iter_element(arg, node)
    elem = it.resolve(elem)
    if isinstance(elem, SeqV) and ln is not None:
        el = it.store.canon(elem.length())
        sl = it.store.canon(sep_len)
        if el.is_const() and sl.is_const() and sl.c == 0:
            desc = ('join', elem, arg)
            if el.c == 1 and all(isinstance(g, Opq) for g in elem.segs):
                d0 = elem.segs[0].desc
                if isinstance(d0, tuple) and d0[0] == 'join' and all(
                        isinstance(x, SeqV) and x.is_lit() and x.lit_value() in ('0', '1') for x in d0[1:3]):
                    desc = ('join-bits', arg)
            return seqops.opaque(it, v.kind, ln.scale(el.c), desc, deps=(arg,), tags=value_tags(arg))
    r = seqops.opaque_fresh(it, v.kind, 'join', deps=(arg,), tags=value_tags(arg))
    r.join_of = (arg, elem)
    return r


def _m_hex(it, v, args, kwargs, node):
    return seqops.opaque(it, 'str', v.length().scale(2), ('hexlify', v), deps=(v,), tags=value_tags(v))


def _m_replace(it, v, args, kwargs, node):
    """s.replace(old, new, 1) where `old` is a non-empty slice s[a:b] of the very string it is applied to, s unconstrained:
    the first occurrence is at a - or earlier (e.g. when all characters are equal), so two cases."""
    old = it.resolve(args[0]) if args else None
    new = it.resolve(args[1]) if len(args) > 1 else None
    cnt = it.as_lin(args[2]) if len(args) > 2 else None
    whole = len(v.segs) == 1 and isinstance(v.segs[0], Sl) and it.store.decide_eq0(v.segs[0].lo) is True and \
        it.store.decide_eq0(v.segs[0].hi - v.segs[0].src.length) is True
    if whole and isinstance(old, SeqV) and isinstance(new, SeqV) and len(old.segs) == 1 and isinstance(old.segs[0], Sl) \
            and old.segs[0].src is v.segs[0].src and cnt is not None and it.store.decide_eq0(cnt - 1) is True \
            and it.store.prove_ge0(old.length() - 1) and not getattr(v.segs[0].src, 'charset', None) in ('literal',) \
            and not it.nofork:
        src = v.segs[0].src
        a, b = old.segs[0].lo, old.segs[0].hi
        n = src.length
        if it.choose(2, 'replace: first occurrence at its own position / earlier') in (0, None):
            i = a
        else:
            sym = it.fresh('occurrence')
            it.store.declare(sym, 0, None, info='index of an earlier occurrence of the replaced slice')
            it.store.assume_ge0(a - 1 - Lin.sym(sym))
            i = Lin.sym(sym)
        m = b - a
        head = seqops.slice_seq(it, v, Lin.const(0), i)
        tail = seqops.slice_seq(it, v, i + m, n)
        r = seqops.concat(it, seqops.concat(it, head, new), tail)
        it.event('replace-own-slice', node, value=v, old=old, index=i)
        return r
    return SymV(it.fresh('replace'), 'any', origin=('method', v, 'replace', args), tags=value_tags(v))


def _m_generic_seq(name):
    def f(it, v, args, kwargs, node):
        return SymV(it.fresh(name), 'any', origin=('method', v, name, args), tags=value_tags(v))
    return f


SEQ_METHODS = {
    'decode': _m_decode, 'encode': _m_encode, 'startswith': _m_startswith, 'endswith': _m_endswith,
    'isdigit': _charclass('isdigit'), 'isnumeric': _charclass('isnumeric'), 'isdecimal': _charclass('isdecimal'),
    'isalpha': _charclass('isalpha'), 'isalnum': _charclass('isalnum'), 'isspace': _charclass('isspace'),
    'upper': _m_upper, 'lower': _m_lower, 'capitalize': _m_recase('capitalize'), 'title': _m_recase('title'),
    'swapcase': _m_recase('swapcase'), 'rstrip': _m_strip('rstrip'), 'lstrip': _m_strip('lstrip'),
    'strip': _m_strip('strip'), 'ljust': _m_just('<'), 'rjust': _m_just('>'), 'zfill': _m_zfill, 'partition': _m_partition,
    'format': _m_format, 'translate': _m_translate, 'join': _m_join, 'hex': _m_hex, 'split': _m_generic_seq('split'),
    'replace': _m_replace, 'find': _m_generic_seq('find'), 'count': _m_generic_seq('count'),
    'splitlines': _m_generic_seq('splitlines'), 'title': _m_generic_seq('title'),
}


# ---------------------------------------------------------------- list methods
def _l_append(it, v, args, kwargs, node):
    it.event('list-append', node, obj=v, value=args[0])
    if 'global' in v.tags:
        it.event('mutate-shared', node, target=v, how='append')
    if v.items is not None:
        v.items.append(args[0])
        v.len = Lin.const(len(v.items))
    else:
        v.stores.append(('append', args[0]))
        if v.len is not None:
            v.len = v.len + 1
        if v.elem is None:
            v.elem = args[0]
        a0 = it.resolve(args[0])
        j = getattr(v, 'joined', None)
        if j is not None:
            if isinstance(a0, SeqV) and a0.kind == j.kind:
                v.joined = seqops.concat(it, j, a0)
                lo = it.store.lo(a0.length())
                m = getattr(v, 'min_elem', None)
                v.min_elem = (lo if m is None else min(m, lo)) if (lo is not None and (m is not None or not getattr(v, 'len_head', None))) else (min(m, lo) if m is not None and lo is not None else None)
            else:
                v.joined = None
    v.order = None
    return ConstV(None)


def _l_extend(it, v, args, kwargs, node):
    other = it.resolve(args[0])
    it.event('list-extend', node, obj=v, value=other)
    if 'global' in v.tags:
        it.event('mutate-shared', node, target=v, how='extend')
    if v.items is not None and isinstance(other, (ListV, TupleV)) and other.items is not None:
        v.items.extend(other.items)
        v.len = Lin.const(len(v.items))
        return ConstV(None)
    elem, ln = it.iter_element(other, node)
    v.parts = getattr(v, 'parts', None) or ([('items', list(v.items))] if v.items is not None else [('unknown', v.len)])
    v.parts.append(('extend', other, ln))
    if v.items is not None:
        v.prev_items = list(v.items)
        v.elem = elem
        v.items = None
    if v.len is not None and ln is not None:
        v.len = v.len + ln
    else:
        s = it.fresh('n')
        it.store.declare(s, 0, None)
        v.len = Lin.sym(s)
    v.order = None
    return ConstV(None)


def _l_pop(it, v, args, kwargs, node):
    idx = it.as_lin(args[0]) if args else None
    it.event('list-pop', node, obj=v, index=idx, order=v.order)
    if 'global' in v.tags:
        it.event('mutate-shared', node, target=v, how='pop')
    if v.items is not None:
        ci = it.store.canon(idx) if idx is not None else Lin.const(-1)
        if ci.is_const() and v.items and -len(v.items) <= ci.c < len(v.items):
            r = v.items.pop(ci.c)
            v.len = Lin.const(len(v.items))
            return r
        if not v.items:
            raise Raised(ExcV(IndexError, [], node=node, stack=it.stack, op='pop from empty list', definite=True))
    if v.len is not None:
        if not it.store.prove_ge0(v.len - 1):
            it.may_raise(IndexError, node, f'pop from list of length {v.len}', wire=False)
            it.assume_ge0(v.len - 1)
        v.len = v.len - 1
    return v.elem if v.elem is not None else SymV(it.fresh('elem'), 'elem', origin=v)


def _l_sort(it, v, args, kwargs, node):
    rev = kwargs.get('reverse')
    v.order = 'desc' if rev is not None and it.truth(rev) else 'asc'
    if v.items is not None:
        v.elem = it.join_many(v.items) if v.items else None
        v.items = None
    return ConstV(None)


def _l_generic(name):
    def f(it, v, args, kwargs, node):
        it.event('list-method', node, obj=v, name=name, args=args)
        if name in ('insert', 'remove', 'clear', 'reverse'):
            if 'global' in v.tags:
                it.event('mutate-shared', node, target=v, how=name)
            if v.items is not None:
                v.elem = it.join_many(v.items + list(args[-1:])) if v.items or args else None
                v.items = None
            s = it.fresh('n')
            it.store.declare(s, 0, None)
            v.len = Lin.sym(s)
            v.order = None
            return ConstV(None)
        return SymV(it.fresh(name), 'any')
    return f


LIST_METHODS = {'append': _l_append, 'extend': _l_extend, 'pop': _l_pop, 'sort': _l_sort,
                'insert': _l_generic('insert'), 'remove': _l_generic('remove'), 'clear': _l_generic('clear'),
                'reverse': _l_generic('reverse'), 'index': _l_generic('index'), 'count': _l_generic('count'),
                'copy': lambda it, v, a, k, n: ListV(items=list(v.items)) if v.items is not None
                else ListV(items=None, elem=v.elem, length=v.len, order=v.order),
                'tolist': lambda it, v, a, k, n: v,
                'tobytes': lambda it, v, a, k, n: seqops.opaque(it, 'bytes', v.len, ('array-bytes', v), tags=value_tags(v))
                if v.len is not None else seqops.opaque_fresh(it, 'bytes', 'array-bytes')}


# ---------------------------------------------------------------- dict methods
def _d_get(it, v, args, kwargs, node):
    key = it.resolve(args[0])
    default = args[1] if len(args) > 1 else kwargs.get('default')
    if isinstance(v, PyLit):
        r = it.pylit_get(v, key, node, strict=False, default=default)
    else:
        r = it.dict_get(v, key, node, strict=False, default=default)
    return r


def _d_update(it, v, args, kwargs, node):
    other = it.resolve(args[0]) if args else None
    it.event('dict-update', node, obj=v, value=other, kwargs=kwargs)
    if isinstance(v, PyLit) or 'global' in v.tags:
        it.event('mutate-shared', node, target=v, how='update')
        return ConstV(None)
    if isinstance(other, DictV):
        v.items.update(other.items)
        v.sym_stores.extend(other.sym_stores)
        if other.open or other.default is not None:
            v.open = True
        v.merged = getattr(v, 'merged', []) + [other]
        comp = getattr(other, 'comp', None)
        if comp is not None and isinstance(comp[0], TupleV) and len(comp[0].items) == 2 and not other.items and not other.sym_stores:
            # update({key: value for ...}): the generic pair is stored like `d[key] = value` for every element
            v.sym_stores.append((comp[0].items[0], comp[0].items[1]))
            it.event('setitem', node, obj=v, key=comp[0].items[0], value=comp[0].items[1], generic=True, source=other,
                     filtered=bool(comp[2]))
    elif other is not None:
        v.open = True
        v.merged = getattr(v, 'merged', []) + [other]
        el = it.resolve(getattr(other, 'elem', None)) if isinstance(other, (IterV, ListV)) and getattr(other, 'items', None) is None else None
        if isinstance(el, TupleV) and len(el.items) == 2:
            # update(<pairs>): the generic pair is stored like `d[key] = value` executed for every element of the iterable
            v.sym_stores.append((el.items[0], el.items[1]))
            it.event('setitem', node, obj=v, key=el.items[0], value=el.items[1], generic=True, source=other,
                     filtered=bool(getattr(other, 'filtered', False)))
    for k, x in kwargs.items():
        if k != '**':
            v.items[k] = x
    return ConstV(None)


def _d_items(it, v, args, kwargs, node):
    k = SymV(it.fresh('key'), 'key', origin=v)
    if isinstance(v, PyLit):
        hook = it.an.hooks.get('pylit_items')
        if hook is not None:
            return hook(it, v, node)
        val = SymV(it.fresh('value'), 'any', origin=('value-of', v), tags=v.tags)
        return IterV(TupleV([k, val]), src=v, desc='items', length=Lin.const(len(v.value)))
    ke = getattr(v, 'key_elem', None)
    if v.default is not None:
        # each iteration sees its own key and the value configured for that key
        def fresh(it2, v=v, ke=ke, node=node):
            k2 = ke(it2) if ke is not None else SymV(it2.fresh('key'), 'key', origin=v)
            return TupleV([k2, v.default(it2, k2, node, False)])
        r = IterV(fresh(it), src=v, desc='items')
        r.fresh = fresh
        return r
    comp = getattr(v, 'comp', None)
    if comp is not None and isinstance(comp[0], TupleV) and len(comp[0].items) == 2 and not v.items and not v.sym_stores:
        # a dict comprehension that was not changed since: its items are the generic (key, value) pair of the comprehension
        return IterV(TupleV(list(comp[0].items)), src=v, desc='items')
    if not v.open and not v.sym_stores and comp is None and getattr(v, 'merged', None) is None and \
            (len(v.items) <= 16 or getattr(v, 'exact_ok', False)):
        # a fully known dictionary: its items, in insertion order
        r = ListV(items=[TupleV([it.from_py(key), x]) for key, x in v.items.items()], desc='items')
        r.src = v
        r.exact_ok = bool(getattr(v, 'exact_ok', False))
        return r
    val = SymV(it.fresh('value'), 'any', origin=('value-of', v), tags=v.tags)
    return IterV(TupleV([k, val]), src=v, desc='items')


def _d_keys(it, v, args, kwargs, node):
    if isinstance(v, PyLit):
        return ListV(items=[it.from_py(k) for k in v.value.keys()])
    if not v.open and not v.sym_stores and v.default is None:
        return ListV(items=[it.from_py(k) for k in v.items.keys()])
    return IterV(SymV(it.fresh('key'), 'key', origin=v), src=v, desc='keys')


def _d_values(it, v, args, kwargs, node):
    if getattr(v, 'exact_ok', False) and not v.open and not v.sym_stores and v.default is None:
        r = ListV(items=list(v.items.values()), desc='values')
        r.exact_ok = True
        return r
    if isinstance(v, PyLit):
        return IterV(SymV(it.fresh('value'), 'any', origin=('value-of', v)), src=v, desc='values',
                     length=Lin.const(len(v.value)))
    comp = getattr(v, 'comp', None)
    if comp is not None and isinstance(comp[0], TupleV) and len(comp[0].items) == 2 and not v.items and not v.sym_stores:
        return IterV(comp[0].items[1], src=v, desc='values')
    return IterV(SymV(it.fresh('value'), 'any', origin=('value-of', v)), src=v, desc='values')


def _d_pop(it, v, args, kwargs, node):
    it.event('dict-pop', node, obj=v, key=args[0])
    if isinstance(v, PyLit) or 'global' in v.tags:
        it.event('mutate-shared', node, target=v, how='pop')
        return SymV(it.fresh('popped'), 'any')
    k = it.py_key(args[0])
    if k is not None and k in v.items:
        return v.items.pop(k)
    if len(args) > 1:
        if k is not None and not v.open and v.default is None:
            return args[1]
    return SymV(it.fresh('popped'), 'any', origin=('item', v, args[0]))


def _d_setdefault(it, v, args, kwargs, node):
    it.event('dict-setdefault', node, obj=v, key=args[0])
    if isinstance(v, PyLit) or 'global' in v.tags:
        it.event('mutate-shared', node, target=v, how='setdefault')
    k = it.py_key(args[0])
    if isinstance(v, DictV) and k is not None:
        if k not in v.items:
            v.items[k] = args[1] if len(args) > 1 else ConstV(None)
        return v.items[k]
    return SymV(it.fresh('item'), 'any')


def _d_copy(it, v, args, kwargs, node):
    if isinstance(v, PyLit):
        d = DictV(items={k: it.from_py_lit(x, f'{v.path}[{k!r}]', v.tags) for k, x in v.value.items()}, desc='copy')
        return d
    d = DictV(items=dict(v.items), default=v.default, open_=v.open, desc='copy')
    d.sym_stores = list(v.sym_stores)
    return d


DICT_METHODS = {'get': _d_get, 'update': _d_update, 'items': _d_items, 'keys': _d_keys, 'values': _d_values,
                'pop': _d_pop, 'setdefault': _d_setdefault, 'copy': _d_copy,
                'clear': lambda it, v, a, k, n: (it.event('mutate-shared', n, target=v, how='clear')
                                                 if isinstance(v, PyLit) or 'global' in v.tags else None,
                                                 ConstV(None))[1],
                'groupdict': lambda it, v, a, k, n: v}


# ---------------------------------------------------------------- files
def file_source(it, f):
    if f.src is None:
        f.src = seqops.new_source(it, f'content({f.name})', 'bytes', 0, None, tags=f.tags | {'wire'})
    return f.src


def _f_read(it, f, args, kwargs, node):
    src = file_source(it, f)
    n = None
    if args:
        a = it.resolve(args[0])
        if not (isinstance(a, ConstV) and a.value is None):
            n = it.as_lin(a)
            if n is None:
                it.note_unknown(node, f'read size {a!r}')
                return UnkV('read')
    avail = src.length - f.pos
    if n is None or not it.decide_ge0(n):
        k = avail           # read everything
    elif it.decide_ge0(avail - n):
        k = n
    else:
        k = avail
    lo = f.pos
    data = seqops.normalise(it, 'bytes', (Sl(src, lo, lo + k),), f.tags)
    f.pos = lo + k
    it.event('read', node, file=f, size=n, got=k, data=data)
    return data


def _f_write(it, f, args, kwargs, node):
    data = it.resolve(args[0]) if args else UnkV('write arg')
    if 'global' in f.tags:
        it.event('mutate-shared', node, target=f, how='write to a module-level file object')
    it.event('write', node, file=f, data=data)
    f.written = getattr(f, 'written', [])
    f.written.append(data)
    if isinstance(data, SeqV):
        return IntV(data.length())
    return ConstV(None)


def _f_seek(it, f, args, kwargs, node):
    p = it.as_lin(args[0]) if args else None
    it.event('seek', node, file=f, pos=p)
    if p is not None:
        f.pos = p
    return ConstV(None)


def _f_close(it, f, args, kwargs, node):
    it.event('close', node, file=f)
    f.closed = True
    return ConstV(None)


def _f_generic(name):
    def g(it, f, args, kwargs, node):
        it.event('file-method', node, file=f, name=name, args=args)
        return SymV(it.fresh(f'{name}'), 'any', origin=('method', f, name))
    return g


FILE_METHODS = {'read': _f_read, 'write': _f_write, 'seek': _f_seek, 'close': _f_close,
                'tell': _f_generic('tell'), 'flush': _f_generic('flush'), 'getvalue': _f_generic('getvalue'),
                'readline': _f_generic('readline'), '__enter__': lambda it, f, a, k, n: f,
                '__exit__': _f_close}


# ---------------------------------------------------------------- int methods
def _i_to_bytes(it, v, args, kwargs, node):
    ln = it.as_lin(args[0]) if args else it.as_lin(kwargs.get('length'))
    order = it.py_key(args[1] if len(args) > 1 else kwargs.get('byteorder'))
    if ln is None:
        return seqops.opaque_fresh(it, 'bytes', 'to_bytes')
    hi = it.store.hi(v.lin)
    cl = it.store.canon(ln)
    if not (cl.is_const() and hi is not None and hi < 256 ** cl.c and it.store.prove_ge0(v.lin)):
        it.may_raise(OverflowError, node, f'to_bytes({ln})', wire='wire' in value_tags(v))
    return seqops.opaque(it, 'bytes', ln, ('to_bytes', v, order), deps=(v,), tags=value_tags(v))


INT_METHODS = {'to_bytes': _i_to_bytes,
               'bit_length': lambda it, v, a, k, n: it._opaque_int('bit_length', n, nonneg=True)}


# ---------------------------------------------------------------- opaque value methods
def _s_total(name):
    def f(it, v, args, kwargs, node):
        return ConstV(None)
    return f


def _s_match_groupdict(it, v, args, kwargs, node):
    d = DictV(open_=True, desc='groupdict')
    d.default = lambda it2, key, n, strict: seqops.opaque_fresh(it2, 'str', f'group {it2.py_key(key)!r}',
                                                              tags=value_tags(v))
    d.match = v
    return d


def _s_codec(op):
    def f(it, v, args, kwargs, node):
        codec = _codec_of(it, args, kwargs)
        it.event('codec', node, op=op, value=v, codec=codec)
        r = SymV(it.fresh(op + 'd'), 'elem' if v.kind == 'elem' else 'any', origin=(op, v, codec), tags=value_tags(v))
        r.codec = codec
        return r
    return f


def _s_cipher_update(it, v, args, kwargs, node):
    """encryptor.update(data) of a block cipher context: as many bytes as it is given (whole blocks); kept symbolic"""
    o = getattr(v, 'origin', None)
    data = it.resolve(args[0]) if args else None
    if isinstance(o, tuple) and len(o) >= 3 and o[0] == 'method' and o[2] in ('encryptor', 'decryptor') and \
            isinstance(data, SeqV) and data.kind == 'bytes':
        return seqops.opaque(it, 'bytes', data.length(), ('cipher-update', v, data), deps=(data,), tags=value_tags(data))
    return SymV(it.fresh('update'), 'ext', origin=('method', v, 'update', args, kwargs), tags=value_tags(v))


def _s_cipher_finalize(it, v, args, kwargs, node):
    o = getattr(v, 'origin', None)
    if isinstance(o, tuple) and len(o) >= 3 and o[0] == 'method' and o[2] in ('encryptor', 'decryptor') and not args:
        return lit(b'')      # unpadded block modes return everything from update()
    return SymV(it.fresh('finalize'), 'ext', origin=('method', v, 'finalize', args, kwargs), tags=value_tags(v))


SYM_METHODS = {
    ('ext', 'update'): _s_cipher_update, ('ext', 'finalize'): _s_cipher_finalize,
    ('*', 'decode'): _s_codec('decode'), ('*', 'encode'): _s_codec('encode'),
    ('logger', 'debug'): _s_total('debug'), ('logger', 'info'): _s_total('info'),
    ('logger', 'warning'): _s_total('warning'), ('logger', 'error'): _s_total('error'),
    ('logger', 'exception'): _s_total('exception'), ('logger', 'critical'): _s_total('critical'),
    ('match', 'groupdict'): _s_match_groupdict,
}


# ====================================================================== stdlib functions
def e_getlogger(it, args, kwargs, node):
    return SymV('logger', 'logger')


def _parse_struct_fmt(it, fmt):
    """fmt: SeqV str -> (byteorder, [(count Lin, code)]) or None.  Symbolic counts (a numeral segment directly
    before a code) are supported."""
    items = []
    for g in fmt.segs:
        if isinstance(g, Lit):
            items.extend(list(g.data))
        elif isinstance(g, Num) and g.base == 10 and g.minw <= 1:
            items.append(g)
        else:
            return None
    order = '@'
    if items and isinstance(items[0], str) and items[0] in '@=<>!':
        order = items.pop(0)
    out = []
    cnt = None
    digits = ''
    for x in items:
        if isinstance(x, Num):
            if cnt is not None or digits:
                return None
            cnt = x
        elif x.isdigit():
            if cnt is not None:
                return None
            digits += x
        elif x.isspace():
            continue
        else:
            if cnt is not None:
                c = cnt
            elif digits:
                c = Lin.const(int(digits))
            else:
                c = Lin.const(1)
            out.append((c, x))
            cnt, digits = None, ''
    if cnt is not None or digits:
        return None
    return order, out


_SIZES = {'x': 1, 'c': 1, 'b': 1, 'B': 1, '?': 1, 'h': 2, 'H': 2, 'i': 4, 'I': 4, 'l': 4, 'L': 4, 'q': 8, 'Q': 8,
          'e': 2, 'f': 4, 'd': 8, 's': 1, 'p': 1}
_RANGES = {'b': (-128, 127), 'B': (0, 255), 'h': (-2 ** 15, 2 ** 15 - 1), 'H': (0, 2 ** 16 - 1),
           'i': (-2 ** 31, 2 ** 31 - 1), 'I': (0, 2 ** 32 - 1), 'l': (-2 ** 31, 2 ** 31 - 1), 'L': (0, 2 ** 32 - 1),
           'q': (-2 ** 63, 2 ** 63 - 1), 'Q': (0, 2 ** 64 - 1)}


def e_struct_unpack(it, args, kwargs, node):
    fmt, data = it.resolve(args[0]), it.resolve(args[1])
    wire = 'wire' in value_tags(data)
    if not (isinstance(fmt, SeqV) and fmt.kind == 'str' and isinstance(data, SeqV)):
        it.note_unknown(node, 'struct.unpack arguments')
        it.may_raise(_struct.error, node, 'struct.unpack', wire=wire)
        return UnkV('unpack')
    p = _parse_struct_fmt(it, fmt)
    if p is None or p[0] == '@':
        if p is None:
            it.note_unknown(node, f'struct format {fmt!r}')
            it.may_raise(_struct.error, node, 'struct.unpack', wire=wire)
            return UnkV('unpack')
    order, items = p
    # a negative symbolic count renders as '-n' which is an invalid format
    total = Lin.const(0)
    for c, code in items:
        if isinstance(c, Num):
            val = c.val
            if val is None or not it.store.prove_ge0(val):
                if val is not None and it.store.decide_ge0(val) is None:
                    # fork: negative count -> struct.error for certain
                    if not it.decide_ge0(val):
                        it.event('op-may-raise', node, exc=_struct.error, op='struct.unpack (negative count)', wire=wire)
                        raise Raised(ExcV(_struct.error, [], node=node, stack=it.stack,
                                          op='struct.unpack with negative repeat count', definite=True))
                elif val is None or it.store.decide_ge0(val) is False:
                    it.event('op-may-raise', node, exc=_struct.error, op='struct.unpack (negative count)', wire=wire)
                    raise Raised(ExcV(_struct.error, [], node=node, stack=it.stack,
                                      op='struct.unpack with negative repeat count', definite=True))
            cl = val
        else:
            cl = c
        if code not in _SIZES:
            it.note_unknown(node, f'struct code {code}')
            return UnkV('unpack')
        total = total + cl.scale(_SIZES[code])
    need = it.store.decide_eq0(data.length() - total)
    if need is not True:
        it.may_raise(_struct.error, node, f'struct.unpack({fmt!r}) needs {total} bytes, has {data.length()}', wire=wire)
        it.store.assume_eq0(data.length() - total)
    else:
        it.op_safe(node, 'struct.unpack', f'len(buffer) == calcsize == {it.store.canon(total)}')
    out = []
    off = Lin.const(0)
    for c, code in items:
        cl = c.val if isinstance(c, Num) else c
        if code == 's':
            out.append(seqops.sub_seq(it, data, off, off + cl))
            off = off + cl
        elif code == 'x':
            off = off + cl
        else:
            cc = it.store.canon(cl)
            if not cc.is_const():
                it.note_unknown(node, 'symbolic repeat of numeric struct code')
                return UnkV('unpack')
            for _ in range(cc.c):
                sz = _SIZES[code]
                piece = seqops.sub_seq(it, data, off, off + sz)
                off = off + sz
                if code in _RANGES:
                    # the same bytes unpacked with the same code give the same number (functional consistency)
                    memo = it.__dict__.setdefault('_pure_memo', {})
                    mk = ('unpack', order + code, it._seq_key(piece))
                    s = memo.get(mk)
                    if s is None:
                        s = it.fresh('u')
                        lo, hi = _RANGES[code]
                        it.store.declare(s, lo, hi, info=f'unpack {order}{code} of {piece!r}')
                        it.origin[s] = ('unpack', order + code, piece)
                        memo[mk] = s
                    out.append(IntV(Lin.sym(s), value_tags(data) | ({'wire-int'} if wire else set())))
                else:
                    out.append(SymV(it.fresh('unpacked'), 'any', origin=('unpack', order + code, piece)))
    return TupleV(out)


def e_struct_pack(it, args, kwargs, node):
    fmt = it.resolve(args[0])
    if not (isinstance(fmt, SeqV) and fmt.is_lit()):
        it.note_unknown(node, 'struct.pack with symbolic format')
        return seqops.opaque_fresh(it, 'bytes', 'pack')
    f = fmt.lit_value()
    try:
        size = _struct.calcsize(f)
    except _struct.error:
        raise Raised(ExcV(_struct.error, [], node=node, stack=it.stack, op='struct.pack', definite=True))
    vals = [it.resolve(a) for a in args[1:]]
    for v in vals:
        if isinstance(v, IntV):
            code = f.lstrip('@=<>!')[:1]
            if code in _RANGES:
                lo, hi = _RANGES[code]
                if not (it.store.prove_ge0(v.lin - lo) and it.store.prove_ge0(Lin.const(hi) - v.lin)):
                    it.may_raise(_struct.error, node, f'struct.pack({f!r}) range', wire=False)
    return seqops.opaque(it, 'bytes', size, ('pack', f, tuple(vals)), deps=tuple(vals))


def e_struct_calcsize(it, args, kwargs, node):
    fmt = it.resolve(args[0])
    if isinstance(fmt, SeqV) and fmt.is_lit():
        return IntV(_struct.calcsize(fmt.lit_value()))
    return it._opaque_int('calcsize', node, nonneg=True)


def e_hexlify(it, args, kwargs, node):
    v = it.resolve(args[0])
    if isinstance(v, SeqV):
        if v.is_lit() and v.kind == 'bytes':
            return lit(binascii.hexlify(v.lit_value()))
        return seqops.opaque(it, 'bytes', v.length().scale(2), ('hexlify', v), deps=(v,), tags=value_tags(v))
    return seqops.opaque_fresh(it, 'bytes', 'hexlify', deps=(v,), tags=value_tags(v))


def e_unhexlify(it, args, kwargs, node):
    v = it.resolve(args[0])
    if isinstance(v, SeqV):
        wire = 'wire' in value_tags(v)
        if v.is_lit():
            try:
                return lit(binascii.unhexlify(v.lit_value()))
            except (binascii.Error, ValueError):
                raise Raised(ExcV(binascii.Error, [], node=node, stack=it.stack, op='unhexlify', definite=True))
        if len(v.segs) == 1 and isinstance(v.segs[0], Opq) and isinstance(v.segs[0].desc, tuple) \
                and v.segs[0].desc[0] == 'hexlify':
            it.op_safe(node, 'unhexlify', 'argument is hexlify() output')
            return v.segs[0].desc[1]
        from .calls import _is_hex_seq
        ln = it.store.canon(v.length())
        even = ln.is_const() and ln.c % 2 == 0 or (all(k % 2 == 0 for _, k in ln.t) and ln.c % 2 == 0)
        if _is_hex_seq(it, v) and even:
            it.op_safe(node, 'unhexlify', 'hex digits of even length')
        else:
            it.may_raise(binascii.Error, node, f'unhexlify of {v!r}'[:120], wire=wire)
        if even:
            half = Lin(ln.c // 2, tuple((s, k // 2) for s, k in ln.t))
            return seqops.opaque(it, 'bytes', half, ('unhexlify', v), deps=(v,), tags=value_tags(v))
        return seqops.opaque_fresh(it, 'bytes', 'unhexlify', deps=(v,), tags=value_tags(v))
    if isinstance(v, SymV):
        it.may_raise(binascii.Error, node, f'unhexlify({v!r})', wire='wire' in value_tags(v))
    return seqops.opaque_fresh(it, 'bytes', 'unhexlify', deps=(v,), tags=value_tags(v))


def e_strptime(it, args, kwargs, node):
    v = it.resolve(args[0])
    it.may_raise(ValueError, node, 'strptime', wire='wire' in value_tags(v))
    return SymV(it.fresh('datetime'), 'datetime', origin=('strptime', args), tags=value_tags(v))


def e_datetime_ctor(it, args, kwargs, node):
    """datetime.datetime(year, month, day, ...): the components are kept for the rules"""
    it.may_raise(ValueError, node, 'datetime()', wire=any('wire' in value_tags(a) for a in args))
    tags = frozenset().union(*[value_tags(a) for a in args]) if args else frozenset()
    return SymV(it.fresh('datetime'), 'datetime', origin=('datetime-ctor', list(args), dict(kwargs)), tags=tags)


def e_dict_fromkeys(it, args, kwargs, node):
    """dict.fromkeys(keys, value): every key of `keys` mapped to the same value"""
    keys = it.resolve(args[0]) if args else None
    val = args[1] if len(args) > 1 else ConstV(None)
    if isinstance(keys, (ListV, TupleV)) and getattr(keys, 'items', None) is not None:
        ks = [it.py_key(k) for k in keys.items]
        if None not in ks:
            return DictV(items={k: val for k in ks}, desc='fromkeys')
    d = DictV(open_=True, desc='fromkeys')
    d.default = lambda it2, key, n, strict, val=val: val
    d.fromkeys_of = keys
    return d


def e_maketrans(it, args, kwargs, node):
    return SymV(it.fresh('transtable'), 'ext', origin=('maketrans', list(args)))


def e_partial(it, args, kwargs, node):
    if not args:
        return UnkV('partial')
    return PartialV('partial', args[0], args[1:], kwargs)


def e_methodcaller(it, args, kwargs, node):
    return PartialV('methodcaller', args[0], args[1:], kwargs) if args else UnkV('methodcaller')


def e_itemgetter(it, args, kwargs, node):
    return PartialV('itemgetter', None, args, {})


def e_attrgetter(it, args, kwargs, node):
    return PartialV('attrgetter', None, args, {})


def e_accumulate(it, args, kwargs, node):
    if len(args) == 1 and set(kwargs) <= {'initial'}:
        init = kwargs.get('initial')
        has = not (init is None or (isinstance(it.resolve(init), ConstV) and it.resolve(init).value is None))
        return it.call_function(it.an.prog.synthetic('accumulate_add'),
                                [args[0], init if has else IntV(0), ConstV(has)], {}, node=node)
    it.note_unknown(node, 'itertools.accumulate with a function')
    return UnkV('accumulate')


def e_chain(it, args, kwargs, node):
    return it.call_function(it.an.prog.synthetic('chain_n'), list(args), {}, node=node)


def e_chain_from_iterable(it, args, kwargs, node):
    return it.call_function(it.an.prog.synthetic('chain_from_iterable'), list(args), {}, node=node)


def _syn(name, nargs=None, fill=None):
    def f(it, args, kwargs, node):
        a = list(args)
        if fill is not None:
            a = a + list(fill[len(a) - (nargs - len(fill)):]) if len(a) < nargs else a
        if (nargs is not None and len(a) != nargs) or kwargs:
            it.note_unknown(node, f'{name} arguments')
            return IterV(UnkV(name), desc=name)
        return it.call_function(it.an.prog.synthetic(name), a, {}, node=node)
    return f


def e_repeat(it, args, kwargs, node):
    if len(args) == 1 and not kwargs:
        return it.call_function(it.an.prog.synthetic('repeat1'), list(args), {}, node=node)
    if len(args) == 2 or 'times' in kwargs:
        return it.call_function(it.an.prog.synthetic('repeat2'), [args[0], args[1] if len(args) > 1 else kwargs['times']], {}, node=node)
    return IterV(UnkV('repeat'), desc='repeat')


def e_count(it, args, kwargs, node):
    start = args[0] if args else kwargs.get('start', IntV(0))
    step = args[1] if len(args) > 1 else kwargs.get('step', IntV(1))
    return it.call_function(it.an.prog.synthetic('count2'), [start, step], {}, node=node)


def e_tee(it, args, kwargs, node):
    """tee(iterable, n): n independent iterators over the same items - modelled by draining the iterable once"""
    n = it.py_key(args[1]) if len(args) > 1 else 2
    src = it.resolve(args[0])
    if isinstance(src, GenCallV):
        src = it.drain_generator(src, node)
    if not isinstance(n, int) or not isinstance(src, (ListV, TupleV, SeqV)):
        it.note_unknown(node, 'itertools.tee of an iterator that cannot be replayed')
        return TupleV([IterV(UnkV('tee'), desc='tee')] * (n if isinstance(n, int) else 2))
    return TupleV([src] * n)


def e_islice(it, args, kwargs, node):
    if len(args) == 3 and not kwargs:
        return it.call_function(it.an.prog.synthetic('islice3'), list(args), {}, node=node)
    if len(args) == 2 and not kwargs:
        return it.call_function(it.an.prog.synthetic('islice_stop'), list(args), {}, node=node)
    it.note_unknown(node, 'itertools.islice with start / step')
    return IterV(UnkV('islice'), desc='islice')


def e_compress(it, args, kwargs, node):
    if len(args) == 2:
        return it.call_function(it.an.prog.synthetic('compress2'), list(args), {}, node=node)
    return UnkV('compress')


def e_exitstack(it, args, kwargs, node):
    return it.instantiate(it.an.prog.synthetic('ExitStack'), [], {}, node)


def e_contextmanager(it, args, kwargs, node):
    return args[0] if args else UnkV('contextmanager')


def e_reduce(it, args, kwargs, node):
    if len(args) == 3 and not kwargs:
        return it.call_function(it.an.prog.synthetic('reduce3'), list(args), {}, node=node)
    it.note_unknown(node, 'functools.reduce without an initial value')
    return UnkV('reduce')


def _operator(name):
    def f(it, args, kwargs, node):
        return it.call_function(it.an.prog.synthetic(name), list(args), {}, node=node)
    return f


def e_fromisoformat(it, args, kwargs, node):
    v = it.resolve(args[0])
    it.may_raise(ValueError, node, 'fromisoformat', wire='wire' in value_tags(v))
    return SymV(it.fresh('datetime'), 'datetime', origin=('fromisoformat', args), tags=value_tags(v))


def e_dateutil_parse(it, args, kwargs, node):
    v = it.resolve(args[0])
    it.may_raise(ValueError, node, 'dateutil.parser.parse', wire='wire' in value_tags(v))
    # ... and OverflowError (which is not a ValueError) for a numeral that does not fit a C long, e.g. '-49636272630'
    it.may_raise(OverflowError, node, 'dateutil.parser.parse (numeral out of range)', wire='wire' in value_tags(v))
    return SymV(it.fresh('datetime'), 'datetime', origin=('dateutil', args), tags=value_tags(v))


def e_decimal(it, args, kwargs, node):
    import decimal
    v = it.resolve(args[0]) if args else IntV(0)
    if isinstance(v, SeqV):
        from .calls import _is_digit_seq
        if not _is_digit_seq(it, v):
            it.may_raise(decimal.InvalidOperation, node, f'Decimal({v!r})'[:100], wire='wire' in value_tags(v))
    elif isinstance(v, (SymV, UnkV)):
        it.may_raise(decimal.InvalidOperation, node, f'Decimal({v!r})', wire='wire' in value_tags(v))
    return SymV(it.fresh('decimal'), 'decimal', origin=('Decimal', v), tags=value_tags(v))


def e_re_match(it, args, kwargs, node):
    pat = it.resolve(args[0])
    subj = it.resolve(args[1]) if len(args) > 1 else None
    if isinstance(pat, SeqV) and pat.is_lit():
        import re
        try:
            re.compile(pat.lit_value())
        except re.error:
            raise Raised(ExcV(re.error, [], node=node, stack=it.stack, op='re.match', definite=True))
    m = SymV(it.fresh('match'), 'match', origin=('re.match', pat, subj), tags=value_tags(subj) if subj else frozenset())
    return m


def materialise(it, x):
    """a python literal structure as closed abstract containers of constants (used when a function of the packaged
    configuration is folded entry by entry instead of being analysed for a generic entry)"""
    if isinstance(x, dict):
        d = DictV(items={k: materialise(it, v) for k, v in x.items()}, desc='copied literal')
        d.exact_ok = True
        return d
    if isinstance(x, (list, tuple)):
        r = ListV(items=[materialise(it, v) for v in x], desc='copied literal')
        r.exact_ok = True
        return r
    return it.from_py(x)


def e_deepcopy(it, args, kwargs, node):
    v = it.resolve(args[0])
    if isinstance(v, PyLit) and it.an.hooks.get('concrete_deepcopy'):
        return materialise(it, v.value)
    if isinstance(v, PyLit):
        p = PyLit(v.value, v.path + '(copy)', tags=frozenset(t for t in v.tags if t != 'global') | {'copy'})
        d = MutCopy(p)
        return d
    if isinstance(v, DictV):
        d = DictV(items=dict(v.items), default=v.default, open_=v.open, desc='deepcopy')
        return d
    if isinstance(v, (ConstV, IntV)) or isinstance(v, SeqV):
        return v          # immutable values: the copy is the value
    it.event('deepcopy', node, value=v)
    return SymV(it.fresh('copy'), 'any', origin=('deepcopy', v))


class MutCopy(DictV):
    """A private deep copy of a literal structure: lookups are served lazily from the literal, mutations are
    recorded as events and stay local."""
    def __init__(self, pylit):
        super().__init__(desc=f'deepcopy({pylit.path})')
        self.base = pylit
        self.children = {}
        self.deleted = []

        def default(it, key, node, strict):
            k = it.py_key(key)
            val = self.base.value
            if k is not None and isinstance(val, dict) and k in val:
                x = val[k]
                if isinstance(x, (dict, list)):
                    if k not in self.children:
                        self.children[k] = MutCopy(PyLit(x, f'{self.base.path}[{k!r}]', self.base.tags))
                    return self.children[k]
                return it.from_py(x)
            if k is not None:
                if strict:
                    raise Raised(ExcV(KeyError, [], node=node, stack=it.stack, op=f'key {k!r}', definite=True))
                return ConstV(None)
            # symbolic key: generic child
            gk = ('generic', repr(key))
            if gk not in self.children:
                self.children[gk] = GenericChild(self, key)
            return self.children[gk]
        self.default = default


class GenericChild(DictV):
    """Generic element of a copied literal dict-of-dicts."""
    def __init__(self, parent, key):
        super().__init__(desc=f'element of {parent.desc}', open_=True)
        self.parent_copy = parent
        self.key = key

        def default(it, k, node, strict):
            name = it.py_key(k)
            vals = set()
            missing = False
            for ent in parent.base.value.values():
                if isinstance(ent, dict):
                    if name in ent:
                        try:
                            vals.add(ent[name])
                        except TypeError:
                            pass
                    else:
                        missing = True
            choices = tuple(sorted(vals, key=repr)) + ((None,) if missing else ())
            return SymV(it.fresh(f'elem.{name}'), 'any', choices=choices if len(choices) <= 12 else None)
        self.default = default


def e_bytesio(it, args, kwargs, node):
    f = FileV(it.fresh('bytesio'))
    if args:
        data = it.resolve(args[0])
        if isinstance(data, SeqV):
            f.initial = data
            if len(data.segs) == 1 and isinstance(data.segs[0], Sl) and it.store.canon(data.segs[0].lo) == Lin.const(0) \
                    and it.store.canon(data.segs[0].hi) == it.store.canon(data.segs[0].src.length):
                f.src = data.segs[0].src
            else:
                src = seqops.Source(f'content({f.name})', 'bytes', data.length(), value_tags(data))
                f.src = src
    it.all_files.append(f)
    it.event('open', node, file=f, args=args, kwargs=kwargs)
    return f


def e_randbits(it, args, kwargs, node):
    n = it.py_key(args[0])
    s = it.fresh('rand')
    it.store.declare(s, 0, (1 << n) - 1 if isinstance(n, int) else None, info='secrets.randbits')
    it.origin[s] = ('secrets.randbits', n)
    return IntV(Lin.sym(s), frozenset(['secrets']))


def e_random_generic(name):
    def f(it, args, kwargs, node):
        s = it.fresh('rand')
        it.store.declare(s, 0, None, info=name)
        it.origin[s] = (name, args)
        return IntV(Lin.sym(s), frozenset(['weak-random']))
    return f


def e_int_from_bytes(it, args, kwargs, node):
    v = it.resolve(args[0])
    order = it.py_key(args[1] if len(args) > 1 else kwargs.get('byteorder'))
    signed = kwargs.get('signed')
    memo = it.__dict__.setdefault('_pure_memo', {})
    mk = ('from_bytes', it._seq_key(v), order, repr(signed)) if isinstance(v, SeqV) else None
    if mk is not None and mk in memo:
        return IntV(Lin.sym(memo[mk]), value_tags(v))
    s = it.fresh('t')
    hi = None
    if isinstance(v, SeqV):
        ln = it.store.canon(v.length())
        if ln.is_const() and ln.c <= 64:
            hi = 256 ** ln.c - 1
    it.store.declare(s, 0, hi, info=f'int.from_bytes({v!r})')
    it.origin[s] = ('from_bytes', v, order)
    if mk is not None:
        memo[mk] = s
    return IntV(Lin.sym(s), value_tags(v))


def e_array(it, args, kwargs, node):
    v = it.resolve(args[1]) if len(args) > 1 else None
    if isinstance(v, SeqV):
        elem, ln = it.iter_element(v, node)
        lv = ListV(items=None, elem=elem, length=ln, desc='array')
        lv.src = v
        return lv
    return ListV(items=[], desc='array')


def e_cycle(it, args, kwargs, node):
    e, _ = it.iter_element(it.resolve(args[0]), node)
    return IterV(e, src=args[0], desc='cycle')


def e_hexdump(it, args, kwargs, node):
    return seqops.opaque_fresh(it, 'str', 'hexdump')


def e_sys_version(it, args, kwargs, node):
    return TupleV([IntV(3), IntV(11)])


def e_isfile(it, args, kwargs, node):
    return SymV(it.fresh('isfile'), 'bool')



class NamedTupleClass(AVal):
    def __init__(self, name, fields):
        self.name = name
        self.fields = list(fields)

    def __repr__(self):
        return f'<namedtuple {self.name}>'


def e_namedtuple(it, args, kwargs, node):
    name = it.py_key(args[0]) if args else 'nt'
    f = it.resolve(args[1]) if len(args) > 1 else kwargs.get('field_names')
    fields = None
    if isinstance(f, SeqV) and f.is_lit():
        fields = f.lit_value().replace(',', ' ').split()
    elif isinstance(f, (ListV, TupleV)) and getattr(f, 'items', None) is not None:
        fields = [it.py_key(x) for x in f.items]
    if not fields or None in fields:
        it.note_unknown(node, 'namedtuple with non-constant fields')
        return UnkV('namedtuple')
    return NamedTupleClass(name, fields)


class ParserV(AVal):
    """argparse.ArgumentParser (kind 'parser'), an argument group of one ('group', shares the parser's lists) or the object
    returned by add_subparsers ('subparsers').  Only the definitions are recorded; `namespace()` turns them into what
    parse_args() hands over for every way of giving or leaving out each option."""
    def __init__(self, root=None, kind='parser'):
        self.kind = kind
        self.root = root if root is not None else self
        if root is None:
            self.specs = []        # [(flags: [str], kwargs: {name: AVal}, node)]
            self.defaults = {}     # set_defaults
            self.subs = {}         # sub-command name -> ParserV
            self.unknown = []      # definitions that could not be read

    def __repr__(self):
        return f'<argparse {self.kind}>'


class NamespaceV(AVal):
    def __init__(self, parser):
        self.parser = parser
        self.dict = None

    def __repr__(self):
        return '<argparse namespace>'


def e_argparser(it, args, kwargs, node):
    p = ParserV()
    parents = it.resolve(kwargs['parents']) if 'parents' in kwargs else None
    if parents is not None:
        items = getattr(parents, 'items', None)
        if items is None or not all(isinstance(it.resolve(x), ParserV) for x in items):
            p.unknown.append('parents= is not a list of parsers')
        else:
            for x in items:
                x = it.resolve(x).root
                p.specs += x.specs
                p.defaults.update(x.defaults)
                p.unknown += x.unknown
    return p


def parser_method(it, recv, name, args, kwargs, node):
    root = recv.root
    if name == 'add_argument':
        flags = [it.py_key(it.resolve(a)) for a in args]
        if not flags or not all(isinstance(f, str) for f in flags) or '**' in kwargs:
            root.unknown.append('add_argument with computed option strings')
        else:
            root.specs.append((flags, {k: it.resolve(v) for k, v in kwargs.items()}, node))
        return ConstV(None)
    if name in ('add_argument_group', 'add_mutually_exclusive_group'):
        return ParserV(root=root, kind='group')
    if name == 'add_subparsers':
        sp = ParserV(root=root, kind='subparsers')
        if 'dest' in kwargs:
            root.sub_dest = it.py_key(it.resolve(kwargs['dest']))
        return sp
    if name == 'add_parser' and recv.kind == 'subparsers':
        sub = e_argparser(it, [], kwargs, node)
        nm = it.py_key(it.resolve(args[0])) if args else None
        if not isinstance(nm, str):
            root.unknown.append('sub-command with a computed name')
        else:
            root.subs[nm] = sub
        return sub
    if name == 'set_defaults':
        root.defaults.update({k: it.resolve(v) for k, v in kwargs.items() if k != '**'})
        if '**' in kwargs:
            root.unknown.append('set_defaults(**computed)')
        return ConstV(None)
    if name in ('parse_args', 'parse_known_args'):
        ns = NamespaceV(root)
        return ns if name == 'parse_args' else TupleV([ns, ListV(items=[])])
    if name in ('print_help', 'print_usage', 'format_help', 'format_usage', 'error', 'exit'):
        return UnkV(name)
    root.unknown.append(f'parser.{name}()')
    return UnkV(name)


def parser_namespace(it, parser):
    """{dest: value} as parse_args() delivers it, forking over: the sub-command, every option given / left out.
    What was decided is recorded in it.user['argv']: {option string: {'given', 'value', 'dest'}} (+ 'command')."""
    root = parser.root
    info = it.user.setdefault('argv', {})
    specs, defaults, unknown = list(root.specs), dict(root.defaults), list(root.unknown)
    if root.subs:
        names = sorted(root.subs)
        c = it.choose(len(names), 'sub-command ' + ' / '.join(names)) or 0
        sub = root.subs[names[c]].root
        info['command'] = names[c]
        specs += sub.specs
        defaults.update(sub.defaults)
        unknown += sub.unknown
        if getattr(root, 'sub_dest', None):
            defaults[root.sub_dest] = lit(names[c])
    for u in unknown:
        it.note_unknown(None, f'argparse definition not followed: {u}')
    ns = dict(defaults)
    for flags, kw, node in specs:
        action = it.py_key(kw['action']) if 'action' in kw and not isinstance(kw['action'], ExtV) else ('store' if 'action' not in kw else kw['action'].name)
        if action in ('version', 'help'):
            continue
        positional = not flags[0].startswith('-')
        if 'dest' in kw:
            dest = it.py_key(kw['dest'])
        elif positional:
            dest = flags[0]
        else:
            longs = [f for f in flags if f.startswith('--')]
            dest = (longs[0] if longs else flags[0]).lstrip('-').replace('-', '_')
        if not isinstance(dest, str):
            it.note_unknown(node, 'argparse dest is not a constant')
            continue
        nargs = it.py_key(kw['nargs']) if 'nargs' in kw else None
        label = flags[-1]
        rec = {'dest': dest, 'flags': flags, 'node': node}

        def not_given(default):
            if dest in defaults:
                return defaults[dest]
            return kw['default'] if 'default' in kw else default
        if action == 'store':
            optional = not positional or nargs in ('?', '*')
            given = True if not optional else it.choose(2, f'{label} given / not given') in (0, None)
            if nargs not in (None, '?'):
                val = UnkV(f'argv:{dest}') if given else not_given(ConstV(None))
                if given:
                    it.note_unknown(node, f'argparse nargs={nargs!r}')
            elif given:
                ty = kw.get('type')
                ch = kw.get('choices')
                ch_items = None
                if ch is not None:
                    k = it.py_key(ch)
                    if not isinstance(k, (list, tuple)) and getattr(ch, 'items', None) is not None and not isinstance(ch, DictV):
                        k = [it.py_key(it.resolve(x)) for x in ch.items]
                    if isinstance(k, (list, tuple)) and all(isinstance(x, str) for x in k):
                        ch_items = tuple(k)
                if ch_items:
                    val = SymV(it.fresh(dest), 'str', choices=ch_items)
                elif ty is None or (isinstance(ty, ExtV) and ty.name in ('str', 'builtins.str')):
                    val = it.sym_str(dest, lo=1)       # an option given with a non-empty value
                elif isinstance(ty, ExtV) and ty.name in ('int', 'builtins.int'):
                    val = it.sym_int(dest, None, None)
                else:
                    val = UnkV(f'argv:{dest}')
                    it.note_unknown(node, f'argparse type={ty!r}')
            else:
                val = not_given(ConstV(None))
        elif action in ('store_true', 'store_false'):
            given = it.choose(2, f'{label} given / not given') in (0, None)
            val = ConstV(action == 'store_true') if given else not_given(ConstV(action != 'store_true'))
        elif isinstance(kw.get('action'), ExtV) and kw['action'].name.endswith('BooleanOptionalAction'):
            # --flag / --no-flag: True, False, or (left out) the default - None unless one is declared
            c = it.choose(3, f'{label} given / --no- form given / not given') or 0
            given = c == 0
            val = ConstV(c == 0) if c in (0, 1) else not_given(ConstV(None))
            for f in list(flags):
                if f.startswith('--'):
                    info['--no-' + f[2:]] = {'dest': dest, 'flags': flags, 'node': node, 'given': c == 1, 'value': val}
        elif action == 'store_const':
            given = it.choose(2, f'{label} given / not given') in (0, None)
            val = kw.get('const', ConstV(None)) if given else not_given(ConstV(None))
        else:
            given = None
            val = UnkV(f'argv:{dest}')
            it.note_unknown(node, f'argparse action={action!r}')
        if given is False and dest in ns and any(r.get('dest') == dest and r.get('given') for r in info.values() if isinstance(r, dict)):
            pass          # another option string with the same dest was given: its value stands
        else:
            ns[dest] = val
        rec.update(given=given, value=val)
        for f in flags:
            info[f] = rec
    d = DictV(items=dict(ns), desc='vars(parse_args())')
    return d


class StructV(AVal):
    def __init__(self, fmt):
        self.fmt = fmt

    def __repr__(self):
        return f'<struct.Struct {self.fmt!r}>'


def e_struct_unpack_from(it, args, kwargs, node):
    # struct.unpack_from(format, buffer, offset=0): the method of the compiled format
    fmt = it.resolve(args[0]) if args else None
    if not (isinstance(fmt, SeqV) and fmt.is_lit()) or len(args) < 2:
        it.note_unknown(node, 'struct.unpack_from with non-constant format')
        return UnkV('unpack_from')
    return it.call_method(StructV(fmt), 'unpack_from', list(args[1:]), dict(kwargs), node)


def e_struct_struct(it, args, kwargs, node):
    fmt = it.resolve(args[0]) if args else None
    if not (isinstance(fmt, SeqV) and fmt.is_lit()):
        it.note_unknown(node, 'struct.Struct with non-constant format')
        return UnkV('Struct')
    return StructV(fmt)


EXT = {
    'collections.namedtuple': e_namedtuple, 'struct.Struct': e_struct_struct, 'argparse.ArgumentParser': e_argparser,
    'logging.getLogger': e_getlogger,
    'struct.unpack': e_struct_unpack, 'struct.unpack_from': e_struct_unpack_from, 'struct.pack': e_struct_pack, 'struct.calcsize': e_struct_calcsize,
    'binascii.hexlify': e_hexlify, 'binascii.b2a_hex': e_hexlify,
    'binascii.unhexlify': e_unhexlify, 'binascii.a2b_hex': e_unhexlify,
    'str.maketrans': e_maketrans, 'bytes.maketrans': e_maketrans, 'dict.fromkeys': e_dict_fromkeys, 'functools.partial': e_partial, 'operator.methodcaller': e_methodcaller, 'operator.itemgetter': e_itemgetter,
    'operator.attrgetter': e_attrgetter, 'itertools.compress': e_compress, 'itertools.chain': e_chain, 'itertools.chain.from_iterable': e_chain_from_iterable,
    'itertools.islice': e_islice, 'itertools.takewhile': _syn('takewhile2', 2), 'itertools.dropwhile': _syn('dropwhile2', 2),
    'itertools.repeat': e_repeat, 'itertools.count': e_count, 'itertools.starmap': _syn('starmap2', 2), 'itertools.tee': e_tee, 'itertools.accumulate': e_accumulate,
    'contextlib.ExitStack': e_exitstack, 'contextlib.contextmanager': e_contextmanager,
    'functools.reduce': e_reduce, 'operator.xor': _operator('op_xor'), 'operator.add': _operator('op_add'),
    'operator.or_': _operator('op_or'), 'operator.and_': _operator('op_and'),
    'datetime.datetime': e_datetime_ctor, 'datetime.datetime.strptime': e_strptime, 'datetime.datetime.fromisoformat': e_fromisoformat,
    'dateutil.parser.parse': e_dateutil_parse,
    'decimal.Decimal': e_decimal, 're.match': e_re_match, 're.search': e_re_match, 're.fullmatch': e_re_match,
    'copy.deepcopy': e_deepcopy, 'io.BytesIO': e_bytesio,
    'secrets.randbits': e_randbits, 'random.getrandbits': e_random_generic('random.getrandbits'),
    'random.randint': e_random_generic('random.randint'), 'random.randrange': e_random_generic('random.randrange'),
    'int.from_bytes': e_int_from_bytes, 'array.array': e_array, 'itertools.cycle': e_cycle,
    'cardutil.vendor.hexdump.hexdump': e_hexdump, 'cardutil.vendor.hexdump.hexdump.hexdump': e_hexdump,
    'os.path.isfile': e_isfile,
}
