"""Compositional analysis: a Unit is a package function analysed on its own with generic arguments; callers use
its summary (normal return with a generic result, or one of the exceptions that may escape it)."""
from __future__ import annotations

from .avals import *   # noqa
from .avals import value_tags
from .decide import Runs
from .signals import Raised
from .report import Failure, find_witness


def exc_key(cls):
    return cls.qualname if hasattr(cls, 'qualname') else f'{cls.__module__}.{cls.__name__}'


def exc_name(cls):
    return cls.name if hasattr(cls, 'qualname') else cls.__name__


class Unit:
    def __init__(self, prog, qualname, make_args, make_ret, arg_ok=None, summaries=None, hooks=None, res=None,
                 raise_ops=True, ret_facts=None):
        self.prog = prog
        self.fi = prog.func(qualname)
        self.name = self.fi.short
        self.make_args = make_args      # it -> (args, kwargs, self_obj)
        self.make_ret = make_ret        # (it, args, kwargs, facts) -> AVal
        self.arg_ok = arg_ok            # (it, args, kwargs) -> bool : do the actual arguments fit the generic ones?
        self.ret_facts_fn = ret_facts
        self._facts = None

        def entry(it):
            args, kwargs, self_obj = make_args(it)
            it.user['unit_args'] = (args, kwargs, self_obj)
            return it.call_function(self.fi, args, kwargs, self_obj=self_obj)
        self.runs = Runs(prog, entry, raise_ops=raise_ops, summaries=summaries, hooks=hooks, res=res,
                         label=self.name)

    # ------------------------------------------------------------------
    def escapes(self, mode='inv'):
        """{exc key: [paths]} of exceptions leaving the unit."""
        cache = self.__dict__.setdefault('_esc', {})
        if mode in cache:
            return cache[mode]
        out = {}
        for p in (self.runs.inv if mode == 'inv' else self.runs.unr):
            if p.outcome == 'raise':
                out.setdefault(exc_key(p.value.cls), []).append(p)
        cache[mode] = out
        return out

    def facts(self):
        if self._facts is None:
            self._facts = self.ret_facts_fn(self) if self.ret_facts_fn else {}
        return self._facts

    def blocked(self):
        """Reasons why the inductive run of the unit is not a proof basis."""
        out = []
        for p in self.runs.inv:
            if p.outcome == 'abandon':
                out.append(f'{self.name}: path abandoned: {p.value}')
            if p.tainted:
                out.append(f'{self.name}: decision depends on unknown value {p.tainted[0]}')
            for u in p.unknowns:
                out.append(f'{self.name}: construct outside the interpreted fragment: {u[0]}')
        if self.runs.inv and not any(p.outcome == 'return' for p in self.runs.inv):
            out.append(f'{self.name}: no abstract path of the unit returns (its exits were not explored)')
        return sorted(set(out))

    def summary(self):
        unit = self

        def apply(it, fi, args, kwargs, node, self_obj):
            if unit.arg_ok is not None and not unit.arg_ok(it, args, kwargs):
                # arguments do not fit the generic ones: analyse inline
                saved = it.an.summaries
                it.an.summaries = {k: v for k, v in saved.items() if k != fi.short}
                try:
                    return it.call_function(fi, args, kwargs, self_obj=self_obj, node=node)
                finally:
                    it.an.summaries = saved
            esc = unit.escapes()
            # one variant per exception class and per set of context fields the exception carries
            variants = []
            for k in sorted(esc):
                seen_shapes = set()
                for p0 in esc[k]:
                    ev = p0.value
                    shape = tuple(sorted(n for n, x in ev.fields.items() if not (isinstance(x, ConstV) and x.value is None)))
                    if shape not in seen_shapes:
                        seen_shapes.add(shape)
                        variants.append((k, ev))
            it.event('unit-call', node, unit=unit.name, args=args, kwargs=kwargs)
            c = it.choose(1 + len(variants), f'summary of {unit.name}')
            if c in (0, None):
                r = unit.make_ret(it, args, kwargs, unit.facts())
                it.event('unit-ret', node, unit=unit.name, value=r)
                return r
            keys = [v[0] for v in variants]
            sample = variants[c - 1][1]
            exc = ExcV(sample.cls, sample.args, sample.kwargs, node=sample.node, stack=it.stack + tuple(sample.stack),
                       op=sample.op, definite=sample.definite)
            exc.fields = dict(sample.fields)
            exc.unit = unit
            exc.unit_key = keys[c - 1]
            exc.call_args = (args, kwargs)
            raise Raised(exc)
        return apply

    def refute_escape(self, key):
        """Concrete witness that exception `key` really leaves the unit (unrolled run)."""
        for p in self.escapes('unroll').get(key, []):
            if p.tainted or p.unknowns:
                continue
            exc = p.value
            if getattr(exc, 'unit', None) is not None:
                sub = exc.unit.refute_escape(exc.unit_key)
                if sub is None:
                    continue
                w = find_witness(p, Failure('escape', neg=[[]]))
                if w is not None:
                    return {'path': p, 'witness': w, 'inner': sub, 'exc': exc}
                continue
            if not exc.definite:
                continue
            w = find_witness(p, Failure('escape', neg=[[]]))
            if w is not None:
                return {'path': p, 'witness': w, 'inner': None, 'exc': exc}
        return None


def describe_exc(prog, exc):
    where = prog.loc(exc.node) if exc.node is not None else '?'
    chain = ' -> '.join(exc.stack) if exc.stack else '?'
    op = f' raised by {exc.op}' if exc.op else ''
    return f'{exc_name(exc.cls)}{op} at {where} via {chain}'
