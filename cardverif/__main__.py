"""CLI: python3 -m cardverif check <ID> --tier quick|thorough | replay <path> | all"""
from __future__ import annotations

import argparse
import importlib
import json
import os
import sys
import time
import traceback

from .model import Program, AnalysisError
from .report import Result, finish, VERIF

PROPS = ['C%02d' % i for i in range(1, 21)]


def run_check(prop, tier, repo=None):
    t0 = time.time()
    seed = int(os.environ.get('VERIF_SEED', '0') or 0)
    try:
        mod = importlib.import_module(f'.rules.{prop.lower()}', __package__)
    except ModuleNotFoundError:
        print(f'ANALYSIS-ERROR property={prop}: no rule set')
        return 2
    except Exception:
        traceback.print_exc()
        print(f'ANALYSIS-ERROR property={prop}: the checker itself failed to load')
        return 2
    if tier == 'thorough':
        os.environ['CARDVERIF_DEEP'] = '1'
    try:
        prog = Program(repo)
        res = Result(prop)
        mod.check(prog, res, tier)
        if tier == 'thorough' and not repo:
            from . import selftest
            res.selftest = selftest.run(prop, mod)
        return finish(res, tier, t0, seed)
    except AnalysisError as ex:
        print(f'ANALYSIS-ERROR property={prop}: {ex}')
        return 2
    except Exception:
        traceback.print_exc()
        print(f'ANALYSIS-ERROR property={prop}: internal error in the checker (see traceback)')
        return 2


def main(argv=None):
    ap = argparse.ArgumentParser(prog='cardverif')
    sub = ap.add_subparsers(dest='cmd', required=True)
    c = sub.add_parser('check')
    c.add_argument('prop')
    c.add_argument('--tier', default=os.environ.get('VERIF_TIER', 'quick'), choices=['quick', 'thorough'])
    c.add_argument('--repo', default=None)
    r = sub.add_parser('replay')
    r.add_argument('path')
    a = sub.add_parser('all')
    a.add_argument('--tier', default='quick')
    args = ap.parse_args(argv)
    if args.cmd == 'check':
        return run_check(args.prop.upper(), args.tier, args.repo)
    if args.cmd == 'replay':
        with open(args.path) as f:
            rec = json.load(f)
        prop = rec['property']
        print(f'replaying {rec["obligation"]} of {prop}: {rec["where"]} :: {rec["construct"]}')
        print(f'recorded: {rec["verdict"]} - {rec["detail"]}')
        code = run_check(prop, 'quick')
        return code
    if args.cmd == 'all':
        worst = 0
        for p in PROPS:
            if os.path.exists(os.path.join(VERIF, 'cardverif', 'rules', f'{p.lower()}.py')):
                worst = max(worst, run_check(p, args.tier))
        return worst
    return 2


if __name__ == '__main__':
    sys.exit(main())
