"""Self-test of the checkers (thorough tier): every behaviour-preserving rewrite must leave the check silent (exit 0),
every breaking mutant must be REFUTED by the checks named for it.  Variants live in scratch copies outside /repo and
/verif and are deleted immediately.  A failure here means the *checker* is broken (exit 2), never a VIOLATION."""
from __future__ import annotations

import ast
import os
import shutil
import subprocess
import sys
import tempfile
from concurrent.futures import ThreadPoolExecutor

from . import corpus
from .model import REPO

VERIF = os.path.dirname(os.path.dirname(os.path.abspath(__file__)))


def _apply(tmp, edits):
    for item in edits:
        if item[0] == '@patch':
            r = subprocess.run(['patch', '-p1', '-s', '-f', '-d', tmp, '-i', item[1]], capture_output=True, text=True)
            if r.returncode != 0:
                return f'patch {os.path.basename(os.path.dirname(item[1]))} does not apply any more'
            continue
        rel, old, new = item
        p = os.path.join(tmp, rel)
        if not os.path.exists(p):
            return f'{rel} missing'
        s = open(p).read()
        if s.count(old) != 1:
            return f'pattern occurs {s.count(old)} times in {rel}'
        s = s.replace(old, new)
        try:
            ast.parse(s)
        except SyntaxError as ex:
            return f'variant does not parse: {ex}'
        open(p, 'w').write(s)
    return None


def run_variant(args):
    vid, edits, props = args
    tmp = tempfile.mkdtemp(prefix='cvself_')
    try:
        shutil.copytree(os.path.join(REPO, 'cardutil'), os.path.join(tmp, 'cardutil'), ignore=shutil.ignore_patterns('__pycache__'))
        err = _apply(tmp, edits)
        if err:
            return vid, 'skipped', err, {}
        out = {}
        for prop in props:
            r = subprocess.run([sys.executable, '-m', 'cardverif', 'check', prop, '--repo', tmp], cwd=VERIF, capture_output=True,
                               text=True, env={'CARDVERIF_TIME_BUDGET': '60', **{k: v for k, v in os.environ.items() if k not in ('CARDVERIF_DEEP', 'VERIF_TIER')},
                                                'CARDVERIF_NOEVIDENCE': '1', 'PYTHONDONTWRITEBYTECODE': '1'})
            first = next((l for l in r.stdout.splitlines() if l.startswith(('REFUTED', 'UNDECIDED', 'ANALYSIS-ERROR'))), '')
            out[prop] = (r.returncode, first[:200])
        return vid, 'ran', None, out
    finally:
        shutil.rmtree(tmp, ignore_errors=True)


EXPECT_UNDECIDED = {}
PATCH_MUTANTS = {}      # id -> True when a broken variant may also be reported as undecided (never silent)


def jobs_for(props, all_props):
    jobs = []
    for vid, rel, old, new in corpus.REWRITES:
        edits = [(rel, old, new)] + list(corpus.REWRITE_EXTRA.get(vid, []))
        jobs.append((vid, edits, list(props)))
    rdir = os.path.join(VERIF, 'rewrites')
    if os.path.isdir(rdir):
        for d in sorted(os.listdir(rdir)):
            pf = os.path.join(rdir, d, 'patch.diff')
            if os.path.exists(pf):
                jobs.append((f'rw-patch-{d}', [('@patch', pf)], list(props)))
                ef = os.path.join(rdir, d, 'expect.json')
                if os.path.exists(ef):
                    import json
                    EXPECT_UNDECIDED[f'rw-patch-{d}'] = set(json.load(open(ef)).get('undecided', []))
    mdir = os.path.join(VERIF, 'mutants')
    if os.path.isdir(mdir):
        import json
        for d in sorted(os.listdir(mdir)):
            pf = os.path.join(mdir, d, 'patch.diff')
            ef = os.path.join(mdir, d, 'expect.json')
            if os.path.exists(pf) and os.path.exists(ef):
                ex = json.load(open(ef))
                ps = [p for p in ex.get('props', []) if p in props]
                if ps:
                    jobs.append((f'mu-patch-{d}', [('@patch', pf)], ps))
                    PATCH_MUTANTS[f'mu-patch-{d}'] = bool(ex.get('allow_undecided'))
    for vid, rel, old, new, expect in corpus.MUTANTS:
        ps = [p for p in expect if p in props]
        if ps:
            jobs.append((vid, [(rel, old, new)], ps))
    return jobs


def run(prop, mod=None, workers=None):
    props = [prop] if isinstance(prop, str) else list(prop)
    jobs = jobs_for(props, props)
    workers = workers or min(16, os.cpu_count() or 4)
    with ThreadPoolExecutor(max_workers=workers) as ex:
        results = list(ex.map(run_variant, jobs))
    failures = []
    tally = {'rewrites_run': 0, 'rewrites_silent': 0, 'mutants_run': 0, 'mutants_refuted': 0, 'skipped': 0}
    detail = []
    mut_ids = {m[0] for m in corpus.MUTANTS} | set(PATCH_MUTANTS)
    for vid, status, err, out in results:
        if status == 'skipped':
            tally['skipped'] += 1
            detail.append({'variant': vid, 'status': f'skipped: {err}'})
            continue
        is_mut = vid in mut_ids
        for p, (code, first) in out.items():
            if is_mut:
                tally['mutants_run'] += 1
                if code == 1:
                    tally['mutants_refuted'] += 1
                elif code == 2 and PATCH_MUTANTS.get(vid):
                    tally['mutants_undecided_documented'] = tally.get('mutants_undecided_documented', 0) + 1
                else:
                    failures.append(f'mutant {vid} not refuted by {p} (exit {code}) {first}')
            else:
                tally['rewrites_run'] += 1
                if code == 0:
                    tally['rewrites_silent'] += 1
                elif code == 2 and p in EXPECT_UNDECIDED.get(vid, ()):
                    tally['rewrites_undecided_documented'] = tally.get('rewrites_undecided_documented', 0) + 1
                else:
                    failures.append(f'equivalent rewrite {vid} makes {p} exit {code}: {first}')
            detail.append({'variant': vid, 'property': p, 'exit': code, 'first': first})
    return {'tally': tally, 'failures': failures, 'detail': detail[:80]}


def main():
    from .__main__ import PROPS
    only = sys.argv[1:] or PROPS
    r = run(only)
    print(r['tally'])
    for f in r['failures']:
        print('SELFTEST-FAIL', f)
    for d in r['detail']:
        if str(d.get('status', '')).startswith('skipped'):
            print('SKIPPED', d)
    return 2 if r['failures'] else 0


if __name__ == '__main__':
    sys.exit(main())
