"""Linear integer expressions and the constraint store of one analysis path.

No solver: facts are decided by normalisation, interval arithmetic, bound
propagation and a bounded Fourier-Motzkin style combination of recorded
constraints.  A bounded witness search gives concrete valuations for REFUTED
verdicts.
"""
from __future__ import annotations

import itertools


class Lin:
    """c + sum(coef * sym).  Immutable, hashable, canonical."""
    __slots__ = ('c', 't')

    def __init__(self, c=0, t=()):
        self.c = c
        self.t = t

    @staticmethod
    def const(n):
        return Lin(int(n), ())

    @staticmethod
    def sym(name, coef=1):
        return Lin(0, ((name, coef),)) if coef else Lin(0, ())

    @staticmethod
    def of(x):
        if isinstance(x, Lin):
            return x
        return Lin.const(x)

    def is_const(self):
        return not self.t

    def coefs(self):
        return dict(self.t)

    def syms(self):
        return [s for s, _ in self.t]

    def __add__(self, other):
        other = Lin.of(other)
        d = dict(self.t)
        for s, k in other.t:
            v = d.get(s, 0) + k
            if v:
                d[s] = v
            else:
                d.pop(s, None)
        return Lin(self.c + other.c, tuple(sorted(d.items())))

    __radd__ = __add__

    def __neg__(self):
        return Lin(-self.c, tuple((s, -k) for s, k in self.t))

    def __sub__(self, other):
        return self + (-Lin.of(other))

    def __rsub__(self, other):
        return Lin.of(other) - self

    def scale(self, k):
        if k == 0:
            return Lin.const(0)
        return Lin(self.c * k, tuple((s, c * k) for s, c in self.t))

    def __eq__(self, other):
        return isinstance(other, Lin) and self.c == other.c and self.t == other.t

    def __hash__(self):
        return hash((self.c, self.t))

    def subst(self, mapping):
        """mapping: sym -> Lin | int"""
        out = Lin.const(self.c)
        for s, k in self.t:
            if s in mapping:
                out = out + Lin.of(mapping[s]).scale(k)
            else:
                out = out + Lin.sym(s, k)
        return out

    def eval(self, valuation):
        v = self.c
        for s, k in self.t:
            v += k * valuation[s]
        return v

    def __repr__(self):
        if not self.t:
            return str(self.c)
        parts = []
        for s, k in self.t:
            if k == 1:
                parts.append(f'+{s}')
            elif k == -1:
                parts.append(f'-{s}')
            elif k > 0:
                parts.append(f'+{k}*{s}')
            else:
                parts.append(f'{k}*{s}')
        txt = ''.join(parts).lstrip('+')
        if self.c > 0:
            txt += f'+{self.c}'
        elif self.c < 0:
            txt += f'{self.c}'
        return txt


class Infeasible(Exception):
    pass


class Store:
    """Interval environment + linear constraints (each `lin >= 0`) + equality
    substitutions + discrete bindings of one path."""

    def __init__(self):
        self.iv = {}        # sym -> [lo, hi]   None = unbounded
        self.cons = []      # list[Lin], each >= 0
        self.sub = {}       # sym -> Lin   (equalities used for canonical forms)
        self.info = {}      # sym -> free-form description (for reports)

    # -- symbols ---------------------------------------------------------
    def declare(self, sym, lo=None, hi=None, info=None):
        if sym not in self.iv:
            self.iv[sym] = [lo, hi]
            self.__dict__.setdefault('decl', {})[sym] = (lo, hi)
        else:
            cur = self.iv[sym]
            if lo is not None and (cur[0] is None or lo > cur[0]):
                cur[0] = lo
            if hi is not None and (cur[1] is None or hi < cur[1]):
                cur[1] = hi
        if info is not None:
            self.info[sym] = info
        b = self.iv[sym]
        if b[0] is not None and b[0] == b[1] and sym not in self.sub:
            self.sub[sym] = Lin.const(b[0])
        return Lin.sym(sym)

    def canon(self, lin):
        lin = Lin.of(lin)
        for _ in range(8):
            if not any(s in self.sub for s, _k in lin.t):
                break
            lin = lin.subst(self.sub)
        return lin

    # -- bounds ----------------------------------------------------------
    def lo(self, lin):
        lin = self.canon(lin)
        v = lin.c
        for s, k in lin.t:
            b = self.iv.get(s, [None, None])
            x = b[0] if k > 0 else b[1]
            if x is None:
                return None
            v += k * x
        return v

    def hi(self, lin):
        lin = self.canon(lin)
        v = lin.c
        for s, k in lin.t:
            b = self.iv.get(s, [None, None])
            x = b[1] if k > 0 else b[0]
            if x is None:
                return None
            v += k * x
        return v

    def bounds(self, lin):
        return self.lo(lin), self.hi(lin)

    # -- entailment ------------------------------------------------------
    def _ge0_by_iv(self, lin):
        lo = self.lo(lin)
        return lo is not None and lo >= 0

    def prove_ge0(self, lin):
        """True if `lin >= 0` follows from the store (sound, incomplete): goal-directed bounded combination
        of recorded constraints (non-negative integer multipliers, depth <= 3) closed by interval arithmetic."""
        lin = self.canon(lin)
        if lin.is_const():
            return lin.c >= 0
        key = (len(self.cons), len(self.sub), lin)
        memo = self.__dict__.setdefault('_memo', {})
        sig = self._sig()
        if memo.get('sig') != sig:
            memo.clear()
            memo['sig'] = sig
            memo['cons'] = [c for c in (self.canon(k) for k in self.cons) if not c.is_const()]
        if lin in memo:
            return memo[lin]
        r = self._prove(lin, 3, memo['cons'])
        memo[lin] = r
        return r

    def _sig(self):
        return (len(self.cons), len(self.sub), tuple((s, b[0], b[1]) for s, b in self.iv.items()))

    def _prove(self, lin, depth, cons):
        if lin.is_const():
            return lin.c >= 0
        v = lin.c
        bad_inf = None
        for s, a in lin.t:
            b = self.iv.get(s)
            x = None if b is None else (b[0] if a > 0 else b[1])
            if x is None:
                if bad_inf is None:
                    bad_inf = (s, a)
                v = None
            elif v is not None:
                v += a * x
        if v is not None and v >= 0:
            return True
        if depth == 0:
            return False
        targets = [bad_inf] if bad_inf is not None else list(lin.t)
        for s, a in targets:
            for k in cons:
                b = 0
                for s2, c2 in k.t:
                    if s2 == s:
                        b = c2
                        break
                if b == 0 or (b > 0) != (a > 0):
                    continue
                if a % b == 0:
                    m = a // b
                else:
                    m = -((-abs(a)) // abs(b))
                if m <= 0:
                    continue
                if self._prove(lin - k.scale(m), depth - 1, cons):
                    return True
        return False

    def decide_ge0(self, lin):
        """True / False / None for `lin >= 0`."""
        if self.prove_ge0(lin):
            return True
        if self.prove_ge0(-Lin.of(lin) - 1):
            return False
        return None

    def decide_eq0(self, lin):
        lin = self.canon(lin)
        if lin.is_const():
            return lin.c == 0
        if self.prove_ge0(lin) and self.prove_ge0(-lin):
            return True
        if self.prove_ge0(lin - 1) or self.prove_ge0(-lin - 1):
            return False
        return None

    # -- assumptions -----------------------------------------------------
    def assume_ge0(self, lin):
        lin = self.canon(lin)
        if lin.is_const():
            if lin.c < 0:
                raise Infeasible(f'{lin} >= 0')
            return
        self.cons.append(lin)
        self._propagate()
        self._width_implication(lin)

    def refutes_ge0(self, lin):
        """True when `lin >= 0` contradicts what is known (lin <= -1 is provable): used before assuming a hypothesis"""
        lin = self.canon(Lin.of(lin))
        if lin.is_const():
            return lin.c < 0
        return bool(self.prove_ge0(-lin - 1))

    def _width_implication(self, lin):
        """a bound on the width of the numeral of a non-negative value is a bound on the value:
        len(str(n)) > k  <=>  n >= 10**k   and   len(str(n)) <= k  <=>  n <= 10**k - 1   (beyond the minimum width)"""
        wo = self.__dict__.get('width_of')
        if not wo or len(lin.t) != 1:
            return
        (sym, k), = list(lin.t)
        if sym not in wo or k not in (1, -1):
            return
        val, base, minw = wo[sym]
        lo_v = self.lo(val)
        if lo_v is None or lo_v < 0:
            return
        c = lin.c
        if k == 1:
            m = -c                      # width >= m
            if m > max(minw, 1) and m <= 40:
                self.assume_ge0(val - base ** (m - 1))
        else:
            m = c                       # width <= m
            if 1 <= m <= 40:
                self.assume_ge0(Lin.const(base ** m - 1) - val)

    def assume_eq0(self, lin):
        lin = self.canon(lin)
        if lin.is_const():
            if lin.c != 0:
                raise Infeasible(f'{lin} == 0')
            return
        # try to turn into a substitution  sym := rest
        done = False
        # prefer eliminating the most recently declared non-primary symbol
        for s, k in sorted(lin.t, key=lambda sk: self._elim_rank(sk[0])):
            if k in (1, -1):
                rest = (lin - Lin.sym(s, k)).scale(-k)   # s = rest
                if s in [x for x, _ in rest.t]:
                    continue
                # keep interval knowledge of s as constraints on rest
                b = self.iv.get(s, [None, None])
                self.sub[s] = rest
                # re-canonicalise existing substitutions
                for o in list(self.sub):
                    if o != s:
                        self.sub[o] = self.sub[o].subst({s: rest})
                if b[0] is not None:
                    self.cons.append(rest - b[0])
                if b[1] is not None:
                    self.cons.append(Lin.const(b[1]) - rest)
                self.cons = [self.canon(c) for c in self.cons]
                done = True
                break
        if not done:
            self.cons.append(lin)
            self.cons.append(-lin)
        self._propagate()

    def _elim_rank(self, sym):
        # eliminate temporaries (t#..) before named symbols
        order = list(self.iv)
        try:
            idx = order.index(sym)
        except ValueError:
            idx = len(order)
        return -idx

    def _propagate(self):
        for _ in range(6):
            changed = False
            for k in self.cons:
                k = self.canon(k)
                if k.is_const():
                    if k.c < 0:
                        raise Infeasible('constant constraint')
                    continue
                # k = c + sum a_i x_i >= 0
                for s, a in k.t:
                    rest = k - Lin.sym(s, a)
                    rhi = self.hi(rest)
                    if rhi is None:
                        continue
                    # a*s >= -rest >= -rhi
                    b = self.iv.setdefault(s, [None, None])
                    if a > 0:
                        nb = -(rhi // a) if rhi % a == 0 else -(rhi // a)  # ceil(-rhi/a)
                        nb = _ceil_div(-rhi, a)
                        if b[0] is None or nb > b[0]:
                            b[0] = nb
                            changed = True
                    else:
                        nb = _floor_div(rhi, -a)   # s <= rhi/(-a)
                        if b[1] is None or nb < b[1]:
                            b[1] = nb
                            changed = True
                    if b[0] is not None and b[1] is not None and b[0] > b[1]:
                        raise Infeasible(f'{s} in [{b[0]},{b[1]}]')
            if not changed:
                break

    def check(self):
        for s, b in self.iv.items():
            if b[0] is not None and b[1] is not None and b[0] > b[1]:
                raise Infeasible(s)

    # -- witness search --------------------------------------------------
    def witness(self, extra=(), want_syms=(), limit=20000):
        """Find an integer valuation satisfying all constraints plus `extra`
        (each Lin >= 0).  Returns dict or None."""
        cons = [self.canon(k) for k in self.cons] + [self.canon(k) for k in extra]
        opaque = set(self.__dict__.get('opaque', ()))
        if opaque:
            # definitional constraints (q, r of a division...) hold whatever the opaque value is, but what they define from
            # an opaque value is opaque too
            defs = [self.canon(k) for k in self.__dict__.get('definitional', ())]
            for _ in range(4):
                grown = False
                for k in defs:
                    sy = set(k.syms())
                    if sy & opaque and not sy <= opaque:
                        opaque |= sy
                        grown = True
                if not grown:
                    break
            defset = set(defs)
            if any(x in opaque for k in cons if k not in defset for x in k.syms()):
                # feasibility or the violation rests on the value of an unmodelled operation: no witness is claimed
                return None
        syms = []
        for k in cons:
            for s in k.syms():
                if s not in syms:
                    syms.append(s)
        for s in want_syms:
            for x in self.canon(Lin.sym(s)).syms():
                if x not in syms:
                    syms.append(x)
        iv = {s: list(self.iv.get(s, [None, None])) for s in syms}
        consts = {0, 1}
        for k in cons:
            consts.add(abs(k.c))
            consts.add(abs(k.c) + 1)
            consts.add(max(0, abs(k.c) - 1))
        budget = [limit]

        def propagate(iv):
            for _ in range(8):
                changed = False
                for k in cons:
                    for s, a in k.t:
                        rhi = k.c
                        ok = True
                        for s2, a2 in k.t:
                            if s2 == s:
                                continue
                            b2 = iv[s2]
                            x = b2[1] if a2 > 0 else b2[0]
                            if x is None:
                                ok = False
                                break
                            rhi += a2 * x
                        if not ok:
                            continue
                        b = iv[s]
                        if a > 0:
                            nb = _ceil_div(-rhi, a)
                            if b[0] is None or nb > b[0]:
                                b[0] = nb
                                changed = True
                        else:
                            nb = _floor_div(rhi, -a)
                            if b[1] is None or nb < b[1]:
                                b[1] = nb
                                changed = True
                        if b[0] is not None and b[1] is not None and b[0] > b[1]:
                            return False
                if not changed:
                    break
            return True

        def candidates(b):
            lo, hi = b
            vals = []
            if lo is not None and hi is not None:
                if hi - lo <= 6:
                    return list(range(lo, hi + 1))
                vals = [lo, lo + 1, hi, hi - 1]
            elif lo is not None:
                vals = [lo, lo + 1]
            elif hi is not None:
                vals = [hi, hi - 1]
            for c in sorted(consts):
                for v in (c, -c):
                    if (lo is None or v >= lo) and (hi is None or v <= hi):
                        vals.append(v)
            out = []
            for v in vals:
                if v not in out:
                    out.append(v)
            return out

        links = self.__dict__.get('width_of', {})
        for ws, (vlin, base, minw) in links.items():
            # the value behind a numeral width must get a valuation too
            if any(ws in self.canon(Lin.sym(x)).syms() or x == ws for x in syms):
                for x in self.canon(vlin).syms():
                    if x not in syms:
                        syms.append(x)
                        iv[x] = list(self.iv.get(x, [None, None]))

        def widths_ok(val):
            """a numeral's width symbol must be the width of the value it renders (max(minw, digits), sign included)"""
            for ws, (vlin, base, minw) in links.items():
                if ws not in val:
                    continue
                try:
                    v = self.canon(vlin).eval(val)
                except KeyError:
                    continue
                n, d = abs(v), 1
                while n >= base:
                    n //= base
                    d += 1
                if v < 0:
                    d += 1
                if val[ws] != max(minw, d):
                    return False
            return True

        def search(iv, order):
            budget[0] -= 1
            if budget[0] < 0:
                return None
            if not propagate(iv):
                return None
            pending = [s for s in order if iv[s][0] is None or iv[s][1] is None or iv[s][0] != iv[s][1]]
            if not pending:
                val = {s: iv[s][0] for s in order}
                if all(k.eval(val) >= 0 for k in cons) and widths_ok(val):
                    return val
                return None
            # choose the most constrained symbol
            s = min(pending, key=lambda x: _width(iv[x]))
            for v in candidates(iv[s]):
                iv2 = {k: list(b) for k, b in iv.items()}
                iv2[s] = [v, v]
                r = search(iv2, order)
                if r is not None:
                    return r
            return None

        val = search(iv, syms)
        if val is None:
            return None
        # extend to substituted symbols
        full = dict(val)
        for s, rest in self.sub.items():
            rest = self.canon(rest)
            try:
                full[s] = rest.eval(val)
            except KeyError:
                pass
        return full

    def copy(self):
        st = Store()
        st.iv = {k: list(v) for k, v in self.iv.items()}
        st.cons = list(self.cons)
        st.sub = dict(self.sub)
        st.info = dict(self.info)
        st.__dict__['decl'] = dict(self.__dict__.get('decl', {}))
        st.__dict__['width_of'] = dict(self.__dict__.get('width_of', {}))
        st.__dict__['opaque'] = set(self.__dict__.get('opaque', ()))
        st.__dict__['definitional'] = list(self.__dict__.get('definitional', ()))
        return st


def _width(b):
    if b[0] is None or b[1] is None:
        return float('inf')
    return b[1] - b[0]


def _ceil_div(a, b):
    return -((-a) // b)


def _floor_div(a, b):
    return a // b
