"""K7 - the two-scan decimalisation of a hexadecimal string (C14.b), decided on closed forms.

The PVV is "the first four decimal digits of the hex rendering of the ciphertext, scanning left to right; when there
are fewer than four, the letters a-f taken in a second scan as 0-5".  For the scans the only thing that matters about
the 16 hex characters is how many of them are decimal digits (nd) - both scans keep the order of the characters they
select - so the function is evaluated symbolically once per case nd = 0, 1, 2, 3, ">= 4" on

    digit scan   d0, d1, ...        (the decimal digit characters in order; exactly nd of them, or 4 known + more)
    letter scan  a0, a1, ...        (the letters in order; 16 - nd of them, so at least 4 whenever nd <= 3)

with everything that is not the hex string (keys, cipher objects, the TSP) opaque.  The result must be the join of
exactly four characters, position k being d_k for k < nd and the digit (value(a_{k-nd}) - 10) after that - compared
for every letter value 10..15.  Nothing is executed; anything outside the fragment is "undecided".
"""
from __future__ import annotations

import ast

from .fold import (FoldEval, Unsupported, Val, IntVal, StrLit, CharDigit, StrOfInt, Items, TupleVal, NoneVal, Builtin,
                   BoundMethod, FuncVal, RawStr, Fam, Env, K, V, sub, add, is_k, evaluate, free_vars, show, Verdict, EXT)

HEX_LEN = 16


class OpaqueVal(Val):
    """something this analysis does not look into (keys, cipher contexts, ciphertext bytes...)"""
    def __init__(self, what='opaque'):
        self.what = what

    def __repr__(self):
        return f'<opaque {self.what}>'


class HexBytes(Val):
    """binascii.hexlify(<opaque bytes>)"""
    def __init__(self, src):
        self.src = src


class HexRaw(Val):
    """the hex rendering (str) of the ciphertext"""
    def __init__(self, src):
        self.src = src

    def __repr__(self):
        return '<hex string>'


class HexLetter(Val):
    """the k-th letter (a-f) of the hex string; its value int(c, 16) is the variable hv<k> in 10..15"""
    def __init__(self, k):
        self.k = k
        self.t = V(f'hv{k}')

    def __repr__(self):
        return f'letter#{self.k}'


class OpenItems(Items):
    """a list whose first elements are known and which may go on (its length is at least len(items))"""
    open = True


class LenAtLeast(IntVal):
    def __init__(self, lb):
        super().__init__(V('len?'))
        self.lb = lb


class JoinedChars(Val):
    def __init__(self, chars):
        self.chars = list(chars)

    def __repr__(self):
        return 'join' + repr(self.chars)


class DictLit(Val):
    def __init__(self, items):
        self.items = items


class ScanEval(FoldEval):
    def __init__(self, prog, module, nd, pattern=None):
        super().__init__(prog, module)
        self.nd = nd              # 0..3 exact, 4 = "four or more"
        self.pattern = pattern    # None: order of digits and letters unknown; else a 16-character string of 'd' / 'l'
        self.hex_of = {}

    def all_scan(self):
        """the characters of the hex string in order (only when a concrete digit/letter pattern is being tried)"""
        if self.pattern is None:
            raise Unsupported('the hex string is used without selecting digits or letters')
        out, di, li = [], 0, 0
        for c in self.pattern:
            if c == 'd':
                out.append(CharDigit(V(f'hd{di}')))
                di += 1
            else:
                out.append(HexLetter(li))
                li += 1
        return out

    # ---- the two scans
    def digit_scan(self, elem):
        if self.pattern is not None:
            return Items([elem(CharDigit(V(f'hd{k}'))) for k in range(self.pattern.count('d'))])
        known = min(self.nd, 4)
        items = [elem(CharDigit(V(f'hd{k}'))) for k in range(known)]
        return OpenItems(items) if self.nd >= 4 else Items(items)

    def letter_scan(self, elem):
        if self.pattern is not None:
            return Items([elem(HexLetter(k)) for k in range(self.pattern.count('l'))])
        if self.nd >= 4:
            return OpenItems([])          # 16 - nd letters, nd unknown: nothing is known about them
        return OpenItems([elem(HexLetter(k)) for k in range(4)])    # at least 13 letters

    def filter_class(self, test, var, env):
        """'digit' | 'letter' | None for a filter expression over the character variable"""
        if isinstance(test, ast.UnaryOp) and isinstance(test.op, ast.Not):
            inner = self.filter_class(test.operand, var, env)
            return {'digit': 'letter', 'letter': 'digit'}.get(inner)
        if isinstance(test, ast.Call) and isinstance(test.func, ast.Attribute) and isinstance(test.func.value, ast.Name) \
                and test.func.value.id == var and not test.args:
            if test.func.attr in ('isdigit', 'isdecimal', 'isnumeric'):
                return 'digit'
            if test.func.attr == 'isalpha':
                return 'letter'
        if isinstance(test, ast.Compare) and len(test.ops) == 1 and isinstance(test.left, ast.Name) and test.left.id == var and \
                isinstance(test.ops[0], (ast.In, ast.NotIn)):
            try:
                s = self.eval(test.comparators[0], env)
            except Unsupported:
                return None
            if isinstance(s, StrLit):
                cls = 'digit' if set(s.s) == set('0123456789') else 'letter' if set(s.s.lower()) == set('abcdef') else None
                if cls and isinstance(test.ops[0], ast.NotIn):
                    cls = {'digit': 'letter', 'letter': 'digit'}[cls]
                return cls
        return None

    def comprehension(self, e, elt, env, kind):
        if len(e.generators) == 1 and not e.generators[0].is_async:
            g = e.generators[0]
            src = self.eval(g.iter, env)
            if isinstance(src, JoinedChars):
                src = Items(src.chars)
            if isinstance(src, HexRaw) and not g.ifs and isinstance(g.target, ast.Name):
                src = Items(self.all_scan())
            if isinstance(src, HexRaw):
                if not (isinstance(g.target, ast.Name) and len(g.ifs) == 1):
                    raise Unsupported('the hex string is scanned without selecting digits or letters')
                cls = self.filter_class(g.ifs[0], g.target.id, env)
                if cls is None:
                    raise Unsupported('scan filter is neither a digit nor a letter test')
                var = g.target.id

                def elem(ch):
                    inner = Env(env)
                    inner[var] = ch
                    return self.eval(elt, inner)
                return self.digit_scan(elem) if cls == 'digit' else self.letter_scan(elem)
            if isinstance(src, Items):
                if g.ifs:
                    raise Unsupported('filtered comprehension over a scan')
                out = []
                for x in src.items:
                    inner = Env(env)
                    self.assign(g.target, x, inner)
                    out.append(self.eval(elt, inner))
                return OpenItems(out) if getattr(src, 'open', False) else Items(out)
        return super().comprehension(e, elt, env, kind)

    # ---- opaque plumbing
    def e_JoinedStr(self, e, env):
        try:
            return super().e_JoinedStr(e, env)
        except Unsupported:
            for v in e.values:
                if isinstance(v, ast.FormattedValue):
                    self.eval(v.value, env)
            return OpaqueVal('f-string')

    def e_Constant(self, e, env):
        if isinstance(e.value, (bytes, float, complex)) or e.value is Ellipsis:
            return OpaqueVal('constant')
        return super().e_Constant(e, env)

    def e_Dict(self, e, env):
        items = {}
        for k, v in zip(e.keys, e.values):
            if not (isinstance(k, ast.Constant) and isinstance(k.value, str)):
                raise Unsupported('dict literal with non-constant keys')
            items[k.value] = self.eval(v, env)
        return DictLit(items)

    def e_Subscript(self, e, env):
        base = self.eval(e.value, env)
        if isinstance(base, (OpaqueVal, RawStr, HexBytes)):
            return OpaqueVal('subscript')
        if isinstance(base, DictLit):
            key = self.eval(e.slice, env)
            return self.dict_lookup(base, key)
        if isinstance(base, StrLit) and not isinstance(e.slice, ast.Slice):
            idx = self.eval(e.slice, env)
            if isinstance(idx, IntVal) and not is_k(idx.t) and base.s.isdigit():
                # '012345'[value - 10]: the decimal digit at that position
                from .fold import tab
                fv = free_vars(idx.t)
                if fv and all(v.startswith('hv') for v in fv):
                    vals = set()
                    for x in range(10, 16):
                        i = evaluate(idx.t, {v: x for v in fv})
                        if not 0 <= i < len(base.s):
                            raise Unsupported('letter value indexes outside the literal')
                    return StrOfInt(tab(tuple(K(int(c)) for c in base.s), idx.t))
        return super().e_Subscript(e, env)

    def dict_lookup(self, d, key):
        if isinstance(key, StrLit) and key.s in d.items:
            return d.items[key.s]
        if isinstance(key, HexLetter):
            letters = 'abcdef'
            vals = []
            for ch in letters:
                v = d.items.get(ch, d.items.get(ch.upper()))
                if not (isinstance(v, StrLit) and v.s.isdigit() and len(v.s) == 1) and not (isinstance(v, IntVal) and is_k(v.t)):
                    raise Unsupported('letter table entry is not a digit')
                vals.append(K(int(v.s)) if isinstance(v, StrLit) else v.t)
            from .fold import tab
            t = tab(tuple(vals), sub(key.t, K(10)))
            return StrOfInt(t) if isinstance(d.items.get('a', d.items.get('A')), StrLit) else IntVal(t)
        raise Unsupported('dict lookup')

    def slice(self, base, lo, hi, step):
        if isinstance(base, (OpaqueVal, RawStr, HexBytes)):
            return OpaqueVal('slice')
        if isinstance(base, JoinedChars):
            def cst(v):
                if v is None or isinstance(v, NoneVal):
                    return None
                if isinstance(v, IntVal) and is_k(v.t):
                    return v.t[1]
                raise Unsupported('slice bound is not a constant')
            return JoinedChars(base.chars[slice(cst(lo), cst(hi), cst(step))])
        if isinstance(base, Items) and getattr(base, 'open', False):
            def const(v):
                if v is None or isinstance(v, NoneVal):
                    return None
                if isinstance(v, IntVal) and is_k(v.t):
                    return v.t[1]
                raise Unsupported('slice bound is not a constant')
            lo_, hi_, st_ = const(lo), const(hi), const(step)
            if st_ not in (None, 1) or (lo_ or 0) < 0 or hi_ is None or hi_ < 0:
                raise Unsupported('slice of a scan whose length is not known')
            if hi_ <= len(base.items):
                return Items(base.items[lo_ or 0:hi_], 'list')
            raise Unsupported('slice reaches past the known part of a scan')
        return super().slice(base, lo, hi, step)

    def binop(self, op, a, b):
        if isinstance(a, OpaqueVal) or isinstance(b, OpaqueVal):
            return OpaqueVal('binop')
        if isinstance(op, ast.Add) and isinstance(a, (JoinedChars, StrLit)) and isinstance(b, (JoinedChars, StrLit)):
            def chars(x):
                return list(x.chars) if isinstance(x, JoinedChars) else [StrLit(c) for c in x.s]
            return JoinedChars(chars(a) + chars(b))
        if isinstance(op, ast.Add) and isinstance(a, Items) and isinstance(b, Items):
            if getattr(a, 'open', False):
                return OpenItems(a.items)          # whatever follows comes after an unknown number of elements
            out = a.items + b.items
            return OpenItems(out) if getattr(b, 'open', False) else Items(out, a.kind)
        return super().binop(op, a, b)

    def compare(self, op, a, b):
        if isinstance(a, LenAtLeast) and isinstance(b, IntVal) and is_k(b.t):
            c = b.t[1]
            if isinstance(op, ast.Lt) and c <= a.lb:
                return K(0)
            if isinstance(op, ast.GtE) and c <= a.lb:
                return K(1)
            if isinstance(op, ast.LtE) and c < a.lb:
                return K(0)
            if isinstance(op, ast.Gt) and c < a.lb:
                return K(1)
            raise Unsupported('length of a scan compared with more than is known of it')
        if isinstance(b, LenAtLeast):
            flip = {ast.Lt: ast.Gt, ast.Gt: ast.Lt, ast.LtE: ast.GtE, ast.GtE: ast.LtE}.get(type(op))
            if flip:
                return self.compare(flip(), b, a)
        return super().compare(op, a, b)

    def branching_symbolic(self):
        return bool(self.cps)

    def exec_for(self, st, env):
        src = self.eval(st.iter, env)
        if not isinstance(src, HexRaw):
            return super().exec_for(st, env)
        # for c in hex: if <digit/letter test>(c): some_list.append(f(c))
        if not (isinstance(st.target, ast.Name) and len(st.body) == 1 and isinstance(st.body[0], ast.If) and not st.body[0].orelse
                and not st.orelse):
            raise Unsupported('loop over the hex string that is not a guarded append')
        var = st.target.id
        cls = self.filter_class(st.body[0].test, var, env)
        inner = st.body[0].body
        if cls is None or len(inner) != 1 or not (isinstance(inner[0], ast.Expr) and isinstance(inner[0].value, ast.Call)
                                                  and isinstance(inner[0].value.func, ast.Attribute)
                                                  and inner[0].value.func.attr == 'append'
                                                  and isinstance(inner[0].value.func.value, ast.Name)
                                                  and len(inner[0].value.args) == 1):
            raise Unsupported('loop over the hex string that is not a guarded append')
        target = inner[0].value.func.value.id
        expr = inner[0].value.args[0]

        def elem(ch):
            e2 = Env(env)
            e2[var] = ch
            return self.eval(expr, e2)
        more = self.digit_scan(elem) if cls == 'digit' else self.letter_scan(elem)
        cur = self.load(target, env)
        if not isinstance(cur, Items):
            raise Unsupported('append to something that is not a list')
        out = Env(env)
        out[target] = self.binop(ast.Add(), cur, more)
        return out

    def cond(self, v):
        if isinstance(v, JoinedChars):
            return K(int(bool(v.chars)))
        if isinstance(v, Items) and getattr(v, 'open', False):
            if v.items:
                return K(1)
            raise Unsupported('truth of a scan of unknown length')
        return super().cond(v)

    def call(self, f, args, kwargs):
        if isinstance(f, Builtin) and f.name == 'str.maketrans':
            if len(args) == 2 and all(isinstance(a, StrLit) for a in args) and len(args[0].s) == len(args[1].s):
                return DictLit({a: StrLit(b) for a, b in zip(args[0].s, args[1].s)})
            raise Unsupported('str.maketrans arguments')
        if isinstance(f, Builtin) and f.name.startswith('ext:'):
            name = f.name[4:]
            if name in ('binascii.hexlify', 'binascii.b2a_hex') and len(args) == 1:
                return HexBytes(args[0])
            return OpaqueVal(name)
        if isinstance(f, OpaqueVal):
            return OpaqueVal('call')
        return super().call(f, args, kwargs)

    def load(self, name, env):
        try:
            return super().load(name, env)
        except Unsupported:
            if name in ('ord', 'chr', 'hex', 'bytes', 'hasattr', 'getattr', 'isinstance'):
                return Builtin(name)
            raise

    def method(self, recv, name, args, kwargs):
        if isinstance(recv, HexBytes):
            if name == 'decode':
                key = id(recv.src)
                if key not in self.hex_of:
                    self.hex_of[key] = HexRaw(recv.src)
                return self.hex_of[key]
            return OpaqueVal(name)
        if isinstance(recv, OpaqueVal):
            if name == 'hex' and not args:
                key = id(recv)
                if key not in self.hex_of:
                    self.hex_of[key] = HexRaw(recv)
                return self.hex_of[key]
            return OpaqueVal(name)
        if isinstance(recv, HexRaw) and name in ('lower', 'casefold') and not args:
            return recv
        if name == 'translate' and len(args) == 1 and isinstance(args[0], DictLit):
            chars = self.all_scan() if isinstance(recv, HexRaw) else recv.chars if isinstance(recv, JoinedChars) else None
            if chars is None:
                raise Unsupported('translate')
            out = []
            for ch in chars:
                if isinstance(ch, HexLetter):
                    if set('abcdef') <= set(args[0].items):
                        out.append(self.dict_lookup(args[0], ch))
                    elif not set('abcdef') & set(args[0].items):
                        out.append(ch)
                    else:
                        raise Unsupported('translation table covers only some letters')
                elif isinstance(ch, CharDigit):
                    if set('0123456789') & set(args[0].items):
                        raise Unsupported('translation table changes decimal digits')
                    out.append(ch)
                else:
                    out.append(ch)
            return JoinedChars(out)
        if isinstance(recv, StrLit) and name == 'join' and recv.s == '' and len(args) == 1 and isinstance(args[0], JoinedChars):
            return args[0]
        if isinstance(recv, StrLit) and name == 'join' and recv.s == '' and len(args) == 1 and isinstance(args[0], Items):
            if getattr(args[0], 'open', False):
                raise Unsupported('join of a scan of unknown length')
            return JoinedChars(args[0].items)
        if isinstance(recv, HexLetter) and name in ('isalpha',) and not args:
            return IntVal(K(1), True)
        if isinstance(recv, HexLetter) and name in ('isdigit', 'isdecimal', 'isnumeric') and not args:
            return IntVal(K(0), True)
        if isinstance(recv, CharDigit) and name == 'isalpha' and not args:
            return IntVal(K(0), True)
        if isinstance(recv, Items) and name in ('extend', 'append') and len(args) == 1:
            # in place: safe here because every condition on the way is a constant within one case
            if self.branching_symbolic():
                raise Unsupported('in-place list update under a condition that is not decided')
            more = args[0] if name == 'extend' else Items([args[0]])
            if not isinstance(more, Items):
                raise Unsupported('extend with something that is not a scan')
            if not getattr(recv, 'open', False):
                recv.items.extend(more.items)
                if getattr(more, 'open', False):
                    recv.__class__ = OpenItems
            return NoneVal()
        if isinstance(recv, (StrLit, OpaqueVal, RawStr)) and any(isinstance(a, (OpaqueVal, RawStr, HexBytes)) for a in args):
            return OpaqueVal(name)
        if isinstance(recv, DictLit) and name == 'get' and args:
            return self.dict_lookup(recv, args[0])
        return super().method(recv, name, args, kwargs)

    # ---- builtins
    def b_int(self, args, kw):
        if len(args) == 2 and isinstance(args[1], IntVal) and is_k(args[1].t) and args[1].t[1] == 16:
            v = args[0]
            if isinstance(v, HexLetter):
                return IntVal(v.t)
            if isinstance(v, CharDigit):
                return IntVal(v.t)
        return super().b_int(args, kw)

    def b_ord(self, args, kw):
        v = args[0]
        if isinstance(v, HexLetter):
            return IntVal(add(v.t, K(87)))           # ord('a') == 97 == 10 + 87  (hexlify renders lower case)
        if isinstance(v, CharDigit):
            return IntVal(add(v.t, K(48)))
        if isinstance(v, StrLit) and len(v.s) == 1:
            return IntVal(K(ord(v.s)))
        raise Unsupported('ord()')

    def b_chr(self, args, kw):
        v = args[0]
        if isinstance(v, IntVal):
            fv = free_vars(v.t)
            if fv and all(x.startswith('hv') for x in fv):
                vals = [evaluate(v.t, {x: val for x in fv}) for val in range(10, 16)]
                if all(48 <= c <= 57 for c in vals):
                    return StrOfInt(sub(v.t, K(48)))
        raise Unsupported('chr()')

    def b_str(self, args, kw):
        if len(args) == 1 and isinstance(args[0], (HexLetter,)):
            return args[0]
        if args and isinstance(args[0], (OpaqueVal, HexBytes)):
            return OpaqueVal('str')
        return super().b_str(args, kw)

    def b_len(self, args, kw):
        v = args[0]
        if isinstance(v, JoinedChars):
            return IntVal(K(len(v.chars)))
        if isinstance(v, Items) and getattr(v, 'open', False):
            return LenAtLeast(len(v.items))
        if isinstance(v, HexRaw):
            return IntVal(K(HEX_LEN))
        return super().b_len(args, kw)

    def b_list(self, args, kw):
        if args and isinstance(args[0], Items):
            return args[0]
        return super().b_list(args, kw)

    def b_filter(self, args, kw):
        f, src = args
        if isinstance(src, HexRaw):
            if isinstance(f, Builtin) and f.name in ('str.isdigit', 'str.isdecimal', 'str.isnumeric'):
                return self.digit_scan(lambda ch: ch)
            if isinstance(f, Builtin) and f.name == 'str.isalpha':
                return self.letter_scan(lambda ch: ch)
            if isinstance(f, FuncVal) and isinstance(f.node, ast.Lambda) and len(f.node.args.args) == 1:
                cls = self.filter_class(f.node.body, f.node.args.args[0].arg, f.env)
                if cls == 'digit':
                    return self.digit_scan(lambda ch: ch)
                if cls == 'letter':
                    return self.letter_scan(lambda ch: ch)
            raise Unsupported('filter over the hex string that is not a digit / letter test')
        return super().b_filter(args, kw)

    def b_map(self, args, kw):
        if len(args) == 2 and isinstance(args[1], Items):
            out = [self.call(args[0], [x], {}) for x in args[1].items]
            return OpenItems(out) if getattr(args[1], 'open', False) else Items(out)
        return super().b_map(args, kw)

    def b_chain(self, args, kw):
        out = Items([])
        for a in args:
            if not isinstance(a, Items):
                raise Unsupported('chain of something that is not a scan')
            out = self.binop(ast.Add(), out, a)
        return out

    def b_islice(self, args, kw):
        if len(args) == 2 and isinstance(args[0], Items):
            return self.slice(args[0], None, args[1], None) if getattr(args[0], 'open', False) else \
                Items(args[0].items[:args[1].t[1]]) if isinstance(args[1], IntVal) and is_k(args[1].t) else self._unsup('islice')
        raise Unsupported('islice')

    def _unsup(self, what):
        raise Unsupported(what)

    def to_fam(self, v):
        if isinstance(v, Items) and getattr(v, 'open', False):
            raise Unsupported('a scan of unknown length is iterated')
        return super().to_fam(v)

    def merge(self, c, a, b):
        if isinstance(a, JoinedChars) and isinstance(b, JoinedChars) and len(a.chars) == len(b.chars):
            return JoinedChars([self.merge(c, x, y) for x, y in zip(a.chars, b.chars)])
        return super().merge(c, a, b)


def _char_value(ch):
    """a result character as ('d', var) for a scanned digit or ('t', term) for a computed digit"""
    if isinstance(ch, CharDigit):
        if ch.t[0] == 'v' and ch.t[1].startswith('hd'):
            return ('d', ch.t[1])
        return ('t', ch.t)
    if isinstance(ch, StrOfInt):
        return ('t', ch.t)
    if isinstance(ch, StrLit) and len(ch.s) == 1 and ch.s.isdigit():
        return ('t', K(int(ch.s)))
    if isinstance(ch, HexLetter):
        return ('letter', ch.k)
    return None


def _try_patterns(prog, fi, reason):
    """the order-free analysis does not apply (the hex string is used as a whole): try a few concrete digit/letter
    patterns; a difference on one of them is a refutation, agreement on all of them proves nothing"""
    pats = []
    for nd in (0, 1, 2, 3, 4, 5):
        pats += ['d' * nd + 'l' * (HEX_LEN - nd), 'l' * (HEX_LEN - nd) + 'd' * nd, ('l' + 'd') * nd + 'l' * (HEX_LEN - 2 * nd),
                 'l' * 3 + 'd' * nd + 'l' * (HEX_LEN - 3 - nd)]
    seen = set()
    for pat in pats:
        if pat in seen or len(pat) != HEX_LEN:
            continue
        seen.add(pat)
        nd = pat.count('d')
        ev = ScanEval(prog, fi.module, min(nd, 4), pattern=pat)
        try:
            r = ev.call_def(fi.node, [OpaqueVal(a.arg) for a in fi.node.args.args], fi.module)
        except (Unsupported, RecursionError) as ex:
            return Verdict('undecided', f'{reason}; pattern evaluation is outside the fragment too: {ex}')
        if not isinstance(r, JoinedChars):
            return Verdict('undecided', f'{reason}; the result {r!r} is not a string of scanned characters')
        want = [('d', f'hd{k}') for k in range(min(nd, 4))] + [('a', j) for j in range(4 - min(nd, 4))]
        letters = {j: 10 + (j % 6) for j in range(HEX_LEN)}

        def render(chars):
            out = ''
            for ch in chars:
                cv = _char_value(ch)
                if cv is None:
                    return None
                if cv[0] == 'd':
                    out += str((int(cv[1][2:]) + 1) % 10)
                elif cv[0] == 'letter':
                    out += 'abcdef'[letters[cv[1]] - 10]
                else:
                    fv = free_vars(cv[1])
                    out += str(evaluate(cv[1], {x: letters[int(x[2:])] for x in fv if x.startswith('hv')}))
            return out
        got = render(r.chars)
        exp = ''.join(str((int(w[1][2:]) + 1) % 10) if w[0] == 'd' else str(letters[w[1]] - 10) for w in want)
        if got is None:
            return Verdict('undecided', f'{reason}; a result character is not recognised')
        if got != exp:
            di = li = 0
            hexs = ''
            for c in pat:
                if c == 'd':
                    hexs += str((di + 1) % 10)
                    di += 1
                else:
                    hexs += 'abcdef'[letters[li] - 10]
                    li += 1
            return Verdict('refuted', f'for the hex string {hexs!r} the closed form gives {got!r}, the decimalisation is {exp!r}',
                           witness={'hex(ciphertext)': hexs, 'computed': got, 'expected': exp})
    return Verdict('undecided', f'{reason} (no difference on {len(seen)} digit/letter patterns)')


def analyse_decimalisation(prog, fi, nparams=None):
    """-> Verdict for a function whose result is the decimalised hex rendering of an opaque ciphertext"""
    cases = []
    for nd in (0, 1, 2, 3, 4):
        ev = ScanEval(prog, fi.module, nd)
        args = [OpaqueVal(a.arg) for a in fi.node.args.args]
        try:
            r = ev.call_def(fi.node, args, fi.module)
        except Unsupported as ex:
            return _try_patterns(prog, fi, f'outside the scan fragment (case {nd if nd < 4 else ">= 4"} decimal digits): {ex}')
        except RecursionError:
            return Verdict('undecided', 'outside the scan fragment: recursion')
        if not isinstance(r, JoinedChars):
            return Verdict('undecided', f'the result {r!r} is not the join of scanned characters')
        label = f'{nd} decimal digit(s)' if nd < 4 else 'four or more decimal digits'
        if len(r.chars) != 4:
            hexs = _witness_hex(nd)
            return Verdict('refuted', f'with {label} in the hex string the result has {len(r.chars)} characters, not four',
                           witness={'hex(ciphertext)': hexs, 'characters': len(r.chars)})
        for k, ch in enumerate(r.chars):
            cv = _char_value(ch)
            if cv is None:
                return Verdict('undecided', f'result position {k} is {ch!r}')
            if k < min(nd, 4):
                if cv != ('d', f'hd{k}'):
                    return _mismatch(nd, k, cv, label, f'the {k + 1}-th decimal digit of the hex string')
            else:
                j = k - nd
                want = sub(V(f'hv{j}'), K(10))
                if cv[0] != 't':
                    return _mismatch(nd, k, cv, label, f'letter number {j + 1} taken as value - 10')
                fv = free_vars(cv[1])
                if not fv <= {f'hv{j}'}:
                    return _mismatch(nd, k, cv, label, f'letter number {j + 1} taken as value - 10')
                for x in range(10, 16):
                    got = evaluate(cv[1], {f'hv{j}': x})
                    if got != x - 10:
                        hexs = _witness_hex(nd, letter=(j, x))
                        return Verdict('refuted', f'with {label}, result position {k + 1} is {got} for the letter '
                                                  f'{"abcdef"[x - 10]!r}; the second scan maps a-f to 0-5, i.e. {x - 10}',
                                       witness={'hex(ciphertext)': hexs, 'position': k + 1, 'computed': got, 'expected': x - 10})
        cases.append(label)
    return Verdict('proved', 'in each of the cases ' + ', '.join(cases) + ' the result is the first four characters of '
                             '(decimal digits in order) ++ (letters in order, a-f as 0-5), for every letter value',
                   facts={'cases': len(cases), 'cells': len(cases) * 4 * 6})


def _witness_hex(nd, letter=None):
    digits = '1234567890123456'
    letters = list('abcdefabcdefabcdef')
    if letter is not None:
        letters[letter[0]] = 'abcdef'[letter[1] - 10]
    n = min(nd, 4) if nd < 4 else 5
    return (''.join(letters[:2]) + digits[:n] + ''.join(letters[2:]))[:HEX_LEN]


def _mismatch(nd, k, cv, label, want):
    what = {'d': lambda: f'decimal digit {cv[1][2:]} (counted from 0)', 't': lambda: f'the computed value {show(cv[1])}',
            'letter': lambda: f'the letter number {cv[1] + 1} itself (not converted)'}[cv[0]]()
    return Verdict('refuted', f'with {label} in the hex string, result position {k + 1} is {what}, expected {want}',
                   witness={'hex(ciphertext)': _witness_hex(nd), 'position': k + 1})
