"""K5 - closed forms for digit folds (used by C15.d).

A small symbolic evaluator for functions that turn the digit characters of a string into one number by a fold
(`sum` over a comprehension, a `for` loop with accumulators, slices with a stride, `zip(..., cycle(...))`...).
Lists are *indexed families*  i -> value  over a symbolic length, loops are summarised into closed forms
(additive accumulators become  sum_{i<count} body(i), period-2 state variables become a table indexed by i % p),
so the function's result is a term over

    n          the number of digit characters of the argument
    k          the number of its other characters
    D(j)       the j-th digit (0 <= j < n, counted from the left)

Nothing is executed: the evaluator only builds terms.  Anything outside the fragment raises Unsupported and the
caller reports UNDECIDED.
"""
from __future__ import annotations

import ast
import itertools

INF = ('inf',)


class Unsupported(Exception):
    pass


# ---------------------------------------------------------------------------------------------- terms
def K(c):
    return ('k', int(c))


def V(name):
    return ('v', name)


ZERO, ONE = K(0), K(1)


def is_k(t):
    return t[0] == 'k'


def lin(t):
    """term -> {var-or-atom: coef, 1: const} when `t` is linear with integer coefficients over variables, else None"""
    h = t[0]
    if h == 'k':
        return {1: t[1]}
    if h == 'v':
        return {t[1]: 1}
    if h == 'cur':
        return {t: 1}
    if h in ('+', '-'):
        a, b = lin(t[1]), lin(t[2])
        if a is None or b is None:
            return None
        out = dict(a)
        for key, c in b.items():
            out[key] = out.get(key, 0) + (c if h == '+' else -c)
        return {key: c for key, c in out.items() if c != 0 or key == 1}
    if h == 'neg':
        a = lin(t[1])
        return None if a is None else {key: -c for key, c in a.items()}
    if h == '*':
        a, b = lin(t[1]), lin(t[2])
        if a is None or b is None:
            return None
        if set(a) <= {1}:
            c = a.get(1, 0)
            return {key: c * x for key, x in b.items() if c * x != 0 or key == 1}
        if set(b) <= {1}:
            c = b.get(1, 0)
            return {key: c * x for key, x in a.items() if c * x != 0 or key == 1}
        return None
    return None


def from_lin(d):
    t = None
    for key in sorted((x for x in d if x != 1), key=str):
        c = d[key]
        if c == 0:
            continue
        atom = key if isinstance(key, tuple) else V(key)
        term = atom if c in (1, -1) else ('*', K(abs(c)), atom)
        if t is None:
            t = term if c > 0 else ('neg', term)
        else:
            t = ('+', t, term) if c > 0 else ('-', t, term)
    c = d.get(1, 0)
    if t is None:
        return K(c)
    if c > 0:
        return ('+', t, K(c))
    if c < 0:
        return ('-', t, K(-c))
    return t


def simp(t):
    """canonical form of linear terms (other terms are returned as they are)"""
    d = lin(t)
    return from_lin(d) if d is not None else t


def add(a, b):
    if is_k(a) and is_k(b):
        return K(a[1] + b[1])
    if a == ZERO:
        return b
    if b == ZERO:
        return a
    return simp(('+', a, b))


def sub(a, b):
    if is_k(a) and is_k(b):
        return K(a[1] - b[1])
    if b == ZERO:
        return a
    return simp(('-', a, b))


def mul(a, b):
    if is_k(a) and is_k(b):
        return K(a[1] * b[1])
    if a == ZERO or b == ZERO:
        return ZERO
    if a == ONE:
        return b
    if b == ONE:
        return a
    return simp(('*', a, b))


def floordiv(a, b):
    if is_k(a) and is_k(b):
        if b[1] == 0:
            raise Unsupported('division by zero')
        return K(a[1] // b[1])
    if b == ONE:
        return a
    return ('//', a, b)


def mod(a, b):
    if is_k(a) and is_k(b):
        if b[1] == 0:
            raise Unsupported('modulo zero')
        return K(a[1] % b[1])
    return ('%', a, b)


def neg(a):
    return sub(ZERO, a)


def cmp(op, a, b):
    if is_k(a) and is_k(b):
        return K(int(_CMP[op](a[1], b[1])))
    d = lin(sub(a, b))
    if d is not None and set(d) <= {1}:
        return K(int(_CMP[op](d.get(1, 0), 0)))
    return ('cmp', op, a, b)


_CMP = {'==': lambda x, y: x == y, '!=': lambda x, y: x != y, '<': lambda x, y: x < y, '<=': lambda x, y: x <= y,
        '>': lambda x, y: x > y, '>=': lambda x, y: x >= y}


def truth(t):
    """term -> 0/1 term of its python truthiness"""
    if is_k(t):
        return K(int(t[1] != 0))
    if t[0] in ('cmp', 'not', 'and', 'or', 'truth'):
        return t
    return ('cmp', '!=', t, ZERO)


def not_(t):
    t = truth(t)
    if is_k(t):
        return K(1 - t[1])
    if t[0] == 'not':
        return t[1]
    return ('not', t)


def ite(c, a, b):
    c = truth(c)
    if is_k(c):
        return a if c[1] else b
    if a == b:
        return a
    return ('ite', c, a, b)


def tab(items, idx):
    items = tuple(items)
    if is_k(idx):
        if not -len(items) <= idx[1] < len(items):
            raise Unsupported('constant index out of range')
        return items[idx[1]]
    if all(x == items[0] for x in items):
        return items[0]
    if idx[0] == 'tab' and all(is_k(x) and -len(items) <= x[1] < len(items) for x in idx[1]):
        return tab(tuple(items[x[1]] for x in idx[1]), idx[2])
    if idx[0] == 'ite' and all(is_k(x) and -len(items) <= x[1] < len(items) for x in idx[2:]):
        return ite(idx[1], items[idx[2][1]], items[idx[3][1]])
    return ('tab', items, idx)


def subst(t, mapping):
    """replace sub-terms (keys of mapping) by terms"""
    if t in mapping:
        return mapping[t]
    h = t[0]
    if h in ('k', 'v', 'cur', 'inf'):
        return t
    if h == 'cmp':
        return cmp(t[1], subst(t[2], mapping), subst(t[3], mapping))
    if h == 'tab':
        return tab(tuple(subst(x, mapping) for x in t[1]), subst(t[2], mapping))
    if h == 'sum':
        return ('sum', t[1], subst(t[2], mapping), subst(t[3], mapping))
    args = [subst(x, mapping) for x in t[1:]]
    return build(h, args)


def build(h, args):
    if h == '+':
        return add(*args)
    if h == '-':
        return sub(*args)
    if h == '*':
        return mul(*args)
    if h == '//':
        return floordiv(*args)
    if h == '%':
        return mod(*args)
    if h == 'neg':
        return neg(*args)
    if h == 'not':
        return not_(*args)
    if h == 'ite':
        return ite(*args)
    if h == 'and':
        a, b = args
        return ite(a, b, a)
    if h == 'or':
        a, b = args
        return ite(a, a, b)
    if h in ('min', 'max', 'abs', 'dsum', 'D', 'truth', 'bxor', 'band', 'bor'):
        if h != 'D' and all(is_k(x) for x in args):
            return K(evaluate((h,) + tuple(args), {}))
        return (h,) + tuple(args)
    raise Unsupported(f'term head {h}')


def walk(t):
    yield t
    h = t[0]
    if h in ('k', 'v', 'cur', 'inf'):
        return
    if h == 'cmp':
        kids = t[2:]
    elif h == 'tab':
        kids = t[1] + (t[2],)
    elif h == 'sum':
        kids = t[2:]
    else:
        kids = t[1:]
    for x in kids:
        yield from walk(x)


def free_vars(t, bound=()):
    h = t[0]
    if h == 'v':
        return set() if t[1] in bound else {t[1]}
    if h in ('k', 'cur', 'inf'):
        return set()
    if h == 'sum':
        return free_vars(t[2], bound) | free_vars(t[3], tuple(bound) + (t[1],))
    if h == 'cmp':
        kids = t[2:]
    elif h == 'tab':
        kids = t[1] + (t[2],)
    else:
        kids = t[1:]
    out = set()
    for x in kids:
        out |= free_vars(x, bound)
    return out


def evaluate(t, env, digit=None):
    """concrete value of a closed form (a term, not the program)"""
    h = t[0]
    if h == 'k':
        return t[1]
    if h == 'v':
        return env[t[1]]
    if h == 'D':
        return digit(evaluate(t[1], env, digit))
    ev = lambda x: evaluate(x, env, digit)     # noqa
    if h == '+':
        return ev(t[1]) + ev(t[2])
    if h == '-':
        return ev(t[1]) - ev(t[2])
    if h == '*':
        return ev(t[1]) * ev(t[2])
    if h == '//':
        return ev(t[1]) // ev(t[2])
    if h == '%':
        return ev(t[1]) % ev(t[2])
    if h == 'neg':
        return -ev(t[1])
    if h == 'cmp':
        return int(_CMP[t[1]](ev(t[2]), ev(t[3])))
    if h == 'not':
        return int(not ev(t[1]))
    if h == 'truth':
        return int(bool(ev(t[1])))
    if h == 'ite':
        return ev(t[2]) if ev(t[1]) else ev(t[3])
    if h == 'tab':
        return ev(t[1][ev(t[2])])
    if h == 'min':
        return min(ev(t[1]), ev(t[2]))
    if h == 'max':
        return max(ev(t[1]), ev(t[2]))
    if h == 'abs':
        return abs(ev(t[1]))
    if h == 'dsum':
        return sum(int(c) for c in str(ev(t[1])))
    if h == 'bxor':
        return ev(t[1]) ^ ev(t[2])
    if h == 'band':
        return ev(t[1]) & ev(t[2])
    if h == 'bor':
        return ev(t[1]) | ev(t[2])
    if h == 'sum':
        total = 0
        for i in range(max(0, ev(t[2]))):
            total += evaluate(t[3], {**env, t[1]: i}, digit)
        return total
    raise Unsupported(f'evaluate {h}')


def bounds(t):
    """interval of a term: digits are 0..9, counts and index variables are >= 0"""
    h = t[0]
    if h == 'k':
        return t[1], t[1]
    if h == 'D':
        return 0, 9
    if h in ('v', 'sum'):
        return 0, None
    if h in ('cmp', 'not', 'truth'):
        return 0, 1
    if h == 'cur':
        return None, None
    if h in ('ite',):
        a, b = bounds(t[2]), bounds(t[3])
        c = t[1]
        # (p if x != 0 else x): the else arm is 0
        if c[0] == 'cmp' and c[1] == '!=' and c[3] == ZERO and t[3] == c[2]:
            b = (0, 0)
        if c[0] == 'cmp' and c[1] == '==' and c[3] == ZERO and t[2] == c[2]:
            a = (0, 0)
        return _lo(min, a[0], b[0]), _lo(max, a[1], b[1])
    if h == 'tab':
        bs = [bounds(x) for x in t[1]]
        lo = None if any(b[0] is None for b in bs) else min(b[0] for b in bs)
        hi = None if any(b[1] is None for b in bs) else max(b[1] for b in bs)
        return lo, hi
    if h == '+':
        a, b = bounds(t[1]), bounds(t[2])
        return _lo(lambda x, y: x + y, a[0], b[0]), _lo(lambda x, y: x + y, a[1], b[1])
    if h == '-':
        a, b = bounds(t[1]), bounds(t[2])
        return _lo(lambda x, y: x - y, a[0], b[1]), _lo(lambda x, y: x - y, a[1], b[0])
    if h == 'neg':
        a = bounds(t[1])
        return (None if a[1] is None else -a[1]), (None if a[0] is None else -a[0])
    if h == '*':
        a, b = bounds(t[1]), bounds(t[2])
        if None in a or None in b:
            if a[0] is not None and b[0] is not None and a[0] >= 0 and b[0] >= 0:
                return a[0] * b[0], None
            return None, None
        c = [x * y for x in a for y in b]
        return min(c), max(c)
    if h == '//' and is_k(t[2]) and t[2][1] > 0:
        a = bounds(t[1])
        return (None if a[0] is None else a[0] // t[2][1]), (None if a[1] is None else a[1] // t[2][1])
    if h == '%' and is_k(t[2]) and t[2][1] > 0:
        a = bounds(t[1])
        if a[0] is not None and a[1] is not None and a[0] >= 0 and a[1] < t[2][1]:
            return a
        return 0, t[2][1] - 1
    if h == 'dsum':
        return 0, None
    if h in ('min', 'max'):
        a, b = bounds(t[1]), bounds(t[2])
        f = min if h == 'min' else max
        return _lo(f, a[0], b[0]), _lo(f, a[1], b[1])
    return None, None


def _lo(f, x, y):
    return None if x is None or y is None else f(x, y)


def show(t):
    h = t[0]
    if h == 'k':
        return str(t[1])
    if h == 'v':
        return t[1]
    if h == 'D':
        return f'D[{show(t[1])}]'
    if h in ('+', '-', '*', '//', '%'):
        return f'({show(t[1])} {h} {show(t[2])})'
    if h == 'cmp':
        return f'({show(t[2])} {t[1]} {show(t[3])})'
    if h == 'ite':
        return f'({show(t[2])} if {show(t[1])} else {show(t[3])})'
    if h == 'tab':
        return '[' + ', '.join(show(x) for x in t[1]) + f'][{show(t[2])}]'
    if h == 'sum':
        return f'sum({show(t[3])} for {t[1]} in range({show(t[2])}))'
    if h == 'cur':
        return f'<{t[1]}>'
    return h + '(' + ', '.join(show(x) for x in t[1:]) + ')'


# ---------------------------------------------------------------------------------------------- values
class Val:
    pass


class IntVal(Val):
    def __init__(self, t, is_bool=False):
        self.t = t
        self.is_bool = is_bool

    def __repr__(self):
        return f'Int<{show(self.t)}>'


class NoneVal(Val):
    def __repr__(self):
        return 'None'


class StrLit(Val):
    def __init__(self, s):
        self.s = s

    def __repr__(self):
        return repr(self.s)


class CharDigit(Val):
    """a one-character string that is the decimal digit `t`"""
    def __init__(self, t):
        self.t = t

    def __repr__(self):
        return f'Digit<{show(self.t)}>'


class StrOfInt(Val):
    """str(t)"""
    def __init__(self, t):
        self.t = t

    def __repr__(self):
        return f'str<{show(self.t)}>'


class RawStr(Val):
    """the argument: n digit characters and k others, in unknown positions.  reversed: iterated right to left."""
    def __init__(self, kvar='k', reversed_=False, pristine=True):
        self.kvar = kvar
        self.reversed = reversed_
        self.pristine = pristine

    def __repr__(self):
        return f'Raw<{self.kvar}{" reversed" if self.reversed else ""}>'


class RawChar(Val):
    def __repr__(self):
        return 'RawChar'


class TupleVal(Val):
    def __init__(self, items):
        self.items = list(items)

    def __repr__(self):
        return '(' + ', '.join(map(repr, self.items)) + ')'


class Fam(Val):
    """indexed family: element fn(i) for 0 <= i < count (count: term or INF); kind: list|tuple|str|iter"""
    def __init__(self, count, fn, kind='list', int_src=None, raw_filter=None):
        self.count = count
        self.fn = fn
        self.kind = kind
        self.int_src = int_src        # the decimal digits of this integer term (str(x) iterated)

    def __repr__(self):
        return f'Fam<{self.kind} count={show(self.count) if self.count != INF else "inf"}>'


class FilteredFam(Val):
    """(fn(i) for i < count if keep(i)): consumed by sum() and len() only"""
    def __init__(self, count, fn, keep):
        self.count = count
        self.fn = fn
        self.keep = keep


class Items(Val):
    """a concrete python sequence of values"""
    def __init__(self, items, kind='list'):
        self.items = list(items)
        self.kind = kind

    def __repr__(self):
        return f'{self.kind}{self.items!r}'


class FuncVal(Val):
    def __init__(self, node, env, name='<lambda>', module=None, bound=None):
        self.node = node
        self.env = env
        self.name = name
        self.module = module
        self.bound = bound


class PartialFn(Val):
    def __init__(self, fn, args, kwargs):
        self.fn = fn
        self.args = list(args)
        self.kwargs = dict(kwargs)


class Builtin(Val):
    def __init__(self, name):
        self.name = name

    def __repr__(self):
        return f'<builtin {self.name}>'


class BoundMethod(Val):
    def __init__(self, recv, name):
        self.recv = recv
        self.name = name


class ObjVal(Val):
    _ids = itertools.count(1)

    def __init__(self, ci):
        self.ci = ci
        self.oid = next(ObjVal._ids)

    def __repr__(self):
        return f'<{self.ci.name} object>'


class ClassVal(Val):
    def __init__(self, ci):
        self.ci = ci


class Poison(Val):
    """a variable whose value after a loop is not tracked"""
    def __init__(self, why):
        self.why = why


BUILTINS = {'int', 'str', 'len', 'sum', 'divmod', 'zip', 'enumerate', 'reversed', 'range', 'list', 'tuple', 'map',
            'filter', 'min', 'max', 'abs', 'bool', 'iter', 'sorted'}
EXT = {'itertools.cycle': 'cycle', 'functools.reduce': 'reduce', 'functools.partial': 'partial', 're.sub': 're.sub', 'itertools.islice': 'islice',
       'itertools.chain': 'chain', 'string.digits': 'string.digits', 'operator.add': 'operator.add',
       'itertools.accumulate': 'accumulate', 'math.ceil': 'ceil'}


def _gcd(a, b):
    while b:
        a, b = b, a % b
    return a


def _has_return(stmts):
    stack = list(stmts)
    while stack:
        n = stack.pop()
        if isinstance(n, ast.Return):
            return True
        if isinstance(n, (ast.FunctionDef, ast.Lambda, ast.ClassDef)):
            continue
        stack.extend(ast.iter_child_nodes(n))
    return False


def _has_yield(fnode):
    stack = list(fnode.body) if not isinstance(fnode, ast.Lambda) else []
    while stack:
        n = stack.pop()
        if isinstance(n, (ast.Yield, ast.YieldFrom)):
            return True
        if isinstance(n, (ast.FunctionDef, ast.Lambda, ast.ClassDef)):
            continue
        stack.extend(ast.iter_child_nodes(n))
    return False


# ---------------------------------------------------------------------------------------------- linear facts
class Facts:
    """conjunction of linear facts  L >= 0  used to place indices (a tiny Fourier-Motzkin-free prover)."""
    def __init__(self):
        self.cons = []          # list of lin dicts known >= 0

    def copy(self):
        f = Facts()
        f.cons = list(self.cons)
        return f

    def assume(self, t):
        d = lin(t)
        if d is not None:
            self.cons.append(d)

    def prove_ge0(self, t):
        d = lin(t)
        if d is None:
            return False
        return self._prove(d)

    def _prove(self, d):
        if set(k_ for k_, c in d.items() if c != 0) <= {1}:
            return d.get(1, 0) >= 0
        # d = sum lambda_c * c + nonneg const, lambda in {0, 1, 2}, at most 3 constraints used
        cons = self.cons
        for r in (1, 2, 3):
            for combo in itertools.combinations(range(len(cons)), r):
                for lam in itertools.product((1, 2), repeat=r):
                    rest = dict(d)
                    for idx, l in zip(combo, lam):
                        for key, c in cons[idx].items():
                            rest[key] = rest.get(key, 0) - l * c
                    if all(c == 0 for key, c in rest.items() if key != 1) and rest.get(1, 0) >= 0:
                        return True
        return False


# ---------------------------------------------------------------------------------------------- evaluator
class Env(dict):
    pass


class FoldEval:
    def __init__(self, prog, module):
        self.prog = prog
        self.module = module
        self.counter = itertools.count(1)
        self.facts = Facts()
        self.facts.assume(V('n'))
        self.facts.assume(V('k'))
        self.depth = 0
        self.pending_ranges = []  # (('cur', x), n): x must stay within 0..n-1
        self.heap = {}            # (object id, attribute) -> Val
        self.cps = 0              # inside a branch that is run in continuation passing style (heap writes not merged)
        self.branching = 0
        self.raw_pristine_used = True
        self.notes = []

    def fresh(self, base):
        return f'{base}{next(self.counter)}'

    # ---------------------------------------------------------------- function entry
    def call_def(self, fnode, args, module, closure=None, kwargs=None):
        if self.depth > 8:
            raise Unsupported('call depth')
        env = Env(closure or {})
        params = [a.arg for a in fnode.args.args]
        if fnode.args.vararg or fnode.args.kwarg or fnode.args.kwonlyargs or fnode.args.posonlyargs:
            raise Unsupported('parameter kinds')
        defaults = fnode.args.defaults
        dstart = len(params) - len(defaults)
        kwargs = dict(kwargs or {})
        for i, prm in enumerate(params):
            if i < len(args):
                env[prm] = args[i]
            elif prm in kwargs:
                env[prm] = kwargs.pop(prm)
            elif i >= dstart:
                env[prm] = self.eval(defaults[i - dstart], Env())
            else:
                raise Unsupported(f'missing argument {prm}')
        if kwargs or len(args) > len(params):
            raise Unsupported('argument mismatch')
        saved = self.module
        self.module = module
        self.depth += 1
        try:
            if isinstance(fnode, ast.Lambda):
                return self.eval(fnode.body, env)
            if _has_yield(fnode):
                return self.generator(fnode, env)
            return self.run(list(fnode.body), env, lambda e: NoneVal())
        finally:
            self.depth -= 1
            self.module = saved

    def generator(self, fnode, env):
        """def g(...): <assignments>; for t in it: <straight line>; yield expr   ->  indexed family"""
        body = [st for st in fnode.body if not (isinstance(st, ast.Expr) and isinstance(st.value, ast.Constant))]
        pre, loop = body[:-1], body[-1] if body else None
        if not (isinstance(loop, ast.For) and not loop.orelse and loop.body and isinstance(loop.body[-1], ast.Expr)
                and isinstance(loop.body[-1].value, ast.Yield) and loop.body[-1].value.value is not None):
            raise Unsupported('generator shape')
        inner = loop.body[:-1]
        for n_ in ast.walk(ast.Module(body=pre + inner, type_ignores=[])):
            if isinstance(n_, (ast.Yield, ast.YieldFrom, ast.Return, ast.For, ast.While, ast.Break, ast.Continue)):
                raise Unsupported('generator shape')
        env = self.run(pre, env, lambda e: e)
        if not isinstance(env, Env):
            raise Unsupported('generator prologue')
        src = self.eval(loop.iter, env)
        if isinstance(src, RawStr):
            raise Unsupported('generator over the raw argument')
        fam = self.to_fam(src)
        module = self.module

        def fn(i, fam=fam, env=env):
            saved = self.module
            self.module = module
            try:
                e = Env(env)
                self.assign(loop.target, fam.fn(i), e)
                e = self.run(list(inner), e, lambda x: x)
                return self.eval(loop.body[-1].value.value, e)
            finally:
                self.module = saved
        return Fam(fam.count, fn, 'iter')

    # ---------------------------------------------------------------- statements (continuation passing)
    def run(self, stmts, env, k):
        """execute stmts then continue with k(env); returns the function's return value (or k's result)."""
        if not stmts:
            return k(env)
        st, rest = stmts[0], stmts[1:]
        if isinstance(st, ast.Return):
            return self.eval(st.value, env) if st.value is not None else NoneVal()
        if isinstance(st, ast.Pass):
            return self.run(rest, env, k)
        if isinstance(st, ast.Expr):
            if isinstance(st.value, ast.Constant):
                return self.run(rest, env, k)
            if isinstance(st.value, ast.Call) and isinstance(st.value.func, ast.Attribute) and \
                    isinstance(st.value.func.value, ast.Name) and st.value.func.value.id in ('LOGGER', 'logger', 'logging'):
                return self.run(rest, env, k)
            if isinstance(st.value, ast.Call) and isinstance(st.value.func, ast.Attribute) and st.value.func.attr == 'reverse' \
                    and isinstance(st.value.func.value, ast.Name) and not st.value.args:
                name = st.value.func.value.id
                cur = self.load(name, env)
                env = Env(env)
                env[name] = self.b_list([self.b_reversed([cur], {})], {}) if not isinstance(cur, Items) else Items(cur.items[::-1])
                return self.run(rest, env, k)
            if isinstance(st.value, ast.Call):
                # a call for its effect on an object (e.g. accumulator.feed(x)): the result is dropped
                self.eval(st.value, env)
                return self.run(rest, env, k)
            raise Unsupported(f'expression statement {ast.unparse(st)[:60]}')
        if isinstance(st, ast.Assign):
            v = self.eval(st.value, env)
            env = Env(env)
            for t in st.targets:
                self.assign(t, v, env)
            return self.run(rest, env, k)
        if isinstance(st, ast.AnnAssign):
            if st.value is None:
                return self.run(rest, env, k)
            env = Env(env)
            self.assign(st.target, self.eval(st.value, env), env)
            return self.run(rest, env, k)
        if isinstance(st, ast.AugAssign):
            if isinstance(st.target, ast.Attribute):
                cur = self.eval(ast.Attribute(value=st.target.value, attr=st.target.attr, ctx=ast.Load()), env)
                self.assign(st.target, self.binop(st.op, cur, self.eval(st.value, env)), env)
                return self.run(rest, env, k)
            if not isinstance(st.target, ast.Name):
                raise Unsupported('augmented assignment target')
            cur = self.load(st.target.id, env)
            v = self.binop(st.op, cur, self.eval(st.value, env))
            env = Env(env)
            env[st.target.id] = v
            return self.run(rest, env, k)
        if isinstance(st, ast.If):
            c = self.cond(self.eval(st.test, env))
            if is_k(c):
                return self.run(list(st.body if c[1] else st.orelse) + rest, env, k)
            if not _has_return(st.body) and not _has_return(st.orelse):
                # both arms fall through: run them separately, join variables and object fields, then go on once
                h0 = dict(self.heap)
                ea = self.run(list(st.body), Env(env), lambda e: e)
                ha, self.heap = self.heap, dict(h0)
                eb = self.run(list(st.orelse), Env(env), lambda e: e)
                hb = self.heap
                joined = self.merge(c, ea, eb)
                self.heap = {}
                for key in set(ha) | set(hb):
                    if key in ha and key in hb:
                        self.heap[key] = self.merge(c, ha[key], hb[key])
                    else:
                        self.heap[key] = Poison(f'attribute {key[1]} assigned on one branch only')
                return self.run(rest, joined, k)
            self.cps += 1
            h0 = dict(self.heap)
            try:
                a = self.run(list(st.body) + rest, Env(env), k)
                self.heap = dict(h0)
                b = self.run(list(st.orelse) + rest, Env(env), k)
            finally:
                self.cps -= 1
            return self.merge(c, a, b)
        if isinstance(st, ast.For):
            if st.orelse:
                raise Unsupported('for-else')
            env = self.exec_for(st, env)
            return self.run(rest, env, k)
        if isinstance(st, ast.While):
            if st.orelse or _has_return(st.body):
                raise Unsupported('while loop with else / return')
            for n_ in ast.walk(ast.Module(body=st.body, type_ignores=[])):
                if isinstance(n_, (ast.Break, ast.Continue, ast.Yield, ast.YieldFrom, ast.Try, ast.With, ast.While, ast.For)):
                    raise Unsupported(f'{type(n_).__name__} inside a while loop')
            # bounded unrolling: accepted only when the condition is provably false after at most 4 iterations
            unrolled = None
            for depth in range(0, 5):
                tail = None
                for _ in range(depth):
                    tail = [ast.If(test=st.test, body=list(st.body) + (tail or []), orelse=[])]
                probe = self.run(tail or [], Env(env), lambda e: e) if tail else env
                c = self.cond(self.eval(st.test, probe))
                lo, hi = bounds(c)
                if is_k(c) and c[1] == 0 or (lo == 0 and hi == 0):
                    unrolled = tail or []
                    break
                # the condition  x != 0  with x provably 0
                if c[0] == 'cmp' and c[1] == '!=' and c[3] == ZERO and bounds(c[2]) == (0, 0):
                    unrolled = tail or []
                    break
            if unrolled is None:
                raise Unsupported('while loop not provably finished after 4 iterations')
            return self.run(unrolled + rest, env, k)
        if isinstance(st, (ast.Import, ast.ImportFrom)):
            raise Unsupported('local import')
        raise Unsupported(f'statement {type(st).__name__}')

    def merge(self, c, a, b):
        if isinstance(a, Env) and isinstance(b, Env):
            out = Env()
            for key in set(a) | set(b):
                if key in a and key in b:
                    out[key] = self.merge(c, a[key], b[key])
                else:
                    out[key] = Poison(f'{key} assigned on one branch only')
            return out
        if a is b:
            return a
        if isinstance(a, IntVal) and isinstance(b, IntVal):
            return IntVal(ite(c, a.t, b.t), a.is_bool and b.is_bool)
        if isinstance(a, StrOfInt) and isinstance(b, StrOfInt):
            return StrOfInt(ite(c, a.t, b.t))
        if isinstance(a, CharDigit) and isinstance(b, CharDigit):
            return CharDigit(ite(c, a.t, b.t))
        for x, y in ((a, b), (b, a)):
            # '7' and str(t): both render a one digit number
            if isinstance(x, StrLit) and x.s.isdigit() and len(x.s) == 1 and isinstance(y, (StrOfInt, CharDigit)):
                xa = StrOfInt(K(int(x.s)))
                return self.merge(c, xa, y) if x is a else self.merge(c, y, xa)
        if isinstance(a, (StrOfInt, CharDigit)) and isinstance(b, (StrOfInt, CharDigit)):
            return StrOfInt(ite(c, a.t, b.t))
        if isinstance(a, TupleVal) and isinstance(b, TupleVal) and len(a.items) == len(b.items):
            return TupleVal([self.merge(c, x, y) for x, y in zip(a.items, b.items)])
        if isinstance(a, StrLit) and isinstance(b, StrLit) and a.s == b.s:
            return a
        if isinstance(a, NoneVal) and isinstance(b, NoneVal):
            return a
        if isinstance(a, Poison):
            return a
        if isinstance(b, Poison):
            return b
        if isinstance(a, (Fam, Items, RawStr, FuncVal, ObjVal, ClassVal)) and a is not b:
            return Poison('different containers on the two branches')
        raise Unsupported(f'cannot merge {a!r} and {b!r}')

    def assign(self, target, v, env):
        if isinstance(target, ast.Name):
            env[target.id] = v
            return
        if isinstance(target, (ast.Tuple, ast.List)):
            items = self.unpack(v, len(target.elts))
            for t, x in zip(target.elts, items):
                self.assign(t, x, env)
            return
        if isinstance(target, ast.Attribute):
            recv = self.eval(target.value, env)
            if isinstance(recv, ObjVal):
                if self.cps:
                    raise Unsupported('attribute assignment on a path that returns early under a symbolic condition')
                self.heap[(recv.oid, target.attr)] = v
                return
        raise Unsupported(f'assignment target {type(target).__name__}')

    def unpack(self, v, n):
        if isinstance(v, (TupleVal, Items)) and len(v.items) == n:
            return list(v.items)
        raise Unsupported(f'cannot unpack {v!r} into {n}')

    # ---------------------------------------------------------------- loops
    def _digit_guard(self, st, env):
        """for ch in <raw>: recognise the guard that selects the digit characters -> body run for digits only, or None"""
        if not (isinstance(st.target, ast.Name) and st.body):
            return None
        var = st.target.id
        first = st.body[0]
        if isinstance(first, ast.If) and not first.orelse and len(first.body) == 1 and isinstance(first.body[0], ast.Continue) \
                and isinstance(first.test, ast.UnaryOp) and isinstance(first.test.op, ast.Not) and \
                self.is_digit_filter(first.test.operand, var, env):
            return list(st.body[1:])
        if len(st.body) == 1 and isinstance(first, ast.If) and not first.orelse and self.is_digit_filter(first.test, var, env):
            return list(first.body)
        return None

    def exec_for(self, st, env):
        body = list(st.body)
        src = self.eval(st.iter, env)
        if isinstance(src, RawStr):
            body = self._digit_guard(st, env)
            if body is None:
                raise Unsupported('the argument is iterated without selecting exactly its digit characters')
            fam = self.digits_of_raw(src, lambda ch: ch)
        else:
            fam = self.to_fam(src)
        if fam.count == INF:
            raise Unsupported('loop over an infinite iterator')
        if fam.int_src is not None:
            raise Unsupported('loop over the characters of str(int)')
        for n_ in ast.walk(ast.Module(body=body, type_ignores=[])):
            if isinstance(n_, (ast.Break, ast.Continue, ast.Return, ast.While, ast.Yield, ast.YieldFrom, ast.Try, ast.With)):
                raise Unsupported(f'{type(n_).__name__} inside a loop body')
        i = self.fresh('i')
        assigned = set()
        for n_ in ast.walk(ast.Module(body=body, type_ignores=[])):
            if isinstance(n_, ast.Name) and isinstance(n_.ctx, ast.Store):
                assigned.add(n_.id)
        targets = {n_.id for n_ in ast.walk(st.target) if isinstance(n_, ast.Name)}
        carried = sorted(x for x in assigned if x in env and x not in targets)
        benv = Env(env)
        for x in carried:
            if not isinstance(env[x], IntVal):
                raise Unsupported(f'loop-carried variable {x} is not an integer')
            benv[x] = IntVal(('cur', x), env[x].is_bool)
        # integer attributes of objects may be updated by methods called in the body
        heap0 = dict(self.heap)
        hkeys = sorted((key for key, v in heap0.items() if isinstance(v, IntVal)), key=str)
        for key in hkeys:
            self.heap[key] = IntVal(('cur', key), heap0[key].is_bool)
        saved = self.facts
        self.facts = saved.copy()
        self.assume_index(i, fam.count)
        try:
            self.assign(st.target, fam.fn(V(i)), benv)
            after = self.run(body, benv, lambda e: e)
        finally:
            self.facts = saved
        if not isinstance(after, Env):
            raise Unsupported('loop body does not fall through')
        heap1 = self.heap
        self.heap = dict(heap0)
        for key, v in heap1.items():
            if key not in heap0:
                self.heap[key] = Poison(f'attribute {key[1]} is first assigned inside a loop')
            elif key not in hkeys and v is not heap0[key]:
                raise Unsupported(f'attribute {key[1]} (not an integer) is assigned inside a loop')
        start_val = {}
        new = {}
        isb = {}
        for x in carried:
            v = after.get(x)
            if not isinstance(v, IntVal):
                raise Unsupported(f'loop-carried variable {x} becomes {v!r}')
            new[x], start_val[x], isb[x] = v.t, env[x].t, env[x].is_bool
        for key in hkeys:
            v = heap1.get(key)
            if not isinstance(v, IntVal):
                raise Unsupported(f'attribute {key[1]} becomes {v!r} inside a loop')
            new[key], start_val[key], isb[key] = v.t, heap0[key].t, heap0[key].is_bool
        names = list(carried) + hkeys
        # state variables with a short period: the new value is a function of the old value alone
        closed = {}
        for x in names:
            t = new[x]
            cur = ('cur', x)
            if t == cur:
                continue
            if any(y[0] == 'cur' and y != cur for y in walk(t)) or free_vars(t) or any(y[0] in ('D', 'sum') for y in walk(t)):
                continue
            if not any(y == cur for y in walk(t)):
                continue
            if self.minus_cur(t, x) is not None:
                continue
            x0 = start_val[x]
            if is_k(x0):
                starts, sel = [x0[1]], None
            elif x0[0] == '%' and is_k(x0[2]) and 1 <= x0[2][1] <= 4:
                starts, sel = list(range(x0[2][1])), x0
            elif x0[0] in ('cmp', 'not'):
                starts, sel = [0, 1], x0
            else:
                continue
            orbits = []
            for v0 in starts:
                orbit = [v0]
                ok = False
                for _ in range(4):
                    nxt = evaluate(subst(t, {cur: K(orbit[-1])}), {})
                    if nxt == orbit[0]:
                        ok = True
                        break
                    if nxt in orbit:
                        break
                    orbit.append(nxt)
                if not ok:
                    orbits = None
                    break
                orbits.append(orbit)
            if orbits is None:
                continue
            period = 1
            for o in orbits:
                period = period * len(o) // _gcd(period, len(o))
            if period > 4:
                continue
            closed[x] = (orbits, sel, period)

        for cur_t, bound in self.pending_ranges:
            x = cur_t[1]
            if x not in closed or not all(0 <= v < bound for o in closed[x][0] for v in o):
                raise Unsupported(f'{x} indexes a table of {bound} entries but is not known to stay in range')
        self.pending_ranges = []

        def at(x, pos):
            orbits, sel, period = closed[x]
            rows = [tab(tuple(K(o[r % len(o)]) for r in range(period)), mod(pos, K(period))) for o in orbits]
            return rows[0] if sel is None else tab(tuple(rows), sel)
        out = Env(env)
        mapping = {('cur', x): at(x, V(i)) for x in closed}
        result = {}
        for x in names:
            t = new[x]
            if t == ('cur', x):
                continue
            if x in closed:
                result[x] = IntVal(at(x, fam.count), isb[x])
                continue
            c = self.minus_cur(t, x)
            if c is None and t[0] == '%' and is_k(t[2]) and t[2][1] > 0 and is_k(start_val[x]) and \
                    0 <= start_val[x][1] < t[2][1]:
                # running remainder: ((a % m) + b) % m == (a + b) % m
                c = self.minus_cur(t[1], x)
                if c is not None:
                    c = subst(c, mapping)
                    if any(y[0] == 'cur' for y in walk(c)):
                        raise Unsupported(f'increment of {x} depends on another accumulator')
                    result[x] = IntVal(mod(add(start_val[x], self.make_sum(i, fam.count, c)), t[2]))
                    continue
            if c is None:
                raise Unsupported(f'loop-carried variable {x} is neither an accumulator nor periodic: {show(t)[:80]}')
            c = subst(c, mapping)
            if any(y[0] == 'cur' for y in walk(c)):
                raise Unsupported(f'increment of {x} depends on another accumulator')
            result[x] = IntVal(add(start_val[x], self.make_sum(i, fam.count, c)))
        for x, v in result.items():
            if x in hkeys:
                self.heap[x] = v
            else:
                out[x] = v
        for x in assigned | targets:
            if x not in carried:
                out[x] = Poison(f'{x} is assigned inside a loop')
        return out

    def assume_index(self, i, count):
        """0 <= i < count as linear facts (count may be L // m)"""
        self.facts.assume(V(i))
        if lin(count) is not None:
            self.facts.assume(sub(sub(count, ONE), V(i)))
        elif count[0] == '//' and is_k(count[2]) and count[2][1] > 0 and lin(count[1]) is not None:
            m = count[2][1]
            # i <= L // m - 1  ==>  m * i <= L - m
            self.facts.assume(sub(sub(count[1], K(m)), mul(K(m), V(i))))

    def make_sum(self, i, count, body):
        if body == ZERO:
            return ZERO
        if is_k(count):
            total = ZERO
            for j in range(max(0, count[1])):
                total = add(total, subst(body, {V(i): K(j)}))
            return total
        return ('sum', i, count, body)

    def minus_cur(self, t, x):
        """t == cur(x) + C  ->  C (free of cur(x)), else None"""
        cur = ('cur', x)
        has = lambda u: any(y == cur for y in walk(u))     # noqa
        if t == cur:
            return ZERO
        if not has(t):
            return None
        d = lin(t)
        if d is not None:
            if d.get(cur, 0) == 1:
                return from_lin({key: c for key, c in d.items() if key != cur})
            return None
        h = t[0]
        if h == '+':
            a, b = t[1], t[2]
            if has(a) and not has(b):
                c = self.minus_cur(a, x)
                return None if c is None else add(c, b)
            if has(b) and not has(a):
                c = self.minus_cur(b, x)
                return None if c is None else add(a, c)
            return None
        if h == '-':
            a, b = t[1], t[2]
            if has(a) and not has(b):
                c = self.minus_cur(a, x)
                return None if c is None else sub(c, b)
            return None
        if h == 'ite':
            if has(t[1]):
                return None
            a, b = self.minus_cur(t[2], x), self.minus_cur(t[3], x)
            if a is None or b is None:
                return None
            return ite(t[1], a, b)
        return None

    # ---------------------------------------------------------------- expressions
    def load(self, name, env):
        if name in env:
            v = env[name]
            if isinstance(v, Poison):
                raise Unsupported(v.why)
            return v
        r = self.prog.resolve_name(self.module, name) if self.module is not None else None
        if r is not None:
            if r[0] == 'func':
                return FuncVal(r[1].node, Env(), r[1].short, r[1].module)
            if r[0] == 'class':
                return ClassVal(r[1])
            if r[0] == 'const':
                saved = self.module
                self.module = r[2]
                try:
                    return self.eval(r[1], Env())
                finally:
                    self.module = saved
            if r[0] == 'ext':
                if r[1] in EXT:
                    return Builtin(EXT[r[1]])
                return Builtin('ext:' + r[1])
        if name in BUILTINS:
            return Builtin(name)
        if name in ('True', 'False'):
            return IntVal(K(int(name == 'True')), True)
        raise Unsupported(f'name {name}')

    def cond(self, v):
        """python truth of a value as a 0/1 term"""
        if isinstance(v, IntVal):
            return truth(v.t)
        if isinstance(v, NoneVal):
            return ZERO
        if isinstance(v, StrLit):
            return K(int(bool(v.s)))
        if isinstance(v, (CharDigit, StrOfInt)):
            return ONE
        if isinstance(v, Items):
            return K(int(bool(v.items)))
        if isinstance(v, Fam) and v.kind in ('list', 'tuple', 'str') and v.count != INF:
            return cmp('>', v.count, ZERO)
        if isinstance(v, RawStr):
            return cmp('>', add(V('n'), V(v.kvar)), ZERO)
        raise Unsupported(f'truth of {v!r}')

    def eval(self, e, env):
        m = getattr(self, 'e_' + type(e).__name__, None)
        if m is None:
            raise Unsupported(f'expression {type(e).__name__}')
        return m(e, env)

    def e_Constant(self, e, env):
        v = e.value
        if isinstance(v, bool):
            return IntVal(K(int(v)), True)
        if isinstance(v, int):
            return IntVal(K(v))
        if isinstance(v, str):
            return StrLit(v)
        if v is None:
            return NoneVal()
        raise Unsupported(f'constant {v!r}')

    def e_Name(self, e, env):
        return self.load(e.id, env)

    def e_Tuple(self, e, env):
        return TupleVal([self.eval(x, env) for x in e.elts])

    def e_List(self, e, env):
        return Items([self.eval(x, env) for x in e.elts], 'list')

    def e_Attribute(self, e, env):
        if isinstance(e.value, ast.Name) and e.value.id not in env:
            r = self.prog.resolve_name(self.module, e.value.id) if self.module is not None else None
            if r is not None and r[0] == 'ext':
                full = f'{r[1]}.{e.attr}'
                if full == 'string.digits':
                    return StrLit('0123456789')
                if full in EXT:
                    return Builtin(EXT[full])
                return Builtin('ext:' + full)
            if r is not None and r[0] == 'module':
                rr = self.prog.resolve_attr(r, e.attr)
                if rr is not None and rr[0] == 'func':
                    return FuncVal(rr[1].node, Env(), rr[1].short, rr[1].module)
            if e.value.id == 'str' and r is None:
                return Builtin('str.' + e.attr)
        recv = self.eval(e.value, env)
        if isinstance(recv, (ObjVal, ClassVal)):
            return self.obj_attr(recv, e.attr)
        return BoundMethod(recv, e.attr)

    def obj_attr(self, recv, name):
        if isinstance(recv, ObjVal) and (recv.oid, name) in self.heap:
            v = self.heap[(recv.oid, name)]
            if isinstance(v, Poison):
                raise Unsupported(v.why)
            return v
        ci = recv.ci
        r = ci.lookup(name)
        if r is None:
            raise Unsupported(f'attribute {name} of {ci.name}')
        if r[0] == 'attr':
            saved = self.module
            self.module = r[2].module
            try:
                return self.eval(r[1], Env())
            finally:
                self.module = saved
        fi = r[1]
        if fi.is_property or 'functools.cached_property' in fi.decorators or 'cached_property' in fi.decorators:
            if not isinstance(recv, ObjVal):
                raise Unsupported('property on a class')
            return self.call_def(fi.node, [recv], fi.module)
        if fi.is_static:
            return FuncVal(fi.node, Env(), fi.short, fi.module)
        if fi.is_classmethod:
            return FuncVal(fi.node, Env(), fi.short, fi.module, bound=ClassVal(ci))
        if fi.decorators:
            raise Unsupported(f'decorated method {fi.short}')
        if isinstance(recv, ObjVal):
            return FuncVal(fi.node, Env(), fi.short, fi.module, bound=recv)
        return FuncVal(fi.node, Env(), fi.short, fi.module)

    def instantiate(self, ci, args, kwargs):
        for c in ci.mro:
            if isinstance(c, str) and c not in ('object', 'builtins.object'):
                raise Unsupported(f'class {ci.name} has an external base {c}')
        if ci.decorators:
            raise Unsupported(f'decorated class {ci.name}')
        obj = ObjVal(ci)
        r = ci.lookup('__init__')
        if r is not None and r[0] == 'method':
            self.call_def(r[1].node, [obj] + list(args), r[1].module, kwargs=kwargs)
        elif args or kwargs:
            raise Unsupported('constructor arguments without __init__')
        return obj

    def e_UnaryOp(self, e, env):
        v = self.eval(e.operand, env)
        if isinstance(e.op, ast.Not):
            return IntVal(not_(self.cond(v)), True)
        if isinstance(v, IntVal):
            if isinstance(e.op, ast.USub):
                return IntVal(neg(v.t))
            if isinstance(e.op, ast.UAdd):
                return IntVal(v.t)
        raise Unsupported('unary operator')

    def e_BoolOp(self, e, env):
        vals = [self.eval(x, env) for x in e.values]
        out = vals[-1]
        for v in reversed(vals[:-1]):
            c = self.cond(v)
            if isinstance(e.op, ast.And):
                out = self.merge(c, out, v) if not is_k(c) else (out if c[1] else v)
            else:
                out = self.merge(c, v, out) if not is_k(c) else (v if c[1] else out)
        return out

    def e_IfExp(self, e, env):
        c = self.cond(self.eval(e.test, env))
        if is_k(c):
            return self.eval(e.body if c[1] else e.orelse, env)
        return self.merge(c, self.eval(e.body, env), self.eval(e.orelse, env))

    def e_Compare(self, e, env):
        left = self.eval(e.left, env)
        out = None
        for op, right_e in zip(e.ops, e.comparators):
            right = self.eval(right_e, env)
            c = self.compare(op, left, right)
            out = c if out is None else ite(out, c, ZERO)
            left = right
        return IntVal(out, True)

    def compare(self, op, a, b):
        names = {ast.Eq: '==', ast.NotEq: '!=', ast.Lt: '<', ast.LtE: '<=', ast.Gt: '>', ast.GtE: '>='}
        if type(op) in names and isinstance(a, IntVal) and isinstance(b, IntVal):
            return cmp(names[type(op)], a.t, b.t)
        if isinstance(op, (ast.In, ast.NotIn)) and isinstance(a, CharDigit) and isinstance(b, StrLit) and \
                set('0123456789') <= set(b.s):
            return K(int(isinstance(op, ast.In)))
        if isinstance(op, (ast.Is, ast.IsNot)) and isinstance(b, NoneVal):
            r = isinstance(a, NoneVal)
            return K(int(r if isinstance(op, ast.Is) else not r))
        if type(op) in (ast.Eq, ast.NotEq) and isinstance(a, (CharDigit, StrOfInt)) and isinstance(b, (CharDigit, StrOfInt)):
            return cmp(names[type(op)], a.t, b.t)
        raise Unsupported(f'comparison {type(op).__name__} of {a!r} and {b!r}')

    def e_BinOp(self, e, env):
        return self.binop(e.op, self.eval(e.left, env), self.eval(e.right, env))

    def binop(self, op, a, b):
        if isinstance(a, IntVal) and isinstance(b, IntVal):
            f = {ast.Add: add, ast.Sub: sub, ast.Mult: mul, ast.FloorDiv: floordiv, ast.Mod: mod}.get(type(op))
            if f is not None:
                if type(op) in (ast.FloorDiv, ast.Mod) and not (is_k(b.t) and b.t[1] > 0):
                    raise Unsupported('division by a non-constant')
                return IntVal(f(a.t, b.t))
            if isinstance(op, ast.BitAnd) and is_k(b.t) and b.t[1] == 1:
                return IntVal(mod(a.t, K(2)))
            if isinstance(op, ast.BitAnd) and is_k(a.t) and a.t[1] == 1:
                return IntVal(mod(b.t, K(2)))
            if isinstance(op, ast.BitXor) and is_k(b.t) and b.t[1] == 1 and a.is_bool:
                return IntVal(not_(a.t), True)
            if isinstance(op, (ast.BitXor, ast.BitAnd, ast.BitOr)):
                return IntVal(build({ast.BitXor: 'bxor', ast.BitAnd: 'band', ast.BitOr: 'bor'}[type(op)], [a.t, b.t]))
            if isinstance(op, ast.LShift) and is_k(b.t) and 0 <= b.t[1] < 8:
                return IntVal(mul(a.t, K(1 << b.t[1])))
            if isinstance(op, ast.RShift) and is_k(b.t) and 0 <= b.t[1] < 8:
                return IntVal(floordiv(a.t, K(1 << b.t[1])))
        if isinstance(op, ast.Mod) and isinstance(a, StrLit) and a.s in ('%d', '%s', '%i') and isinstance(b, IntVal):
            return StrOfInt(b.t)
        if isinstance(op, ast.Mod) and isinstance(a, StrLit) and a.s in ('%d', '%s', '%i') and isinstance(b, TupleVal) \
                and len(b.items) == 1 and isinstance(b.items[0], IntVal):
            return StrOfInt(b.items[0].t)
        if isinstance(op, ast.Add) and isinstance(a, Items) and isinstance(b, Items):
            return Items(a.items + b.items, a.kind)
        if isinstance(op, ast.Mult):
            for x, y in ((a, b), (b, a)):
                if isinstance(x, (Items, StrLit)) and isinstance(y, IntVal) and is_k(y.t) and 0 <= y.t[1] <= 64:
                    if isinstance(x, StrLit):
                        return StrLit(x.s * y.t[1])
                    return Items(x.items * y.t[1], x.kind)
        raise Unsupported(f'operator {type(op).__name__} on {a!r}, {b!r}')

    def e_Subscript(self, e, env):
        base = self.eval(e.value, env)
        if isinstance(e.slice, ast.Slice):
            lo = self.eval(e.slice.lower, env) if e.slice.lower is not None else None
            hi = self.eval(e.slice.upper, env) if e.slice.upper is not None else None
            step = self.eval(e.slice.step, env) if e.slice.step is not None else None
            return self.slice(base, lo, hi, step)
        idx = self.eval(e.slice, env)
        if not isinstance(idx, IntVal):
            raise Unsupported('index is not an integer')
        return self.index(base, idx.t)

    def index(self, base, idx):
        if isinstance(base, StrLit):
            if is_k(idx):
                return StrLit(base.s[idx[1]])
            if base.s == '0123456789':
                return StrOfInt(idx)          # one character when 0 <= idx <= 9 (checked by C15.b)
            if base.s.isdigit() and base.s.isascii() and (idx[0] == '%' and idx[2] == K(len(base.s)) or
                                                          idx[0] == 'D' and len(base.s) == 10):
                # a table of digit characters: the character of the tabulated digit
                return StrOfInt(tab(tuple(K(int(c)) for c in base.s), idx))
            raise Unsupported('symbolic index into a string literal')
        if isinstance(base, (Items, TupleVal)):
            items = base.items
            if is_k(idx):
                if not -len(items) <= idx[1] < len(items):
                    raise Unsupported('index out of range')
                return items[idx[1]]
            if items and all(isinstance(x, (Items, TupleVal)) for x in items) and \
                    len({len(x.items) for x in items}) == 1 and self._idx_in_range(idx, len(items)):
                width = len(items[0].items)
                cols = []
                for c in range(width):
                    col = [x.items[c] for x in items]
                    if not all(isinstance(y, IntVal) for y in col):
                        raise Unsupported('nested table of non-integers')
                    cols.append(IntVal(tab(tuple(y.t for y in col), idx)))
                return Items(cols, 'tuple')
            if all(isinstance(x, IntVal) for x in items) and items and self._idx_in_range(idx, len(items)) and \
                    idx[0] in ('tab', 'ite'):
                return IntVal(tab(tuple(x.t for x in items), idx))
            if all(isinstance(x, IntVal) for x in items) and items:
                # idx must be in range: only `% len` forms are accepted
                if idx[0] == '%' and idx[2] == K(len(items)):
                    return IntVal(tab(tuple(x.t for x in items), idx))
                if idx[0] in ('cmp', 'not') and len(items) == 2:
                    return IntVal(tab(tuple(x.t for x in items), idx))
                if idx[0] == 'D' and len(items) == 10:
                    return IntVal(tab(tuple(x.t for x in items), idx))
            raise Unsupported('symbolic index into a literal sequence')
        fam = self.to_fam(base) if isinstance(base, Fam) else None
        if fam is not None and fam.kind in ('list', 'tuple', 'str'):
            if fam.count == INF:
                raise Unsupported('index into an iterator')
            if self.facts.prove_ge0(idx) and self.facts.prove_ge0(sub(sub(fam.count, ONE), idx)):
                return fam.fn(idx)
            if self.facts.prove_ge0(sub(neg(idx), ONE)) and self.facts.prove_ge0(add(fam.count, idx)):
                return fam.fn(add(fam.count, idx))
            raise Unsupported(f'index {show(idx)} not provably inside the sequence')
        raise Unsupported(f'subscript of {base!r}')

    def _idx_in_range(self, idx, n):
        """the index term only takes values 0..n-1"""
        if idx[0] == '%' and is_k(idx[2]) and 0 < idx[2][1] <= n:
            return True
        if idx[0] in ('cmp', 'not') and n >= 2:
            return True
        if idx[0] == 'tab':
            return all(self._idx_in_range(x, n) if not is_k(x) else 0 <= x[1] < n for x in idx[1])
        if idx[0] == 'ite':
            return all(self._idx_in_range(x, n) if not is_k(x) else 0 <= x[1] < n for x in idx[2:])
        if idx[0] == 'D':
            return n >= 10
        if idx[0] == 'cur':
            # a loop state variable: accepted now, its closed form is checked against the range when the loop is closed
            self.pending_ranges.append((idx, n))
            return True
        return False

    def slice(self, base, lo, hi, step):
        def const(v):
            if v is None or isinstance(v, NoneVal):
                return None
            if isinstance(v, IntVal) and is_k(v.t):
                return v.t[1]
            raise Unsupported('slice bound is not a constant')
        if isinstance(base, RawStr):
            lo_, hi_, st_ = const(lo), const(hi), const(step)
            if lo_ is None and hi_ is None and st_ == -1:
                return RawStr(base.kvar, not base.reversed, base.pristine)
            raise Unsupported('slice of the raw argument')
        if isinstance(base, StrLit):
            return StrLit(base.s[slice(const(lo), const(hi), const(step))])
        if isinstance(base, (Items, TupleVal)):
            kind = base.kind if isinstance(base, Items) else 'tuple'
            return Items(base.items[slice(const(lo), const(hi), const(step))], kind)
        fam = self.to_fam(base)
        if fam.count == INF or fam.kind == 'iter':
            raise Unsupported('slice of an iterator')
        st_ = const(step)
        st_ = 1 if st_ is None else st_
        n = fam.count
        lo_ = const(lo)
        if hi is not None and not isinstance(hi, NoneVal):
            hi_ = const(hi)
            # prefix / suffix by a constant: [a:b] with step 1 only
            raise Unsupported('slice with an upper bound')
        if st_ == 1:
            if lo_ in (None, 0):
                return fam
            raise Unsupported('slice [a:]')
        if st_ == -1:
            if lo_ in (None, -1):
                return Fam(n, lambda i, f=fam, n=n: f.fn(sub(sub(n, ONE), i)), fam.kind)
            raise Unsupported('slice [a::-1]')
        if st_ == 2:
            if lo_ in (None, 0):
                return Fam(floordiv(add(n, ONE), K(2)), lambda i, f=fam: f.fn(mul(K(2), i)), fam.kind)
            if lo_ == 1:
                return Fam(floordiv(n, K(2)), lambda i, f=fam: f.fn(add(mul(K(2), i), ONE)), fam.kind)
            raise Unsupported('slice [a::2]')
        if st_ == -2:
            if lo_ in (None, -1):
                return Fam(floordiv(add(n, ONE), K(2)),
                           lambda i, f=fam, n=n: f.fn(sub(sub(n, ONE), mul(K(2), i))), fam.kind)
            if lo_ == -2:
                return Fam(floordiv(n, K(2)),
                           lambda i, f=fam, n=n: f.fn(sub(sub(n, K(2)), mul(K(2), i))), fam.kind)
            raise Unsupported('slice [a::-2]')
        raise Unsupported(f'slice step {st_}')

    # ---------------------------------------------------------------- families
    def to_fam(self, v):
        if isinstance(v, Fam):
            return v
        if isinstance(v, (Items, TupleVal)):
            items = list(v.items)
            kind = v.kind if isinstance(v, Items) else 'tuple'

            def fn(i, items=items):
                if is_k(i):
                    return items[i[1]]
                if all(isinstance(x, IntVal) for x in items) and i[0] == '%' and i[2] == K(len(items)):
                    return IntVal(tab(tuple(x.t for x in items), i))
                raise Unsupported('symbolic position in a literal sequence')
            return Fam(K(len(items)), fn, kind)
        if isinstance(v, StrOfInt):
            return Fam(('strlen', v.t), lambda i: (_ for _ in ()).throw(Unsupported('digit of str(int)')), 'str', int_src=v.t)
        if isinstance(v, RawStr):
            raise Unsupported('the argument is iterated without selecting its digit characters')
        if isinstance(v, StrLit):
            return self.to_fam(Items([StrLit(c) for c in v.s], 'str'))
        raise Unsupported(f'{v!r} is not iterable here')

    def digits_of_raw(self, raw, elem):
        """[elem(c) for c in raw if c.isdigit()]"""
        n = V('n')
        if raw.pristine is False:
            self.raw_pristine_used = False
        if raw.reversed:
            return Fam(n, lambda j: elem(CharDigit(('D', sub(sub(n, ONE), j)))), 'list')
        return Fam(n, lambda j: elem(CharDigit(('D', j))), 'list')

    def is_digit_filter(self, test, var, env):
        """the comprehension condition keeps exactly the decimal digit characters of `var`"""
        if isinstance(test, ast.Call) and isinstance(test.func, ast.Attribute) and test.func.attr in ('isdigit', 'isdecimal') \
                and isinstance(test.func.value, ast.Name) and test.func.value.id == var and not test.args:
            return True
        if isinstance(test, ast.Compare) and len(test.ops) == 1 and isinstance(test.ops[0], ast.In) and \
                isinstance(test.left, ast.Name) and test.left.id == var:
            try:
                s = self.eval(test.comparators[0], env)
            except Unsupported:
                return False
            return isinstance(s, StrLit) and set(s.s) == set('0123456789')
        if isinstance(test, ast.Compare) and len(test.ops) == 2 and all(isinstance(o, ast.LtE) for o in test.ops) and \
                isinstance(test.comparators[0], ast.Name) and test.comparators[0].id == var and \
                isinstance(test.left, ast.Constant) and test.left.value == '0' and \
                isinstance(test.comparators[1], ast.Constant) and test.comparators[1].value == '9':
            return True
        return False

    def comprehension(self, e, elt, env, kind):
        if len(e.generators) != 1 or e.generators[0].is_async:
            raise Unsupported('nested comprehension')
        g = e.generators[0]
        src = self.eval(g.iter, env)
        if isinstance(src, RawStr):
            if not (isinstance(g.target, ast.Name) and len(g.ifs) == 1 and self.is_digit_filter(g.ifs[0], g.target.id, env)):
                raise Unsupported('the argument is iterated without selecting exactly its digit characters')
            var = g.target.id

            def elem(ch, var=var):
                inner = Env(env)
                inner[var] = ch
                return self.eval(elt, inner)
            fam = self.digits_of_raw(src, elem)
            fam.kind = kind
            return fam
        fam = self.to_fam(src)
        if g.ifs:
            if fam.int_src is not None or fam.count == INF:
                raise Unsupported('filtered comprehension')

            def bind(i, fam=fam):
                inner = Env(env)
                self.assign(g.target, fam.fn(i), inner)
                return inner

            def keep(i):
                inner = bind(i)
                c = ONE
                for cnd in g.ifs:
                    c = ite(c, self.cond(self.eval(cnd, inner)), ZERO)
                return c
            return FilteredFam(fam.count, lambda i: self.eval(elt, bind(i)), keep)
        if fam.int_src is not None:
            # (int(c) for c in str(x)) : the decimal digits of x
            if isinstance(g.target, ast.Name) and isinstance(elt, ast.Call) and isinstance(elt.func, ast.Name) and \
                    elt.func.id == 'int' and len(elt.args) == 1 and isinstance(elt.args[0], ast.Name) and elt.args[0].id == g.target.id:
                return Fam(fam.count, fam.fn, kind, int_src=('ints', fam.int_src))
            raise Unsupported('comprehension over the characters of str(int)')

        def fn(i, fam=fam):
            inner = Env(env)
            self.assign(g.target, fam.fn(i), inner)
            return self.eval(elt, inner)
        return Fam(fam.count, fn, kind)

    def e_ListComp(self, e, env):
        return self.comprehension(e, e.elt, env, 'list')

    def e_GeneratorExp(self, e, env):
        return self.comprehension(e, e.elt, env, 'iter')

    def e_Lambda(self, e, env):
        return FuncVal(e, Env(env), '<lambda>', self.module)

    def e_JoinedStr(self, e, env):
        if len(e.values) == 1 and isinstance(e.values[0], ast.FormattedValue) and e.values[0].format_spec is None \
                and e.values[0].conversion == -1:
            v = self.eval(e.values[0].value, env)
            if isinstance(v, IntVal):
                return StrOfInt(v.t)
            if isinstance(v, (StrOfInt, CharDigit, StrLit)):
                return v
        raise Unsupported('f-string')

    # ---------------------------------------------------------------- calls
    def e_Call(self, e, env):
        f = self.eval(e.func, env)
        if any(isinstance(a, ast.Starred) for a in e.args) or any(k.arg is None for k in e.keywords):
            raise Unsupported('star arguments')
        args = [self.eval(a, env) for a in e.args]
        kwargs = {k.arg: self.eval(k.value, env) for k in e.keywords}
        return self.call(f, args, kwargs)

    def call(self, f, args, kwargs):
        if isinstance(f, FuncVal):
            if f.bound is not None:
                args = [f.bound] + list(args)
            return self.call_def(f.node, args, f.module, closure=f.env, kwargs=kwargs)
        if isinstance(f, ClassVal):
            return self.instantiate(f.ci, args, kwargs)
        if isinstance(f, PartialFn):
            return self.call(f.fn, f.args + list(args), {**f.kwargs, **kwargs})
        if isinstance(f, BoundMethod):
            return self.method(f.recv, f.name, args, kwargs)
        if isinstance(f, Builtin):
            m = getattr(self, 'b_' + f.name.replace('.', '_'), None)
            if m is None:
                raise Unsupported(f'call of {f.name}')
            return m(args, kwargs)
        raise Unsupported(f'call of {f!r}')

    def method(self, recv, name, args, kwargs):
        if isinstance(recv, CharDigit) and name in ('isdigit', 'isdecimal', 'isnumeric') and not args:
            return IntVal(ONE, True)
        if isinstance(recv, RawStr) and name in ('isdigit', 'isdecimal') and not args:
            return IntVal(ite(cmp('==', V(recv.kvar), ZERO), cmp('>', V('n'), ZERO), ZERO), True)
        if isinstance(recv, RawStr) and name in ('replace', 'strip', 'lstrip', 'rstrip', 'translate') :
            # removes some of the other characters (a digit is never removed when the removed text has no digit)
            if name == 'replace':
                if not (len(args) >= 2 and isinstance(args[0], StrLit) and isinstance(args[1], StrLit) and args[1].s == ''
                        and args[0].s and not any(c.isdigit() for c in args[0].s)):
                    raise Unsupported('replace() on the argument')
            elif name in ('strip', 'lstrip', 'rstrip'):
                if args and not (isinstance(args[0], StrLit) and not any(c.isdigit() for c in args[0].s)):
                    raise Unsupported('strip() on the argument')
            else:
                raise Unsupported('translate() on the argument')
            kv = self.fresh('k')
            self.facts.assume(V(kv))
            self.facts.assume(sub(V(recv.kvar), V(kv)))
            return RawStr(kv, recv.reversed, pristine=False)
        if isinstance(recv, StrLit) and name == 'join' and len(args) == 1:
            if recv.s != '':
                raise Unsupported('join with a separator')
            fam = self.to_fam(args[0])
            return Fam(fam.count, fam.fn, 'str', int_src=fam.int_src)
        if isinstance(recv, Fam) and name == 'isdigit' and recv.kind == 'str' and not args:
            return IntVal(cmp('>', recv.count, ZERO), True)
        if isinstance(recv, StrLit) and name == 'format' and recv.s == '{}' and len(args) == 1 and isinstance(args[0], IntVal):
            return StrOfInt(args[0].t)
        raise Unsupported(f'method {name} of {recv!r}')

    # builtins ----------------------------------------------------------
    def b_int(self, args, kw):
        if len(args) != 1 or kw:
            raise Unsupported('int() arguments')
        v = args[0]
        if isinstance(v, IntVal):
            return IntVal(v.t)
        if isinstance(v, (CharDigit, StrOfInt)):
            return IntVal(v.t)
        if isinstance(v, StrLit) and v.s.isdigit():
            return IntVal(K(int(v.s)))
        raise Unsupported(f'int({v!r})')

    def b_bool(self, args, kw):
        return IntVal(self.cond(args[0]), True)

    def b_str(self, args, kw):
        if len(args) != 1 or kw:
            raise Unsupported('str() arguments')
        v = args[0]
        if isinstance(v, IntVal):
            return StrOfInt(v.t)
        if isinstance(v, (StrOfInt, CharDigit, StrLit, RawStr)):
            return v
        raise Unsupported(f'str({v!r})')

    def b_len(self, args, kw):
        v = args[0]
        if isinstance(v, FilteredFam):
            i = self.fresh('i')
            saved = self.facts
            self.facts = saved.copy()
            self.assume_index(i, v.count)
            try:
                c = v.keep(V(i))
            finally:
                self.facts = saved
            return IntVal(self.make_sum(i, v.count, ite(c, ONE, ZERO)))
        if isinstance(v, RawStr):
            return IntVal(add(V('n'), V(v.kvar)))
        if isinstance(v, (Items, TupleVal)):
            return IntVal(K(len(v.items)))
        if isinstance(v, StrLit):
            return IntVal(K(len(v.s)))
        if isinstance(v, Fam) and v.kind in ('list', 'tuple', 'str') and v.count != INF and v.int_src is None:
            return IntVal(v.count)
        raise Unsupported(f'len({v!r})')

    def b_abs(self, args, kw):
        return IntVal(build('abs', [args[0].t]))

    def _two(self, name, args):
        if len(args) == 1:
            args = self.to_items(args[0])
        if len(args) == 2 and all(isinstance(a, IntVal) for a in args):
            return IntVal(build(name, [args[0].t, args[1].t]))
        raise Unsupported(f'{name}() arguments')

    def b_min(self, args, kw):
        return self._two('min', args)

    def b_max(self, args, kw):
        return self._two('max', args)

    def to_items(self, v):
        if isinstance(v, (Items, TupleVal)):
            return list(v.items)
        raise Unsupported(f'{v!r} is not a literal sequence')

    def b_divmod(self, args, kw):
        a, b = args
        if not (isinstance(a, IntVal) and isinstance(b, IntVal) and is_k(b.t) and b.t[1] > 0):
            raise Unsupported('divmod arguments')
        return TupleVal([IntVal(floordiv(a.t, b.t)), IntVal(mod(a.t, b.t))])

    def b_sum(self, args, kw):
        start = args[1] if len(args) > 1 else kw.get('start', IntVal(ZERO))
        if not isinstance(start, IntVal):
            raise Unsupported('sum start')
        v = args[0]
        if isinstance(v, FilteredFam):
            i = self.fresh('i')
            saved = self.facts
            self.facts = saved.copy()
            self.assume_index(i, v.count)
            try:
                x = v.fn(V(i))
                c = v.keep(V(i))
            finally:
                self.facts = saved
            if not isinstance(x, IntVal):
                raise Unsupported(f'sum of {x!r}')
            return IntVal(add(start.t, self.make_sum(i, v.count, ite(c, x.t, ZERO))))
        if isinstance(v, (Items, TupleVal)):
            t = start.t
            for x in v.items:
                if not isinstance(x, IntVal):
                    raise Unsupported('sum of non-integers')
                t = add(t, x.t)
            return IntVal(t)
        fam = self.to_fam(v)
        if fam.int_src is not None:
            if isinstance(fam.int_src, tuple) and fam.int_src[0] == 'ints':
                return IntVal(add(start.t, build('dsum', [fam.int_src[1]])))
            raise Unsupported('sum over characters')
        if fam.count == INF:
            raise Unsupported('sum of an infinite iterator')
        i = self.fresh('i')
        saved = self.facts
        self.facts = saved.copy()
        self.assume_index(i, fam.count)
        try:
            x = fam.fn(V(i))
        finally:
            self.facts = saved
        if not isinstance(x, IntVal):
            raise Unsupported(f'sum of {x!r}')
        return IntVal(add(start.t, self.make_sum(i, fam.count, x.t)))

    def b_list(self, args, kw):
        if not args:
            return Items([], 'list')
        v = args[0]
        if isinstance(v, FilteredFam):
            return v
        if isinstance(v, Items):
            return Items(v.items, 'list')
        if isinstance(v, RawStr):
            raise Unsupported('list(argument)')
        fam = self.to_fam(v)
        if fam.count == INF:
            raise Unsupported('list of an infinite iterator')
        return Fam(fam.count, fam.fn, 'list', int_src=fam.int_src)

    def b_tuple(self, args, kw):
        r = self.b_list(args, kw)
        r.kind = 'tuple'
        return r

    def b_iter(self, args, kw):
        if len(args) != 1:
            raise Unsupported('iter(callable, sentinel)')
        fam = self.to_fam(args[0])
        return Fam(fam.count, fam.fn, 'iter', int_src=fam.int_src)

    def b_reversed(self, args, kw):
        v = args[0]
        if isinstance(v, RawStr):
            return RawStr(v.kvar, not v.reversed, v.pristine)
        if isinstance(v, (Items, TupleVal)):
            return Items(v.items[::-1], 'list')
        fam = self.to_fam(v)
        if fam.count == INF or fam.kind == 'iter' or fam.int_src is not None:
            raise Unsupported('reversed() of an iterator')
        n = fam.count
        return Fam(n, lambda i, f=fam, n=n: f.fn(sub(sub(n, ONE), i)), 'iter')

    def b_enumerate(self, args, kw):
        start = args[1] if len(args) > 1 else kw.get('start', IntVal(ZERO))
        if not isinstance(start, IntVal):
            raise Unsupported('enumerate start')
        if isinstance(args[0], RawStr):
            raise Unsupported('enumerate over the argument')
        fam = self.to_fam(args[0])
        return Fam(fam.count, lambda i, f=fam: TupleVal([IntVal(add(i, start.t)), f.fn(i)]), 'iter')

    def b_zip(self, args, kw):
        fams = [self.to_fam(a) for a in args]
        if any(isinstance(a, RawStr) for a in args):
            raise Unsupported('zip over the argument')
        finite = [f.count for f in fams if f.count != INF]
        if not finite:
            count = INF
        else:
            count = finite[0]
            for c in finite[1:]:
                if c != count:
                    raise Unsupported('zip of sequences of different lengths')
        return Fam(count, lambda i, fs=fams: TupleVal([f.fn(i) for f in fs]), 'iter')

    def b_cycle(self, args, kw):
        items = self.to_items(args[0])
        if not items:
            raise Unsupported('cycle of an empty sequence')
        if len(items) == 1:
            return Fam(INF, lambda i, x=items[0]: x, 'iter')
        if not all(isinstance(x, IntVal) for x in items):
            raise Unsupported('cycle of non-integers')
        ts = tuple(x.t for x in items)
        isb = all(x.is_bool for x in items)
        return Fam(INF, lambda i, ts=ts: IntVal(tab(ts, mod(i, K(len(ts)))), isb), 'iter')

    def b_range(self, args, kw):
        ts = []
        for a in args:
            if not isinstance(a, IntVal):
                raise Unsupported('range argument')
            ts.append(a.t)
        if len(ts) == 1:
            lo, hi, st = ZERO, ts[0], 1
        elif len(ts) == 2:
            lo, hi, st = ts[0], ts[1], 1
        else:
            if not is_k(ts[2]) or ts[2][1] == 0:
                raise Unsupported('range step')
            lo, hi, st = ts[0], ts[1], ts[2][1]
        if st > 0:
            span = sub(hi, lo)
        else:
            span = sub(lo, hi)
        a = abs(st)
        count = span if a == 1 else floordiv(add(span, K(a - 1)), K(a))
        if is_k(count):
            count = K(max(0, count[1]))
        elif not self.facts.prove_ge0(add(span, K(a - 1))):
            # the length would have to be clamped at zero
            raise Unsupported(f'range whose length {show(count)} may be negative')
        return Fam(count, lambda i, lo=lo, st=st: IntVal(add(lo, mul(K(st), i))), 'tuple')

    def b_map(self, args, kw):
        if len(args) != 2:
            raise Unsupported('map with several iterables')
        f, src = args
        if isinstance(src, RawStr):
            raise Unsupported('map over the argument')
        fam = self.to_fam(src)
        if fam.int_src is not None:
            if isinstance(f, Builtin) and f.name == 'int':
                return Fam(fam.count, fam.fn, 'iter', int_src=('ints', fam.int_src))
            raise Unsupported('map over the characters of str(int)')
        return Fam(fam.count, lambda i, fam=fam, f=f: self.call(f, [fam.fn(i)], {}), 'iter')

    def b_filter(self, args, kw):
        f, src = args
        if isinstance(src, RawStr):
            ok = isinstance(f, Builtin) and f.name in ('str.isdigit', 'str.isdecimal')
            if isinstance(f, FuncVal) and isinstance(f.node, ast.Lambda) and len(f.node.args.args) == 1:
                ok = self.is_digit_filter(f.node.body, f.node.args.args[0].arg, f.env)
            if not ok:
                raise Unsupported('filter over the argument that is not a digit test')
            fam = self.digits_of_raw(src, lambda ch: ch)
            fam.kind = 'iter'
            return fam
        raise Unsupported('filter')

    def b_re_sub(self, args, kw):
        if len(args) == 3 and isinstance(args[0], StrLit) and isinstance(args[1], StrLit) and args[1].s == '' and \
                isinstance(args[2], RawStr) and args[0].s in (r'\D', r'\D+', '[^0-9]', '[^0-9]+', r'[^\d]', r'[^\d]+'):
            fam = self.digits_of_raw(args[2], lambda ch: ch)
            fam.kind = 'str'
            return fam
        raise Unsupported('re.sub')

    def b_reduce(self, args, kw):
        if len(args) != 3:
            raise Unsupported('reduce without an initial value')
        f, src, init = args
        if not (isinstance(f, FuncVal) and isinstance(init, IntVal)):
            raise Unsupported('reduce arguments')
        fam = self.to_fam(src)
        if fam.count == INF:
            raise Unsupported('reduce over an infinite iterator')
        i = self.fresh('i')
        saved = self.facts
        self.facts = saved.copy()
        self.assume_index(i, fam.count)
        try:
            r = self.call(f, [IntVal(('cur', '<acc>')), fam.fn(V(i))], {})
        finally:
            self.facts = saved
        if not isinstance(r, IntVal):
            raise Unsupported('reduce step result')
        c = self.minus_cur(r.t, '<acc>')
        if c is None or any(y[0] == 'cur' for y in walk(c)):
            raise Unsupported('reduce step is not additive')
        return IntVal(add(init.t, self.make_sum(i, fam.count, c)))

    def b_partial(self, args, kw):
        if not args:
            raise Unsupported('partial()')
        return PartialFn(args[0], args[1:], kw)

    def b_operator_add(self, args, kw):
        return self.binop(ast.Add(), args[0], args[1])


# ---------------------------------------------------------------------------------------------- Luhn decision
def luhn_term(d, doubled):
    return (d * 2 - 9 if d * 2 > 9 else d * 2) if doubled else d


def reference_check_digit(digits):
    total = 0
    for r, d in enumerate(reversed(digits)):
        total += luhn_term(d, r % 2 == 0)
    return (10 - total % 10) % 10


class Verdict:
    def __init__(self, status, detail, witness=None, facts=None):
        self.status = status          # 'proved' | 'refuted' | 'undecided'
        self.detail = detail
        self.witness = witness
        self.facts = facts or {}


def parity_determined(t, allow=('j',)):
    """every integer variable of t occurs only below `L % 2` with L linear (integer coefficients)"""
    h = t[0]
    if h in ('k', 'inf'):
        return True
    if h == 'v':
        return False
    if h == '%' and t[2] == K(2) and lin(t[1]) is not None:
        return True
    if h == 'D':
        return t[1] == V('j')
    if h == 'sum':
        return False
    if h == 'cmp':
        # comparison of two parity terms, or a linear form compared with ... not parity determined
        return all(parity_determined(x, allow) for x in t[2:])
    if h == 'tab':
        return all(parity_determined(x, allow) for x in t[1]) and parity_determined(t[2], allow)
    return all(parity_determined(x, allow) for x in t[1:])


def classify_sum(s):
    """('sum', i, count, body) over canonical digits -> (cls, body_in_j) where cls is 'all' or a parity term p
    meaning the canonical indices j with j % 2 == p % 2; None when the shape is not one of the known bijections."""
    _, i, count, body = s
    idxs = {y[1] for y in walk(body) if y[0] == 'D'}
    if len(idxs) != 1:
        return None
    e = next(iter(idxs))
    d = lin(e)
    if d is None:
        return None
    a = d.get(i, 0)
    b = from_lin({key: c for key, c in d.items() if key != i})
    n = V('n')
    j = V('j')
    cd = lin(count)
    half = None
    if count[0] == '//' and count[2] == K(2):
        half = lin(count[1])
    is_n = cd == {'n': 1} or cd == {'n': 1, 1: 0}
    norm = lambda x: {key: c for key, c in (x or {}).items() if c != 0}     # noqa
    up = half is not None and norm(half) == {'n': 1, 1: 1}
    down = half is not None and norm(half) == {'n': 1}
    bl = norm(lin(b))
    cls = None
    if a == 1 and bl == {} and is_n:
        cls, inv = 'all', j
    elif a == -1 and bl == {'n': 1, 1: -1} and is_n:
        cls, inv = 'all', sub(sub(n, ONE), j)
    elif a == 2 and bl == {} and up:
        cls, inv = ZERO, None
    elif a == 2 and bl == {1: 1} and down:
        cls, inv = ONE, None
    elif a == -2 and bl == {'n': 1, 1: -1} and up:
        cls, inv = sub(n, ONE), None
    elif a == -2 and bl == {'n': 1, 1: -2} and down:
        cls, inv = n, None
    else:
        return None
    body_j = subst(body, {('D', e): ('D', j)})
    if inv is not None:
        body_j = subst(body_j, {V(i): inv})
    elif i in free_vars(body_j):
        return None
    return cls, body_j


def decide_luhn(result, pristine=True):
    """result: integer term of the returned digit.  -> Verdict"""
    sums = []

    def collect(t):
        if t[0] == 'sum':
            if t not in sums:
                sums.append(t)
            return
        if t[0] in ('k', 'v', 'cur', 'inf'):
            return
        kids = t[2:] if t[0] == 'cmp' else (t[1] + (t[2],) if t[0] == 'tab' else t[1:])
        for x in kids:
            collect(x)
    collect(result)
    if any(y[0] == 'D' for y in walk(subst(result, {s: ZERO for s in sums}))):
        return Verdict('undecided', 'a digit is used outside the summations')
    svars = {s: V(f's{idx}') for idx, s in enumerate(sums)}
    shell = subst(result, svars)
    # the shell must depend on the sums only through (linear form) % 10
    forms = []

    def strip(t):
        if t[0] == '%' and is_k(t[2]) and t[2][1] in (10,) and lin(t[1]) is not None and \
                any(key in [v[1] for v in svars.values()] for key in lin(t[1]) if key != 1):
            d = lin(t[1])
            if any(key != 1 and key not in [v[1] for v in svars.values()] for key in d):
                raise Unsupported('total mixed with other variables')
            f = tuple(sorted(((str(key), c % 10) for key, c in d.items()), key=str))
            if f not in forms:
                forms.append(f)
            return V(f'P{forms.index(f)}')
        if t[0] in ('k', 'inf', 'cur'):
            return t
        if t[0] == 'v':
            if t in svars.values():
                raise Unsupported('the total is used outside a "% 10"')
            return t
        if t[0] == 'cmp':
            return cmp(t[1], strip(t[2]), strip(t[3]))
        if t[0] == 'tab':
            return tab(tuple(strip(x) for x in t[1]), strip(t[2]))
        return build(t[0], [strip(x) for x in t[1:]])
    try:
        shell_p = strip(shell)
    except Unsupported as ex:
        return _search(result, pristine, f'{ex}')
    if len(forms) != 1:
        return _search(result, pristine, f'{len(forms)} different linear forms of the totals under % 10')
    form = dict(forms[0])
    c0 = form.get('1', 0)
    coef = {s: form.get(svars[s][1], 0) for s in sums}
    # per canonical index contributions
    parts = []
    for s in sums:
        r = classify_sum(s)
        if r is None:
            return _search(result, pristine, f'summation shape not recognised: {show(s)[:120]}')
        cls, body = r
        if not parity_determined(body) or (cls != 'all' and not parity_determined(mod(cls, K(2)))):
            return _search(result, pristine, f'contribution depends on more than parities: {show(body)[:120]}')
        parts.append((coef[s], cls, body))
    extra = sorted(free_vars(shell_p) - {'P0'})
    if extra and extra != ['n']:
        return _search(result, pristine, f'result depends on {extra} besides the total')
    pvars = set()
    for _, cls, body in parts:
        pvars |= free_vars(body)
        if cls != 'all':
            pvars |= free_vars(cls)
    pvars = sorted(pvars | {'j', 'n'})
    table = {}
    mismatch = None
    for bits in itertools.product((0, 1), repeat=len(pvars)):
        env = dict(zip(pvars, bits))
        for d in range(10):
            c = 0
            for cf, cls, body in parts:
                if cls != 'all' and (evaluate(cls, env) - env['j']) % 2 != 0:
                    continue
                c += cf * evaluate(body, env, digit=lambda _j, d=d: d)
            want = luhn_term(d, (env['n'] - 1 - env['j']) % 2 == 0)
            table[(bits, d)] = (c % 10, want)
    # unit multiplier u with  contribution == u * luhn  (mod 10)
    cands = [u for u in range(10) if all(c == (u * w) % 10 for (c, w) in table.values())]
    facts = {'sums': len(sums), 'parity_variables': pvars, 'cells': len(table)}
    if not cands:
        bad = next(((bits, d, c, w) for (bits, d), (c, w) in sorted(table.items()) if c != (_guess_u(table) * w) % 10), None)
        return _search(result, pristine, f'per-digit contribution table differs from the Luhn table at {dict(zip(pvars, bad[0]))} '
                                         f'digit {bad[1]}: contributes {bad[2]} (mod 10)', prefer=bad, pvars=pvars, facts=facts)
    u = cands[0]
    # final mapping
    for nz in ((0, 1) if extra else (1,)):
        for s in range(10):
            if nz == 0 and s != 0:
                continue
            p = (c0 + u * s) % 10 if nz else c0 % 10
            env = {'P0': p}
            if extra:
                env['n'] = nz
            got = evaluate(_resolve_n(shell_p, nz) if extra else shell_p, env)
            if got != (10 - s) % 10:
                return _search(result, pristine, f'final mapping gives {got} for a Luhn total = {s} (mod 10), expected {(10 - s) % 10}',
                               facts=facts)
    facts.update(unit=u, constant=c0)
    return Verdict('proved', f'every digit contributes {u} x its Luhn term (mod 10) in all {len(table)} cells of '
                             f'(parities of {", ".join(pvars)}) x digit, each index is covered exactly once, and the final '
                             f'mapping of the total (mod 10) is the Luhn complement for all 10 residues', facts=facts)


def _guess_u(table):
    for (bits, d), (c, w) in table.items():
        if w == 1:
            return c
    return 1


def _resolve_n(t, nz):
    """comparisons of n with constants, for n == 0 (nz = 0) or n >= 1 (nz = 1): only n ? 0 / n ? 1 forms are folded"""
    def f(t):
        if t[0] == 'cmp':
            d = lin(sub(t[2], t[3]))
            if d is not None and set(key for key, c in d.items() if c != 0) <= {'n', 1} and d.get('n', 0) in (1, -1):
                a, c = d.get('n', 0), d.get(1, 0)
                # a*n + c  op 0
                lo, hi = (0, 0) if nz == 0 else (1, None)
                vals = [a * lo + c] + ([a * hi + c] if hi is not None else [])
                op = t[1]
                if nz == 0:
                    return K(int(_CMP[op](vals[0], 0)))
                # n >= 1: decide only when the comparison is constant on [1, inf)
                v1 = _CMP[op](a * 1 + c, 0)
                v2 = _CMP[op](a * 2 + c, 0)
                vbig = _CMP[op](a * 10 ** 6 + c, 0)
                if v1 == v2 == vbig and op in ('<', '<=', '>', '>=', '==', '!='):
                    if op in ('==', '!=') and (-c) % 1 == 0 and a != 0 and (-c / a) >= 1:
                        raise Unsupported('comparison of n with a constant other than 0')
                    return K(int(v1))
                raise Unsupported('comparison of n with a constant other than 0')
            return cmp(t[1], f(t[2]), f(t[3]))
        if t[0] in ('k', 'v', 'inf', 'cur'):
            if t == V('n'):
                raise Unsupported('n used outside a comparison')
            return t
        if t[0] == 'tab':
            return tab(tuple(f(x) for x in t[1]), f(t[2]))
        return build(t[0], [f(x) for x in t[1:]])
    return f(t)


def _search(result, pristine, reason, prefer=None, pvars=None, facts=None):
    """look for a concrete argument on which the closed form differs from the Luhn digit"""
    fv = sorted(free_vars(result))
    kvars = [v for v in fv if v != 'n']
    if not pristine and kvars:
        return Verdict('undecided', reason + ' (the argument is pre-processed: no witness can be rendered)', facts=facts)
    tried = 0
    for n in range(0, 6):
        for kvals in itertools.product((0, 1, 2), repeat=len(kvars)):
            pool = (0, 1, 5, 9) if n > 3 else range(10) if n <= 2 else (0, 1, 4, 5, 9)
            for digits in itertools.product(pool, repeat=n):
                env = {'n': n, **dict(zip(kvars, kvals))}
                tried += 1
                try:
                    got = evaluate(result, env, digit=lambda j, ds=digits: ds[j])
                except (IndexError, KeyError, ZeroDivisionError, Unsupported):
                    continue
                want = reference_check_digit(digits)
                if got != want:
                    k = kvals[0] if kvals else 0
                    text = ''.join(map(str, digits))
                    arg = (text[:1] + ' ' * k + text[1:]) if text else ' ' * k
                    return Verdict('refuted', reason, witness={'card_number': arg, 'computed': got, 'luhn': want}, facts=facts)
    return Verdict('undecided', reason + f' (no differing argument among {tried} small ones)', facts=facts)


def analyse_check_digit(prog, fi):
    """-> (Verdict, info) for a function  str -> check digit string"""
    ev = FoldEval(prog, fi.module)
    raw = RawStr('k')
    try:
        r = ev.call_def(fi.node, [raw], fi.module)
    except Unsupported as ex:
        return Verdict('undecided', f'outside the fold fragment: {ex}'), {}
    except RecursionError:
        return Verdict('undecided', 'outside the fold fragment: recursion'), {}
    if isinstance(r, (StrOfInt, CharDigit)):
        t = r.t
    else:
        return Verdict('undecided', f'the result {r!r} is not the decimal rendering of an integer'), {}
    info = {'closed_form': show(t)[:400]}
    try:
        v = decide_luhn(t, pristine=ev.raw_pristine_used)
    except Unsupported as ex:
        v = Verdict('undecided', f'closed form not decidable: {ex}')
    return v, info
