"""Exponential ambiguity of a regular expression, decided on its syntax tree (re._parser), never by running it.

A repetition  (X)+ / (X)* / (X){n,}  is exponentially ambiguous when some non-empty u, v in L(X) have uv in L(X) as well:
the string (uv)^n then splits into iterations in 2^n ways, and a backtracking matcher (CPython's) tries them all whenever
what follows the repetition fails.  The test  L(X.X) /\\ L(X) != {}  is a reachability question in the product of two
small NFAs built from the tree; characters are represented by the ones the pattern mentions plus one member of each
category and one character it does not mention.
"""
from __future__ import annotations

import re
from re import _parser as sp
from re import _constants as sc


class Unsupported(Exception):
    pass


def _alphabet(tree):
    chars = set()

    def walk(items):
        for op, av in items:
            if op in (sc.LITERAL, sc.NOT_LITERAL):
                chars.add(av)
            elif op is sc.IN:
                for o2, a2 in av:
                    if o2 is sc.LITERAL:
                        chars.add(a2)
                    elif o2 is sc.RANGE:
                        chars.update((a2[0], a2[1], (a2[0] + a2[1]) // 2))
            elif op is sc.BRANCH:
                for alt in av[1]:
                    walk(alt)
            elif op is sc.SUBPATTERN:
                walk(av[3])
            elif op in (sc.MAX_REPEAT, sc.MIN_REPEAT, getattr(sc, 'POSSESSIVE_REPEAT', None)):
                walk(av[2])
            elif op is getattr(sc, 'ATOMIC_GROUP', None):
                walk(av)
    walk(tree)
    chars.update(ord(c) for c in '0a_ \n\x01~')
    # printable representatives first: witnesses read better
    return sorted(chars, key=lambda c: (not (48 <= c < 127), c))


def _category(cat, c):
    ch = chr(c)
    name = str(cat)
    neg = 'NOT_' in name
    if 'DIGIT' in name:
        r = ch.isdigit()
    elif 'SPACE' in name:
        r = ch.isspace()
    elif 'WORD' in name:
        r = ch.isalnum() or ch == '_'
    elif 'LINEBREAK' in name:
        r = ch == '\n'
    else:
        raise Unsupported(f'category {name}')
    return r != neg


def _in_set(av, c):
    negate = False
    hit = False
    for o2, a2 in av:
        if o2 is sc.NEGATE:
            negate = True
        elif o2 is sc.LITERAL:
            hit = hit or c == a2
        elif o2 is sc.RANGE:
            hit = hit or a2[0] <= c <= a2[1]
        elif o2 is sc.CATEGORY:
            hit = hit or _category(a2, c)
        else:
            raise Unsupported(f'set item {o2}')
    return hit != negate


class NFA:
    """Thompson construction; transitions[state] = [(pred or None for epsilon, target)]"""
    def __init__(self, dotall=False):
        self.tr = []
        self.dotall = dotall

    def new(self):
        self.tr.append([])
        return len(self.tr) - 1

    def eps(self, a, b):
        self.tr[a].append((None, b))

    def build(self, items, start):
        cur = start
        for op, av in items:
            cur = self.node(op, av, cur)
        return cur

    def node(self, op, av, s):
        if op is sc.LITERAL:
            e = self.new()
            self.tr[s].append((lambda c, v=av: c == v, e))
            return e
        if op is sc.NOT_LITERAL:
            e = self.new()
            self.tr[s].append((lambda c, v=av: c != v, e))
            return e
        if op is sc.ANY:
            e = self.new()
            self.tr[s].append(((lambda c: True) if self.dotall else (lambda c: c != 10), e))
            return e
        if op is sc.IN:
            e = self.new()
            self.tr[s].append((lambda c, v=av: _in_set(v, c), e))
            return e
        if op is sc.BRANCH:
            e = self.new()
            for alt in av[1]:
                a = self.new()
                self.eps(s, a)
                self.eps(self.build(alt, a), e)
            return e
        if op is sc.SUBPATTERN:
            return self.build(av[3], s)
        if op is sc.AT:
            return s            # anchors consume nothing (over-approximation of the language)
        if op in (sc.MAX_REPEAT, sc.MIN_REPEAT) or op is getattr(sc, 'POSSESSIVE_REPEAT', None):
            lo, hi, body = av
            if lo > 40 or (hi is not sc.MAXREPEAT and hi > 40):
                raise Unsupported('large counted repetition')
            cur = s
            for _ in range(lo):
                cur = self.build(body, cur)
            if hi is sc.MAXREPEAT:
                loop = self.new()
                self.eps(cur, loop)
                back = self.build(body, loop)
                self.eps(back, loop)
                return loop
            e = self.new()
            self.eps(cur, e)
            for _ in range(hi - lo):
                cur = self.build(body, cur)
                self.eps(cur, e)
            return e
        raise Unsupported(f'regular expression construct {op}')


def _xx_meets_x(body, alphabet, dotall):
    """-> (u+v as text) when some non-empty u, v in L(body) have uv in L(body); None otherwise"""
    a = NFA(dotall)
    s1 = a.new()
    e1 = a.build(body, s1)
    s2 = a.new()
    e2 = a.build(body, s2)
    b = NFA(dotall)
    sb = b.new()
    eb = b.build(body, sb)
    # product state: (state of A, copy 1|2, consumed something in this copy, state of B); B must consume as A does
    start = (s1, 1, False, sb)
    seen = {start: None}
    todo = [start]
    while todo:
        st = todo.pop(0)
        qa, copy, used, qb = st
        if copy == 2 and used and qa == e2 and qb == eb:
            out = []
            while seen[st] is not None:
                st, ch = seen[st]
                if ch is not None:
                    out.append(chr(ch))
            return ''.join(reversed(out))
        nxt = []
        for pred, t in a.tr[qa]:
            if pred is None:
                nxt.append(((t, copy, used, qb), None))
        if copy == 1 and used and qa == e1:
            nxt.append(((s2, 2, False, qb), None))
        for pred, t in b.tr[qb]:
            if pred is None:
                nxt.append(((qa, copy, used, t), None))
        for pa, ta in a.tr[qa]:
            if pa is None:
                continue
            for pb, tb in b.tr[qb]:
                if pb is None:
                    continue
                for c in alphabet:
                    if pa(c) and pb(c):
                        nxt.append(((ta, copy, True, tb), c))
                        break
        for n, ch in nxt:
            if n not in seen:
                seen[n] = (st, ch)
                todo.append(n)
        if len(seen) > 200000:
            raise Unsupported('product automaton too large')
    return None


def exponential_repeats(pattern, flags=0):
    """-> [(text of the witness string u+v, is something mandatory after the repetition)] for every unbounded repetition of
    `pattern` that is exponentially ambiguous.  Raises Unsupported for constructs outside the fragment."""
    tree = sp.parse(pattern, flags)
    dotall = bool((flags | tree.state.flags) & re.DOTALL)
    alphabet = _alphabet(tree)
    found = []

    def can_fail_after(rest):
        # anything that consumes or asserts after the repetition can fail
        return any(op not in (sc.MAX_REPEAT, sc.MIN_REPEAT) or av[0] > 0 for op, av in rest)

    def walk(items, tail_fails):
        items = list(items)
        for i, (op, av) in enumerate(items):
            after = tail_fails or can_fail_after(items[i + 1:])
            if op in (sc.MAX_REPEAT, sc.MIN_REPEAT):
                lo, hi, body = av
                if hi is sc.MAXREPEAT:
                    w = _xx_meets_x(body, alphabet, dotall)
                    if w is not None:
                        found.append((w, after))
                walk(body, True)
            elif op is sc.BRANCH:
                for alt in av[1]:
                    walk(alt, after)
            elif op is sc.SUBPATTERN:
                walk(av[3], after)
            elif op in (sc.LITERAL, sc.NOT_LITERAL, sc.ANY, sc.IN, sc.AT):
                pass
            elif op is sc.GROUPREF or op is sc.ASSERT or op is sc.ASSERT_NOT or op is getattr(sc, 'GROUPREF_EXISTS', None):
                raise Unsupported(f'regular expression construct {op}')
            else:
                raise Unsupported(f'regular expression construct {op}')
    walk(tree, False)
    return found
