"""K2 - abstract interpreter over the resolved program (driver, statements, calls)."""
from __future__ import annotations

import ast
import os

from .lin import Lin, Store, Infeasible
from .avals import *   # noqa
from .avals import value_tags
from . import seqops
from .model import AnalysisError, norm_text
from .signals import Raised, Returned, BreakSig, ContinueSig, LoopBack, Abandon, ConsumerSignal
from .exprs import ExprMixin
from .loops import LoopMixin
from .calls import CallMixin


ANCHORED = {
    'mciipm.VbsReader.__next__', 'mciipm.IpmReader.__next__', 'mciipm.IpmParamReader.__next__', 'mciipm.IpmParamReader.__init__',
    'mciipm.IpmParamReader._get_param_field', 'mciipm.Unblock1014.read', 'mciipm.Block1014.write', 'mciipm.Block1014.finalise',
    'mciipm.Block1014.seek', 'mciipm.Block1014.close', 'mciipm.VbsWriter.write', 'mciipm.VbsWriter.close', 'mciipm.VbsWriter.write_many',
    'mciipm.IpmWriter.write', 'mciipm.block_1014', 'mciipm.unblock_1014', 'mciipm.ipm_info', 'mciipm.block_1014_check',
    'mciipm.bitmap_check', 'mciipm.encoding_check', 'mciipm.vbs_list_to_bytes', 'mciipm.vbs_bytes_to_list',
    'iso8583.loads', 'iso8583.dumps', 'iso8583._iso8583_to_dict', 'iso8583._dict_to_iso8583', 'iso8583._field_to_iso8583',
    'iso8583._iso8583_to_field', 'iso8583._pds_to_de', 'iso8583._pds_to_dict', 'iso8583._icc_to_dict', 'iso8583._get_de43_fields',
    'iso8583._string_to_pytype', 'iso8583._pytype_to_string', 'BitArray.BitArray.tolist', 'BitArray.BitArray.fromlist',
    'card.mask', 'card.calculate_check_digit', 'card.validate_check_digit', 'card.add_check_digit',
    'pinblock.calculate_pvv', 'key.calculate_kcv', 'key.encrypt_key',
}


class Event:
    __slots__ = ('kind', 'node', 'data', 'stack', 'seq')

    def __init__(self, kind, node, data, stack, seq):
        self.kind = kind
        self.node = node
        self.data = data
        self.stack = stack
        self.seq = seq

    def __repr__(self):
        return f'Event({self.kind}, {self.data})'

    @property
    def func(self):
        return self.stack[-1] if self.stack else None

    def under(self, fname):
        """The event happened in `fname` itself or in a helper it called (any function that is not itself an anchored
        function of the analysis), so that extracting or inlining a helper does not move events out of sight."""
        st = self.stack
        if not st:
            return False
        if st[-1] == fname:
            return True
        if fname not in st:
            return False
        i = len(st) - 1 - st[::-1].index(fname)
        return all(f not in ANCHORED for f in st[i + 1:])


_ABLATE = frozenset(x for x in os.environ.get('CARDVERIF_ABLATE', '').split(',') if x)


class Path:
    def __init__(self, it, outcome, value):
        self.choices = list(it.taken)
        self.labels = list(it.labels)
        self.store = it.store
        self.events = it.events
        self.facts = it.facts
        if _ABLATE:
            # vacuity audit (tools/ablate.py): hide whole kinds of observations from the rules; an obligation that stays
            # PROVED although everything it reads was hidden passes vacuously
            self.events = [e for e in it.events if e.kind not in _ABLATE]
            self.facts = [f for f in it.facts if ('fact:' + f[0]) not in _ABLATE]
        self.outcome = outcome      # 'return' | 'raise' | 'loopback' | 'abandon'
        self.value = value
        self.unknowns = it.unknowns
        self.tainted = it.tainted   # decisions that depended on unknown values
        self.binds = it.binds
        self.interp = it

    def evs(self, kind=None, **flt):
        for e in self.events:
            if kind is not None and e.kind != kind:
                continue
            ok = True
            for k, v in flt.items():
                if e.data.get(k) != v:
                    ok = False
                    break
            if ok:
                yield e

    def __repr__(self):
        return f'<Path {self.outcome} {self.value!r} choices={self.choices}>'


def _is_generator(fnode):
    stack = list(fnode.body)
    while stack:
        n = stack.pop()
        if isinstance(n, (ast.Yield, ast.YieldFrom)):
            return True
        if isinstance(n, (ast.FunctionDef, ast.Lambda, ast.ClassDef)):
            continue
        stack.extend(ast.iter_child_nodes(n))
    return False


class _RestOfWith(ast.stmt):
    """the remaining items and the body of a with statement whose earlier item is a @contextmanager generator"""
    _fields = ('items_view', 'body')

    def __init__(self, with_node, first):
        super().__init__()
        self.with_node = with_node
        self.first = first
        self.items_view = list(with_node.items[first:])
        self.body = with_node.body
        self.lineno = getattr(with_node, 'lineno', 0)
        self.col_offset = getattr(with_node, 'col_offset', 0)


class Frame:
    def __init__(self, fi, module, self_obj=None, cls=None):
        self.fi = fi
        self.module = module
        self.locals = {}
        self.self_obj = self_obj
        self.cls = cls       # ClassInfo in which the function is defined (for super())


class Analysis:
    """Explores every path of one entry computation."""

    def __init__(self, prog, mode='inv', raise_ops=False, summaries=None, max_paths=20000,
                 unroll=2, max_depth=12, hooks=None, drop_asserts=False):
        self.prog = prog
        self.mode = mode              # 'inv' (loop invariants) | 'unroll'
        self.raise_ops = raise_ops
        self.summaries = dict(summaries or {})
        # a summarised function may have been moved behind an alias (module-level name bound to a static method, a
        # re-export...): the summary follows the name to whatever it resolves to now
        for k, v in list(self.summaries.items()):
            try:
                short = prog.func(k).short
            except Exception:
                continue
            self.summaries.setdefault(short, v)
        self.max_paths = max_paths
        self.unroll = unroll
        self.max_depth = max_depth
        self.widen = {}               # (loop node id, varkey) -> level
        self.widen_requests = {}
        self.hooks = hooks or {}
        self.drop_asserts = drop_asserts     # python -O: assert statements are not compiled
        self.visited_calls = set()
        self.rounds = 0
        self.dropped = 0

    def explore(self, entry):
        for rnd in range(8):
            self.rounds = rnd + 1
            self.widen_requests = {}
            paths = self._explore_once(entry)
            if not self.widen_requests:
                return paths
            for k, lvl in self.widen_requests.items():
                self.widen[k] = max(self.widen.get(k, 0), lvl)
        raise AnalysisError('loop invariant generalisation did not stabilise')

    def _explore_once(self, entry):
        import time
        work = [()]
        paths = []
        self.dropped = 0
        t0 = time.time()
        budget = float(os.environ.get('CARDVERIF_TIME_BUDGET', '150'))
        while work:
            if len(paths) > self.max_paths:
                raise AnalysisError(f'path budget exceeded ({self.max_paths})')
            if len(paths) % 64 == 0 and time.time() - t0 > budget:
                # a check must answer: an exploration that does not finish is "analysis incomplete" (exit 2), not a hang
                from collections import Counter
                hot = Counter(l for q in paths[-2000:] for l in q.interp.labels[-6:]).most_common(6)
                raise AnalysisError(f'time budget of {budget:.0f}s exceeded after {len(paths)} abstract paths of one entry point '
                                    f'(most frequent choice points: {hot})')
            prefix = work.pop()
            it = Interp(self, prefix)
            outcome, value = None, None
            try:
                value = entry(it)
                outcome = 'return'
            except Raised as r:
                outcome, value = 'raise', r.exc
            except LoopBack as lb:
                outcome, value = 'loopback', lb.node
            except Abandon as a:
                outcome, value = 'abandon', a.reason
            except Infeasible:
                self.dropped += 1
                work.extend(it.alternatives)
                continue
            except (Returned, BreakSig, ContinueSig) as ex:
                raise AnalysisError(f'stray control signal {type(ex).__name__}')
            work.extend(it.alternatives)
            paths.append(Path(it, outcome, value))
        return paths


class Interp(ExprMixin, LoopMixin, CallMixin):
    def __init__(self, an, prefix):
        self.an = an
        self.prog = an.prog
        self.prefix = prefix
        self.cursor = 0
        self.taken = []
        self.labels = []
        self.alternatives = []
        self.store = Store()
        self.events = []
        self.facts = []
        self.unknowns = []
        self.tainted = []
        self.binds = {}        # SymV name -> python const ;   ('truth', name) -> bool ; ('ne', name) -> set
        self.frames = []
        self.stack = ()
        self.counter = {}
        self.nofork = 0
        self.pending_raises = []
        self.modcache = {}
        self.seqno = 0
        self.files = {}
        self.in_handler = []   # stack of currently handled exceptions (for bare raise)
        self.origin = {}       # symbol -> provenance description
        self.user = {}         # objects the entry wants to find again
        self.all_files = []

    # ---------------------------------------------------------------- naming / choices
    def fresh(self, base):
        n = self.counter.get(base, 0) + 1
        self.counter[base] = n
        return f'{base}#{n}' if n > 1 or base in ('t', 'w', 'byte', 'k') else base

    def choose(self, n, label=''):
        """Pick one of n alternatives (0 first); schedule the others."""
        if self.nofork:
            self.assumed = getattr(self, 'assumed', 0) + 1
            return None
        if self.cursor < len(self.prefix):
            c = self.prefix[self.cursor]
        else:
            c = 0
            base = tuple(self.taken)
            for i in range(n - 1, 0, -1):
                self.alternatives.append(base + (i,))
        self.cursor += 1
        self.taken.append(c)
        self.labels.append(label)
        return c

    def event(self, kind, node, **data):
        if getattr(self, 'in_default', 0):
            data['def_time'] = True      # happens while a parameter default is evaluated: once, at import
        self.seqno += 1
        e = Event(kind, node, data, self.stack, self.seqno)
        if not getattr(self, '_suppress_events', 0):
            self.events.append(e)
        return e

    def fact(self, kind, truth, **data):
        self.facts.append((kind, truth, data))

    def note_unknown(self, node, reason):
        self.unknowns.append((reason, node, self.stack))
        self.event('unknown', node, reason=reason)

    # ---------------------------------------------------------------- decisions
    def decide_ge0(self, lin, label='ge0'):
        lin = Lin.of(lin)
        r = self.store.decide_ge0(lin)
        if r is not None:
            return r
        c = self.choose(2, f'{lin}>=0')
        if c is None:      # nofork: assume true without recording
            return True
        if c == 0:
            self.store.assume_ge0(lin)
            return True
        self.store.assume_ge0(-lin - 1)
        return False

    def decide_eq0(self, lin):
        lin = Lin.of(lin)
        r = self.store.decide_eq0(lin)
        if r is not None:
            return r
        c = self.choose(2, f'{lin}==0')
        if c is None:
            return True
        if c == 0:
            self.store.assume_eq0(lin)
            return True
        # not equal: split on sign if needed
        if self.store.prove_ge0(lin):
            self.store.assume_ge0(lin - 1)
        elif self.store.prove_ge0(-lin):
            self.store.assume_ge0(-lin - 1)
        else:
            c2 = self.choose(2, f'{lin}>0')
            if c2 == 0:
                self.store.assume_ge0(lin - 1)
            else:
                self.store.assume_ge0(-lin - 1)
        return False

    def assume_ge0(self, lin):
        self.store.assume_ge0(Lin.of(lin))

    def may_raise(self, exc_cls, node, op, wire=False, cond=None, args=()):
        """A raising operation whose safety could not be established.  In raise_ops mode this forks a
        path on which the operation raises."""
        self.event('op-may-raise', node, exc=exc_cls, op=op, wire=wire)
        if not self.an.raise_ops:
            return
        if self.nofork:
            self.pending_raises.append((exc_cls, node, op, wire))
            return
        c = self.choose(2, f'raise {exc_cls.__name__} at {op}')
        if c == 1:
            exc = ExcV(exc_cls, args, node=node, stack=self.stack, op=op, definite=wire)
            raise Raised(exc)

    def op_safe(self, node, op, why):
        self.event('op-discharged', node, op=op, why=why)

    # ---------------------------------------------------------------- entry helpers
    def new_file(self, name, tags=frozenset(), mode=None):
        f = FileV(name, tags=tags, mode=mode)
        self.all_files.append(f)
        return f

    def sym_bytes(self, name, tags=frozenset(), lo=0, hi=None, charset=None):
        src = seqops.new_source(self, name, 'bytes', lo, hi, tags, charset)
        return seqops.whole(src)

    def sym_str(self, name, tags=frozenset(), lo=0, hi=None, charset=None):
        src = seqops.new_source(self, name, 'str', lo, hi, tags, charset)
        return seqops.whole(src)

    def sym_int(self, name, lo=None, hi=None, tags=frozenset()):
        s = self.fresh(name)
        self.store.declare(s, lo, hi)
        return IntV(Lin.sym(s), tags)

    def sym(self, name, kind='any', choices=None, tags=frozenset()):
        return SymV(self.fresh(name), kind, choices, tags)

    def make_obj(self, ci, **fields):
        o = ObjV(ci)
        o.fields.update(fields)
        return o

    # ---------------------------------------------------------------- calls
    NEUTRAL_DECORATORS = {'staticmethod', 'classmethod', 'property', 'cached_property', 'abstractmethod', 'contextmanager',
                          'wraps', 'overload', 'setter', 'getter', 'final', 'override'}

    def _effective_decorators(self, fi):
        """the decorators of fi that change what a call does: [(kind, node)] with kind 'cache' | 'user' | 'unknown'"""
        out = []
        for d in fi.node.decorator_list:
            base = d.func if isinstance(d, ast.Call) else d
            name = base.attr if isinstance(base, ast.Attribute) else base.id if isinstance(base, ast.Name) else None
            if name in self.NEUTRAL_DECORATORS:
                continue
            if name in ('lru_cache', 'cache'):
                out.append(('cache', d))
                continue
            r = self.prog.resolve_expr(fi.module, base) if hasattr(self.prog, 'resolve_expr') else None
            out.append(('user' if r and r[0] == 'func' else 'unknown', d))
        return out

    @staticmethod
    def _cache_bounded(eff):
        """lru_cache without maxsize=None keeps at most maxsize (default 128) entries; functools.cache keeps all"""
        for kind, d in eff:
            if kind != 'cache':
                continue
            base = d.func if isinstance(d, ast.Call) else d
            name = base.attr if isinstance(base, ast.Attribute) else getattr(base, 'id', None)
            if name == 'cache':
                return False
            if isinstance(d, ast.Call):
                ms = next((k.value for k in d.keywords if k.arg == 'maxsize'), d.args[0] if d.args else None)
                if isinstance(ms, ast.Constant) and ms.value is None:
                    return False
            return True
        return False

    def _decorated(self, fi, node):
        """the callable a decorated module-level function is bound to: its decorators applied once (innermost first)"""
        key = ('decorated', fi.qualname)
        if key in self.modcache:
            return self.modcache[key]
        cur = FuncV(fi)
        cur.raw = True
        for kind, d in reversed(self._effective_decorators(fi)):
            if kind == 'user':
                dec = self.eval_in_module(fi.module, d)
                cur = self.call_value(dec, [cur], {}, node)
            elif kind == 'cache':
                w = FuncV(fi)
                w.raw = True
                w.memo = cur
                w.bounded = self._cache_bounded([(kind, d)])
                cur = w
            else:
                self.note_unknown(node, f'decorator {ast.unparse(d)[:40]} of {fi.name}')
        self.modcache[key] = cur
        return cur

    def call_function(self, fi, args=(), kwargs=None, self_obj=None, node=None, cls_obj=None, closure=None, raw=False):
        kwargs = dict(kwargs or {})
        args = list(args)
        summ = self.an.summaries.get(fi.short)
        if summ is not None:
            self.event('call', node, callee=fi.short, args=args, kwargs=kwargs, summary=True, self_obj=self_obj)
            return summ(self, fi, args, kwargs, node, self_obj)
        if not raw and fi.node.decorator_list and self._effective_decorators(fi):
            if self_obj is None and cls_obj is None and closure is None and fi.cls is None:
                # a decorated module-level function: what is called is the result of its decorators
                return self.call_value(self._decorated(fi, node), args, kwargs, node)
            eff = self._effective_decorators(fi)
            if all(k == 'cache' for k, _d in eff):
                # a memoised method: one result per distinct argument tuple (and receiver), shared by every later call
                try:
                    ck = ('lru-m', fi.qualname, id(self_obj) if self_obj is not None else None,
                          tuple(self.py_key(a) for a in args), tuple(sorted((k, self.py_key(v)) for k, v in kwargs.items())))
                    hash(ck)
                except TypeError:
                    ck = None
                if ck is not None and all(x is not None for x in ck[3]) and all(v is not None for _k, v in ck[4]):
                    if ck in self.modcache and self._cache_bounded(eff) and self.choose(2, f'lru_cache of {fi.name}: hit / evicted') == 1:
                        # a bounded lru_cache forgets: the entry may have been evicted by other calls in between
                        del self.modcache[ck]
                    if ck not in self.modcache:
                        r = self.call_function(fi, args, kwargs, self_obj=self_obj, node=node, cls_obj=cls_obj, closure=closure, raw=True)
                        if isinstance(r, (DictV, ListV, ObjV)):
                            r.tags = frozenset(r.tags) | {'global', 'cached'}
                        elif isinstance(r, IntV):
                            r = IntV(r.lin, frozenset(r.tags) | {'cached'})
                        self.modcache[ck] = r
                    return self.modcache[ck]
            self.note_unknown(node, f'decorated method or nested function {fi.name}: decorator not applied')
        if not getattr(self, '_starting_generator', False) and _is_generator(fi.node):
            return GenCallV(fi, args, kwargs, self_obj, cls_obj, closure)
        self._starting_generator = False
        if len(self.frames) >= self.an.max_depth:
            raise Abandon(f'inlining depth bound at {fi.short}')
        if any(f.fi is fi and f.self_obj is self_obj for f in self.frames) and \
                sum(1 for f in self.frames if f.fi is fi) >= 2:
            self.event('recursion', node, callee=fi.short)
            raise Abandon(f'recursion at {fi.short}')
        frame = Frame(fi, fi.module, self_obj, fi.cls)
        frame.cls_obj = cls_obj
        frame.closure = closure
        self._bind_params(fi, frame, args, kwargs, self_obj, cls_obj, node)
        self.frames.append(frame)
        old_stack = self.stack
        self.stack = old_stack + (fi.short,)
        self.event('enter', node, callee=fi.short, args=args, kwargs=kwargs, self_obj=self_obj,
                   locals=dict(frame.locals))
        is_gen = _is_generator(fi.node)
        try:
            try:
                self.exec_block(fi.node.body)
                result = ConstV(None)
            except Returned as r:
                result = r.value
            except Raised as r:
                if is_gen and getattr(r.exc, 'cls', None) is StopIteration:
                    # PEP 479: a StopIteration that leaves a generator body reaches the consumer as RuntimeError
                    raise Raised(ExcV(RuntimeError, [], node=getattr(r.exc, 'node', node), stack=self.stack,
                                      op='StopIteration raised inside a generator', definite=True))
                raise
            self.event('leave', node, callee=fi.short, result=result, self_obj=self_obj)
            return result
        finally:
            self.frames.pop()
            self.stack = old_stack

    def _bind_params(self, fi, frame, args, kwargs, self_obj, cls_obj, node):
        a = fi.node.args
        params = [p.arg for p in a.posonlyargs + a.args]
        pos = list(args)
        if fi.cls is not None and not fi.is_static:
            if fi.is_classmethod:
                pos.insert(0, cls_obj if cls_obj is not None else ClassV(fi.cls))
            elif self_obj is not None:
                pos.insert(0, self_obj)
        defaults = a.defaults
        dstart = len(params) - len(defaults)
        loc = frame.locals
        for i, p in enumerate(params):
            if i < len(pos):
                loc[p] = pos[i]
            elif p in kwargs:
                loc[p] = kwargs.pop(p)
            elif i >= dstart:
                loc[p] = self._eval_default(fi, defaults[i - dstart])
            else:
                loc[p] = UnkV(f'missing argument {p} of {fi.short}')
                self.note_unknown(node, f'missing argument {p} in call of {fi.short}')
        extra = pos[len(params):]
        if a.vararg:
            loc[a.vararg.arg] = TupleV(extra)
        elif extra:
            self.note_unknown(node, f'too many positional arguments for {fi.short}')
        for i, p in enumerate(a.kwonlyargs):
            if p.arg in kwargs:
                loc[p.arg] = kwargs.pop(p.arg)
            elif a.kw_defaults[i] is not None:
                loc[p.arg] = self._eval_default(fi, a.kw_defaults[i])
            else:
                loc[p.arg] = UnkV(f'missing kw argument {p.arg}')
        if a.kwarg:
            star = kwargs.pop('**', None)
            d = DictV(items=kwargs, desc=f'kwargs of {fi.short}')
            if star is not None:
                d.open = True
                d.star = star
                if isinstance(star, DictV):
                    for k, v in star.items.items():
                        d.items.setdefault(k, v)
                    d.default = star.default
                    d.star = getattr(star, 'star', star)
            loc[a.kwarg.arg] = d
        else:
            star = kwargs.pop('**', None)
            if star is not None:
                # unknown extra keywords may bind parameters that are still at their default
                self._bind_star(fi, frame, star, params, pos, node)
            if kwargs:
                self.note_unknown(node, f'unexpected keyword arguments {sorted(kwargs)} for {fi.short}')

    def _bind_star(self, fi, frame, star, params, pos, node):
        if isinstance(star, DictV):
            for k, v in list(star.items.items()):
                if k in params and params.index(k) >= len(pos):
                    frame.locals[k] = v
            if star.default is not None or star.open:
                for i, p in enumerate(params):
                    if i >= len(pos) and p not in star.items and getattr(star, 'passthrough', True):
                        # may be supplied by the open kwargs: leave the default but remember
                        self.event('star-may-bind', node, callee=fi.short, param=p, star=star)
        else:
            self.event('star-may-bind', node, callee=fi.short, param='*', star=star)

    def _eval_default(self, fi, expr):
        """Parameter defaults are evaluated once, when the def statement runs: values produced here are shared by
        every call."""
        key = ('default', fi.qualname, id(expr))
        if key in self.modcache:
            return self.modcache[key]      # one object for all calls
        frame = Frame(fi, fi.module)
        self.frames.append(frame)
        self.in_default = getattr(self, 'in_default', 0) + 1
        try:
            v = self.eval(expr)
            if any(isinstance(n, ast.Call) for n in ast.walk(expr)):
                v = v.with_tags({'def-time'}) if hasattr(v, 'with_tags') else v
            if isinstance(v, (DictV, ListV, ObjV)) and not isinstance(v, PyLit):
                # a mutable default: created once, shared by every call that does not pass the argument
                v.tags = frozenset(v.tags) | {'global', 'default-arg'}
                if isinstance(v, (DictV, ListV)):
                    v.desc = f'mutable default argument of {fi.name}()'
                self.modcache[key] = v
            return v
        finally:
            self.in_default -= 1
            self.frames.pop()

    # ---------------------------------------------------------------- statements
    def raise_mode(self):
        """raising operations fork (escape analysis): a repeated parse must fork again, so results are not memoised"""
        return bool(self.an.raise_ops)

    def exec_block(self, stmts):
        for st in stmts:
            self.exec_stmt(st)

    def exec_stmt(self, st):
        m = getattr(self, 'st_' + type(st).__name__, None)
        if m is None:
            self.note_unknown(st, f'statement {type(st).__name__}')
            return
        m(st)

    def st_Expr(self, st):
        self.eval(st.value)

    def st_Pass(self, st):
        pass

    def st_Import(self, st):
        for a in st.names:
            name = a.asname or a.name.split('.')[0]
            target = a.name if a.asname else a.name.split('.')[0]
            if a.name.split('.')[0] == 'dateutil':
                # optional dependency: present or ImportError
                pass
            self.frames[-1].locals[name] = ExtV(target)

    def st_ImportFrom(self, st):
        for a in st.names:
            self.frames[-1].locals[a.asname or a.name] = ExtV(f'{st.module}.{a.name}')

    def st_Global(self, st):
        self.event('global-decl', st, names=list(st.names))
        self.frames[-1].globals_decl = set(getattr(self.frames[-1], 'globals_decl', ())) | set(st.names)

    def st_Nonlocal(self, st):
        self.event('global-decl', st, names=list(st.names))

    def st_Assert(self, st):
        if self.an.drop_asserts:
            self.event('assert-dropped', st)
            return
        t = self.truth(self.eval(st.test))
        self.event('assert', st, truth=t)
        if not t:
            import builtins
            raise Raised(ExcV(builtins.AssertionError, [], node=st, stack=self.stack, op='assert'))

    def st_Return(self, st):
        v = self.eval(st.value) if st.value is not None else ConstV(None)
        self.event('return', st, value=v, locals=dict(self.frames[-1].locals))
        raise Returned(v)

    def st_Raise(self, st):
        if st.exc is None:
            if self.in_handler:
                raise Raised(self.in_handler[-1])
            self.note_unknown(st, 'bare raise outside handler')
            raise Abandon('bare raise')
        v = self.eval(st.exc)
        exc = self._to_exc(v, st)
        if st.cause is not None:
            exc.cause = self.eval(st.cause)
        exc.raise_node = st
        self.event('raise', st, exc=exc, locals=dict(self.frames[-1].locals))
        raise Raised(exc)

    def _to_exc(self, v, node):
        if isinstance(v, ExcV):
            if v.node is None:
                v.node = node
            v.stack = self.stack
            return v
        if isinstance(v, ClassV):
            return self.instantiate_exc(v.ci, [], {}, node)
        if isinstance(v, ExtV):
            pc = self.py_exc_class(v.name)
            if pc is not None:
                return ExcV(pc, [], node=node, stack=self.stack)
        self.note_unknown(node, f'raise of {v!r}')
        import builtins
        return ExcV(builtins.Exception, [], node=node, stack=self.stack, definite=False)

    def st_If(self, st):
        if self.truth(self.eval(st.test)):
            self.exec_block(st.body)
        else:
            self.exec_block(st.orelse)

    def st_Assign(self, st):
        v = self.eval(st.value)
        for t in st.targets:
            self.assign(t, v, st)

    def st_AnnAssign(self, st):
        if st.value is not None:
            self.assign(st.target, self.eval(st.value), st)

    def st_AugAssign(self, st):
        cur = self.eval(self._load_of(st.target))
        rhs = self.eval(st.value)
        v = self.binop(st.op, cur, rhs, st)
        if isinstance(cur, ListV) and isinstance(st.op, ast.Add):
            self.event('mutate', st, target=cur, how='+=', value=rhs)
        self.assign(st.target, v, st, aug=True)

    def _load_of(self, target):
        import copy
        t = copy.copy(target)
        t.ctx = ast.Load()
        return t

    def st_Delete(self, st):
        for t in st.targets:
            if isinstance(t, ast.Subscript):
                obj = self.eval(t.value)
                key = self.eval(t.slice)
                self.event('delitem', st, obj=obj, key=key)
                if isinstance(obj, DictV):
                    k = self.py_key(key)
                    if k is not None:
                        obj.items.pop(k, None)
                elif isinstance(obj, PyLit):
                    self.event('mutate-shared', st, target=obj, how='del')
            elif isinstance(t, ast.Name):
                self.frames[-1].locals.pop(t.id, None)
            else:
                self.note_unknown(st, 'del target')

    def assign(self, target, v, st, aug=False):
        if isinstance(target, ast.Name):
            fr = self.frames[-1]
            if target.id in getattr(fr, 'globals_decl', ()):
                self.event('global-write', st, name=target.id, value=v)
            fr.locals[target.id] = v
        elif isinstance(target, (ast.Tuple, ast.List)) and any(isinstance(t, ast.Starred) for t in target.elts):
            # a, *rest = concrete sequence
            vv = self.resolve(v)
            items = vv.items if isinstance(vv, (TupleV, ListV)) and getattr(vv, 'items', None) is not None else None
            k = next(i for i, t in enumerate(target.elts) if isinstance(t, ast.Starred))
            after = len(target.elts) - k - 1
            if items is None or len(items) < len(target.elts) - 1 or sum(isinstance(t, ast.Starred) for t in target.elts) != 1:
                self.note_unknown(st, 'starred assignment from a sequence of unknown length')
                for t in target.elts:
                    self.assign(t.value if isinstance(t, ast.Starred) else t, UnkV('starred unpack'), st)
                return
            for t, x in zip(target.elts[:k], items[:k]):
                self.assign(t, x, st)
            self.assign(target.elts[k].value, ListV(items=list(items[k:len(items) - after])), st)
            for t, x in zip(target.elts[k + 1:], items[len(items) - after:]):
                self.assign(t, x, st)
        elif isinstance(target, (ast.Tuple, ast.List)):
            items = self.unpack(v, len(target.elts), st)
            for t, x in zip(target.elts, items):
                self.assign(t, x, st)
        elif isinstance(target, ast.Attribute):
            obj = self.eval(target.value)
            self.set_attr(obj, target.attr, v, st, aug=aug)
        elif isinstance(target, ast.Subscript):
            obj = self.eval(target.value)
            key = self.eval(target.slice)
            self.set_item(obj, key, v, st)
        else:
            self.note_unknown(st, f'assignment target {type(target).__name__}')

    def unpack(self, v, n, node):
        if isinstance(v, GenCallV):
            v = self.drain_generator(v, node)
        if isinstance(v, TupleV) and len(v.items) == n:
            return v.items
        if isinstance(v, ListV) and v.items is not None and len(v.items) == n:
            return v.items
        if isinstance(v, (IterV, ListV)) and v.elem is not None:
            e = v.elem
            if isinstance(e, TupleV) and False:
                pass
            return [e] * n
        if isinstance(v, SymV) and v.kind == 'elem':
            return [SymV(self.fresh(f'{v.name}.{i}'), 'any', tags=v.tags, origin=('item', v, i)) for i in range(n)]
        if not isinstance(v, UnkV):
            self.note_unknown(node, f'unpack of {v!r}')
        return [UnkV('unpack')] * n

    def set_attr(self, obj, name, v, node, aug=False):
        if isinstance(obj, ObjV):
            if 'global' in obj.tags:
                self.event('mutate-shared', node, target=obj, how=f'attribute {name}')
            r = obj.cls.lookup(name) if name not in obj.fields else None
            if r is not None and r[0] == 'attr':
                d = self.class_attr(r[2], name, r[1])
                if isinstance(d, ObjV) and d.cls.lookup('__set__') is not None and d.cls.lookup('__set__')[0] == 'method':
                    self.call_function(d.cls.lookup('__set__')[1], [obj, v], {}, self_obj=d, node=node)
                    return
            old = obj.fields.get(name)
            obj.fields[name] = v
            self.event('setattr', node, obj=obj, attr=name, value=v, old=old, aug=aug)
        elif isinstance(obj, ClassV):
            self.event('class-attr-write', node, cls=obj.ci, attr=name, value=v)
        elif isinstance(obj, ExcV):
            obj.fields[name] = v
        elif isinstance(obj, ModV):
            self.event('global-write', node, name=f'{obj.mod.name}.{name}', value=v)
        else:
            self.event('setattr-unknown', node, obj=obj, attr=name, value=v)
            if not isinstance(obj, (UnkV, SymV)):
                self.note_unknown(node, f'attribute store on {obj!r}')

    def set_item(self, obj, key, v, node):
        self.event('setitem', node, obj=obj, key=key, value=v)
        if isinstance(obj, (DictV, ListV)) and 'global' in obj.tags:
            self.event('mutate-shared', node, target=obj, how='item assignment')
        if isinstance(obj, DictV):
            k = self.py_key(key)
            if k is not None:
                obj.items[k] = v
            else:
                obj.sym_stores.append((key, v))
        elif isinstance(obj, ListV):
            if obj.items is not None and isinstance(key, IntV):
                k = self.store.canon(key.lin)
                if k.is_const() and -len(obj.items) <= k.c < len(obj.items):
                    obj.items[k.c] = v
                    return
            obj.stores.append((key, v))
            if obj.items is not None:
                # unknown position: contents become generic
                obj.prev_items = list(obj.items)
                obj.elem = self.join_many(obj.items + [v])
                obj.items = None
        elif isinstance(obj, PyLit):
            self.event('mutate-shared', node, target=obj, how='setitem')
        elif isinstance(obj, (SymV, UnkV)):
            pass
        else:
            self.note_unknown(node, f'item store on {obj!r}')

    def join_many(self, vals):
        first = vals[0]
        for x in vals[1:]:
            if repr(x) != repr(first):
                return SymV(self.fresh('elem'), 'any')
        return first

    def py_key(self, key):
        """concrete python key of an abstract value, or None"""
        key = self.resolve(key)
        if isinstance(key, SeqV) and key.is_lit():
            return key.lit_value()
        if isinstance(key, IntV):
            k = self.store.canon(key.lin)
            if k.is_const():
                return k.c
        if isinstance(key, ConstV):
            return key.value
        return None

    def resolve(self, v):
        """Replace a bound SymV by its constant."""
        if isinstance(v, SymV) and v.name in self.binds:
            return self.from_py(self.binds[v.name], v.tags)
        return v

    def from_py(self, x, tags=frozenset()):
        if isinstance(x, bool) or x is None or isinstance(x, float):
            return ConstV(x, tags)
        if isinstance(x, int):
            return IntV(x, tags)
        if isinstance(x, (str, bytes)):
            return lit(x, tags)
        if isinstance(x, tuple):
            return TupleV([self.from_py(i) for i in x], tags)
        if isinstance(x, (dict, list)):
            return PyLit(x, tags=tags)
        return UnkV(f'python value {type(x).__name__}')

    # ---------------------------------------------------------------- try / with
    def st_Try(self, st):
        try:
            try:
                self.exec_block(st.body)
            except Raised as r:
                handler = self._match_handler(st.handlers, r.exc)
                if handler is None:
                    raise
                self.event('caught', handler, exc=r.exc)
                if handler.name:
                    self.frames[-1].locals[handler.name] = r.exc
                self.in_handler.append(r.exc)
                try:
                    self.exec_block(handler.body)
                finally:
                    self.in_handler.pop()
            else:
                self.exec_block(st.orelse)
        except (Raised, Returned, BreakSig, ContinueSig):
            if st.finalbody:
                self.exec_block(st.finalbody)
            raise
        else:
            if st.finalbody:
                self.exec_block(st.finalbody)

    def _match_handler(self, handlers, exc):
        for h in handlers:
            if h.type is None:
                return h
            types = h.type.elts if isinstance(h.type, ast.Tuple) else [h.type]
            for t in types:
                tv = self.eval(t)
                if self.exc_isinstance(exc, tv):
                    return h
        return None

    def exc_isinstance(self, exc, tv):
        """Is abstract exception `exc` an instance of the class value `tv`?"""
        ecls = exc.cls
        tv = self.resolve(tv)
        if isinstance(tv, (TupleV, ListV)) and getattr(tv, 'items', None) is not None:
            # except <name bound to a tuple of classes>
            return any(self.exc_isinstance(exc, x) for x in tv.items)
        if not isinstance(tv, (ClassV, ExtV)):
            self.note_unknown(None, f'handler type {tv!r} is not a class the analysis knows')
            return False
        if isinstance(tv, ClassV):
            return hasattr(ecls, 'mro') and hasattr(ecls, 'qualname') and tv.ci in ecls.mro
        if isinstance(tv, ExtV):
            pc = self.py_exc_class(tv.name)
            if pc is None:
                self.note_unknown(None, f'handler type {tv.name}')
                return False
            if hasattr(ecls, 'qualname'):
                for b in ecls.external_bases():
                    bc = self.py_exc_class(b)
                    if bc is not None and issubclass(bc, pc):
                        return True
                return False
            return issubclass(ecls, pc)
        return False

    _PYEXC = None

    def py_exc_class(self, name):
        import builtins
        import struct
        import binascii
        import decimal
        import json
        short = name.split('.')[-1]
        table = {
            'struct.error': struct.error, 'binascii.Error': binascii.Error,
            'binascii.Incomplete': binascii.Incomplete,
            'decimal.InvalidOperation': decimal.InvalidOperation,
            'decimal.DecimalException': decimal.DecimalException,
            'json.JSONDecodeError': json.JSONDecodeError,
            'object': None,
        }
        if name in table:
            return table[name]
        if name.startswith('builtins.'):
            name = short
        c = getattr(builtins, name, None)
        if isinstance(c, type) and issubclass(c, BaseException):
            return c
        return None

    def st_With(self, st, first=0):
        managers = []
        for idx in range(first, len(st.items)):
            item = st.items[idx]
            cm = self.eval(item.context_expr)
            entered = cm
            if isinstance(cm, GenCallV) and any(d.split('.')[-1] == 'contextmanager' for d in cm.fi.decorators):
                # @contextmanager generator: the rest of the with statement runs at its (single) yield
                cache = st.__dict__.setdefault('_cm_for', {})
                node = cache.get(idx)
                if node is None:
                    rest = st.body if idx == len(st.items) - 1 else [_RestOfWith(st, idx + 1)]
                    target = item.optional_vars if item.optional_vars is not None else ast.Name(id='__cm_unused', ctx=ast.Store())
                    node = ast.For(target=target, iter=item.context_expr, body=rest, orelse=[])
                    ast.copy_location(node, st)
                    node._is_cm = True
                    fi = self.prog.node_owner.get(id(st))
                    if fi is not None:
                        self.prog.node_owner.setdefault(id(node), fi)
                    cache[idx] = node
                self.event('with-enter', st, cm=cm)
                try:
                    self._for_generator(node, cm)
                except (Raised, Returned, BreakSig, ContinueSig) as sig:
                    if self._with_unwind(managers, st, sig):
                        return
                    raise
                for m in reversed(managers):
                    self._with_exit(m, st, exceptional=False)
                return
            if isinstance(cm, ObjV):
                r = cm.cls.lookup('__enter__')
                if r and r[0] == 'method':
                    entered = self.call_function(r[1], [], {}, self_obj=cm, node=item.context_expr)
                else:
                    self.note_unknown(st, f'with on {cm!r} without __enter__')
            self.event('with-enter', st, cm=cm)
            managers.append(cm)
            if item.optional_vars is not None:
                self.assign(item.optional_vars, entered, st)
        from .signals import ConsumerSignal
        try:
            self.exec_block(st.body)
        except (Raised, Returned, BreakSig, ContinueSig, ConsumerSignal) as sig:
            if self._with_unwind(managers, st, sig):
                return
            raise
        else:
            for cm in reversed(managers):
                self._with_exit(cm, st, exceptional=False)

    def st__RestOfWith(self, st):
        return self.st_With(st.with_node, first=st.first)

    def _with_unwind(self, managers, st, sig):
        """The body was left by `sig`: every manager's __exit__ runs, innermost first.  An exception in flight is handed to
        __exit__(type, value, traceback); a true result swallows it - the managers further out then see a normal exit and the
        statement completes (returns True)."""
        exc = sig.exc if isinstance(sig, Raised) else None
        for cm in reversed(managers):
            if self._with_exit(cm, st, exceptional=exc is not None, exc=exc):
                exc = None
        return isinstance(sig, Raised) and exc is None

    def _with_exit(self, cm, st, exceptional, exc=None):
        self.event('with-exit', st, cm=cm, exceptional=exceptional)
        if isinstance(cm, ObjV):
            r = cm.cls.lookup('__exit__')
            if r and r[0] == 'method':
                none = ConstV(None)
                if exc is None:
                    self.call_function(r[1], [none, none, none], {}, self_obj=cm, node=st)
                    return False
                tv = ClassV(exc.cls) if hasattr(exc.cls, 'qualname') else ExtV(getattr(exc.cls, '__name__', 'Exception'))
                res = self.call_function(r[1], [tv, exc, UnkV('traceback')], {}, self_obj=cm, node=st)
                res = self.resolve(res)
                if isinstance(res, ConstV):
                    return bool(res.value)
                return bool(self.truth(res, st))
        elif isinstance(cm, FileV):
            cm.closed = True
        return False

    # ---------------------------------------------------------------- misc statements
    def st_Break(self, st):
        raise BreakSig()

    def st_Continue(self, st):
        raise ContinueSig()

    def st_FunctionDef(self, st):
        from .model import FuncInfo
        fr = self.frames[-1]
        outer = fr.fi.qualname if fr.fi is not None else fr.module.name
        fi = FuncInfo(f'{outer}.<locals>.{st.name}', st, fr.module, None)
        if any(isinstance(n, (ast.Yield, ast.YieldFrom)) for n in ast.walk(st)):
            self.note_unknown(st, 'nested generator function')
        fv = FuncV(fi)
        fv.closure = fr
        fr.locals[st.name] = fv

    def st_ClassDef(self, st):
        self.note_unknown(st, 'nested class definition')
