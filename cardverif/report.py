"""Obligations, verdicts, evidence files, known findings, exit codes."""
from __future__ import annotations

import ast
import hashlib
import json
import os
import re
import time

from .lin import Lin, Infeasible
from .model import AnalysisError, norm_text

VERIF = os.path.dirname(os.path.dirname(os.path.abspath(__file__)))

PROVED, REFUTED, UNDECIDED = 'PROVED', 'REFUTED', 'UNDECIDED'

ASSUMPTIONS = {
    'A1': 'A1 configurations are well-formed: every entry has field_type in {FIXED,LLVAR,LLLVAR} and an int '
          'field_length >= 0; regexes compile',
    'A2': 'A2 text codecs are single-byte (len(s.encode(c)) == len(s)); cp037/cp500 agree on digits',
    'A3': 'A3 file objects are well-behaved: read(n) returns n bytes unless end of data, write appends, I/O raises '
          'nothing; vendor.hexdump and logging are total',
    'A4': 'A4 CPython semantics of the stdlib operations in the transfer tables',
    'A5': 'A5 callers respect the stated domains (PIN 4-12 digits, PAN >= 13 digits for PIN blocks, card numbers '
          '>= 10 chars for masking, PDS tags of 4 digits)',
}


class Ob:
    """One obligation instance."""
    def __init__(self, oid, title, where='', construct='', verdict=UNDECIDED, detail='', witness=None, rule=None,
                 abstract=None):
        self.oid = oid
        self.title = title
        self.where = where          # module path : qualified function
        self.construct = construct  # normalised construct text
        self.verdict = verdict
        self.detail = detail
        self.witness = witness
        self.rule = rule or oid
        self.abstract = abstract    # abstract state sample for evidence

    def key(self, prop):
        func = self.where.split(' ')[0]
        func = re.sub(r':\d+', '', func)
        return f'{prop}|{self.rule}|{func}|{self.construct}'

    def as_dict(self, prop):
        d = {'obligation': self.oid, 'title': self.title, 'where': self.where, 'construct': self.construct,
             'verdict': self.verdict, 'detail': self.detail}
        if self.witness is not None:
            d['witness'] = self.witness
        if self.abstract is not None:
            d['abstract'] = self.abstract
        d['key'] = self.key(prop)
        return d


def where_of(prog, node, fi=None):
    fi = fi or prog.node_owner.get(id(node))
    if fi is None:
        return '?'
    return f'{fi.module.path}:{fi.short.split(".", 1)[-1] if "." in fi.short else fi.short} line {getattr(node, "lineno", "?")}'


def loc(prog, node, fi=None):
    fi = fi or prog.node_owner.get(id(node))
    if fi is None:
        return '?'
    return f'{fi.module.path}:{fi.short}:{getattr(node, "lineno", "?")}'


def func_where(fi):
    return f'{fi.module.path}:{fi.short}'


class Result:
    def __init__(self, prop):
        self.prop = prop
        self.obs = []
        self.stats = {'functions': set(), 'paths': 0, 'call_sites': 0, 'loops': 0, 'raise_sites': 0,
                      'evaluations': 0}
        self.notes = []
        self.samples = []
        self.explanation = ''
        self.assumptions = []
        self.extra = {}
        self.selftest = None

    def add(self, ob):
        self.obs.append(ob)
        return ob

    def count(self, **kw):
        for k, v in kw.items():
            if isinstance(self.stats.get(k), set):
                self.stats[k] |= set(v)
            else:
                self.stats[k] = self.stats.get(k, 0) + v

    def note(self, text):
        self.notes.append(text)


def load_known():
    path = os.path.join(VERIF, 'known_findings.json')
    if not os.path.exists(path):
        return {'open': [], 'fixed': []}
    with open(path) as f:
        return json.load(f)


def witness_text(w):
    if not w:
        return ''
    return ', '.join(f'{k}={v}' for k, v in sorted(w.items()) if not k.startswith('len<str(') and not k.startswith('w#'))


def finish(res, tier, t0, seed=0):
    """Print the verdict lines, write evidence, return the exit code."""
    prop = res.prop
    known = load_known()
    open_keys = {e['key']: e for e in known.get('open', []) if e.get('property') == prop}
    code = 0
    viol = 0
    os.makedirs(os.path.join(VERIF, 'evidence', 'violations'), exist_ok=True)
    proved = [o for o in res.obs if o.verdict == PROVED]
    refuted = [o for o in res.obs if o.verdict == REFUTED]
    undecided = [o for o in res.obs if o.verdict == UNDECIDED]
    seen_known = set()
    for o in refuted:
        k = o.key(prop)
        if k in open_keys:
            seen_known.add(k)
            print(f'KNOWN-FINDING: property={prop} {o.oid} {o.where} :: {o.construct} :: {o.detail}')
            continue
        viol += 1
        h = hashlib.sha1(k.encode()).hexdigest()[:12]
        rp = os.path.join(VERIF, 'evidence', 'violations', f'{prop}-{o.oid}-{h}.json')
        if not os.environ.get('CARDVERIF_NOEVIDENCE'):
            with open(rp, 'w') as f:
                json.dump({'property': prop, **o.as_dict(prop)}, f, indent=1, default=str)
        print(f'REFUTED {o.oid} at {o.where}: {o.construct}\n    {o.detail}'
              + (f'\n    witness: {witness_text(o.witness) if isinstance(o.witness, dict) else o.witness}' if o.witness else ''))
        print(f'VIOLATION property={prop} replay={rp}')
        code = 1
    if os.environ.get('CARDVERIF_LIST_OBS'):
        for o in res.obs:
            print(f'OB\t{o.verdict}\t{o.oid}\t{getattr(o, "rule", None) or ""}\t{(o.construct or "")[:60]}')
    for o in undecided:
        print(f'UNDECIDED property={prop} obligation={o.oid} at {o.where}: {o.construct} :: {o.detail}')
    if undecided and code == 0:
        code = 2
    if res.selftest is not None and res.selftest.get('failures'):
        for f_ in res.selftest['failures']:
            print(f'SELFTEST-FAIL {f_}')
        if code == 0:
            code = 2
    wall = time.time() - t0
    stats = dict(res.stats)
    stats['functions'] = sorted(stats['functions'])
    distinct = len({(o.oid, o.where, o.construct) for o in res.obs if o.abstract or o.detail})
    cov = {
        'explanation': res.explanation,
        'obligations': len(res.obs),
        'discharged': len(proved),
        'refuted': len(refuted),
        'refuted_known': len(seen_known),
        'undecided': len(undecided),
        'evaluations': max(1, stats.get('evaluations', 0) or stats.get('paths', 0) or len(res.obs)),
        'distinct_nontrivial': distinct,
        'rule': 'every obligation instance of the rule set below is evaluated on the abstract paths of its anchor '
                'functions (one evaluation = one obligation on one abstract path); an instance is counted '
                'non-trivial when its verdict rests on a non-constant abstract state (symbolic lengths, '
                'descriptors, escape sets) rather than on a folded constant',
        'samples': res.samples[:12] if res.samples else [o.as_dict(prop) for o in res.obs[:8]],
        'obligation_list': [o.as_dict(prop) for o in res.obs],
        'functions_analysed': stats['functions'],
        'abstract_paths': stats.get('paths', 0),
        'call_sites': stats.get('call_sites', 0),
        'loops': stats.get('loops', 0),
        'raise_sites': stats.get('raise_sites', 0),
        'checker_cmd': f'./check {prop} --tier {tier}',
        'trusted_base': ['CPython ast module', 'cardverif transfer/effect tables (cardverif/ext.py, calls.py)',
                         'cardutil/vendor/hexdump.py (third party, assumed total)'],
        'notes': res.notes,
        'exhaustive': False,
    }
    cov.update(res.extra)
    if res.selftest is not None:
        cov['selftest'] = res.selftest
    ev = {
        'property_id': prop,
        'tier': tier,
        'seed': seed,
        'level': 'other',
        'coverage': cov,
        'assumptions': res.assumptions,
        'wall_s': round(wall, 3),
        'violations': viol,
    }
    if not os.environ.get('CARDVERIF_NOEVIDENCE'):
        with open(os.path.join(VERIF, 'evidence', f'{prop}.json'), 'w') as f:
            json.dump(ev, f, indent=1, default=str)
    print(f'{prop}: {len(res.obs)} obligations: {len(proved)} proved, {len(refuted)} refuted '
          f'({len(seen_known)} known), {len(undecided)} undecided; {stats.get("paths", 0)} abstract paths; '
          f'{wall:.2f}s')
    return code


# ---------------------------------------------------------------------- dual-mode decision helper
class Failure:
    """A failed obligation on one abstract path."""
    def __init__(self, desc, node=None, neg=None, definite=False, path=None, abstract=None, soft=False):
        self.soft = soft        # cannot be decided on this path: never a refutation
        self.desc = desc
        self.node = node
        self.neg = neg          # list of alternatives; each alternative = list[Lin] (all >= 0) describing the violation
        self.definite = definite
        self.path = path
        self.abstract = abstract


def path_usable(p):
    return p.outcome != 'abandon' and not p.tainted


def find_witness(path, failure):
    """Concrete valuation of the path's symbols satisfying its constraints and the violation."""
    if failure.soft:
        return None
    alts = failure.neg if failure.neg else [[]]
    for alt in alts:
        try:
            w = path.store.witness(extra=alt)
        except Infeasible:
            w = None
        if w is not None:
            return w
    return None
