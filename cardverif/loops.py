"""Loops: invariant mode (generalise + one-step induction) and unroll mode."""
from __future__ import annotations

import ast

from .lin import Lin
from .avals import *   # noqa
from .avals import value_tags
from . import seqops
from .signals import Raised, Returned, BreakSig, ContinueSig, LoopBack, Abandon, ConsumerSignal


def _assigned_targets(body):
    """Syntactic scan: local names assigned, `self.x` attributes assigned, containers mutated."""
    names, attrs, mutated = set(), set(), set()

    def tgt(t):
        if isinstance(t, ast.Name):
            names.add(t.id)
        elif isinstance(t, (ast.Tuple, ast.List)):
            for e in t.elts:
                tgt(e)
        elif isinstance(t, ast.Attribute) and isinstance(t.value, ast.Name):
            attrs.add((t.value.id, t.attr))
        elif isinstance(t, ast.Subscript):
            b = t.value
            if isinstance(b, ast.Name):
                mutated.add(('local', b.id, 'setitem'))
            elif isinstance(b, ast.Attribute) and isinstance(b.value, ast.Name):
                mutated.add(('attr', b.value.id, b.attr, 'setitem'))
        elif isinstance(t, ast.Starred):
            tgt(t.value)

    for st in body:
        for n in ast.walk(st):
            if isinstance(n, ast.Assign):
                for t in n.targets:
                    tgt(t)
            elif isinstance(n, (ast.AugAssign, ast.AnnAssign)):
                tgt(n.target)
            elif isinstance(n, ast.For):
                tgt(n.target)
            elif isinstance(n, ast.NamedExpr):
                tgt(n.target)
            elif isinstance(n, ast.With):
                for i in n.items:
                    if i.optional_vars is not None:
                        tgt(i.optional_vars)
            elif isinstance(n, ast.ExceptHandler) and n.name:
                names.add(n.name)
            elif isinstance(n, ast.Call) and isinstance(n.func, ast.Attribute) and \
                    n.func.attr in ('append', 'extend', 'update', 'pop', 'insert', 'remove', 'clear', 'sort',
                                    'setdefault', 'add'):
                b = n.func.value
                if isinstance(b, ast.Name):
                    mutated.add(('local', b.id, 'resize'))
                elif isinstance(b, ast.Attribute) and isinstance(b.value, ast.Name):
                    mutated.add(('attr', b.value.id, b.attr, 'resize'))
            elif isinstance(n, ast.Delete):
                for t in n.targets:
                    tgt(t)
    return names, attrs, mutated


def _pure_expr(e):
    for n in ast.walk(e):
        if isinstance(n, ast.Call):
            if isinstance(n.func, ast.Attribute) and n.func.attr == 'get':
                continue
            if isinstance(n.func, ast.Name) and n.func.id in ('str', 'len', 'int', 'repr', 'format'):
                continue
            return False
        if isinstance(n, (ast.Yield, ast.YieldFrom, ast.Await, ast.NamedExpr)):
            return False
    return True


def _has_skip_path(body):
    """The loop body has an effect-free path: pure expression statements followed by one `if` without else."""
    if not body:
        return True
    for st in body[:-1]:
        if isinstance(st, ast.Assign) and all(isinstance(t, ast.Name) for t in st.targets) and _pure_expr(st.value):
            continue
        if not isinstance(st, ast.Expr):
            return False
    last = body[-1]
    return isinstance(last, ast.If) and not last.orelse


class Gen:
    """A generalised loop-head value with its inductiveness check."""
    def __init__(self, value, check):
        self.value = value
        self.check = check


def _new_mark():
    """a fresh object id: containers created later have a larger id (used to tell per-iteration objects from shared ones)"""
    from . import avals
    return next(avals._ids)


def list_joined(it, lv):
    """''.join(lv) for a list of strings / bytes whose contents are tracked as one descriptor, else None"""
    if not isinstance(lv, ListV):
        return None
    if lv.items is not None:
        out = None
        for x in lv.items:
            x = it.resolve(x)
            if not isinstance(x, SeqV) or (out is not None and x.kind != out.kind):
                return None
            out = x if out is None else seqops.concat(it, out, x)
        return out if out is not None else getattr(lv, 'joined', None) or SeqV(getattr(lv, 'joined_kind', 'str'), ())
    return getattr(lv, 'joined', None)


class LoopMixin:

    # ------------------------------------------------------------------ while
    def st_While(self, st):
        if self.an.mode == 'unroll':
            return self._while_unroll(st)
        return self._while_inv(st)

    def _snap(self):
        fr = self.frames[-1]
        snap = {}
        for n, v in fr.locals.items():
            v = self.resolve(v)
            if isinstance(v, IntV):
                snap[('local', n)] = v
            elif isinstance(v, SeqV):
                snap[('local', n)] = v
                if len(v.segs) == 1 and isinstance(v.segs[0], Sl):
                    snap[('start', n)] = v.segs[0].lo
            elif isinstance(v, ListV) and v.items is not None and len(v.items) <= 8:
                j = list_joined(self, v)
                if j is not None:
                    snap[('ljoin', n)] = j
        if isinstance(fr.self_obj, ObjV):
            for n, v in fr.self_obj.fields.items():
                if isinstance(v, IntV):
                    snap[('attr', n)] = v
        for f in self.all_files:
            snap[('file', f.name)] = f.pos
        return snap

    def _while_unroll(self, st):
        for i in range(self.an.unroll + 1):
            if not self.truth(self.eval(st.test)):
                self.event('loop-end-snap', st, snap=self._snap())
                self.exec_block(st.orelse)
                return
            if i == self.an.unroll:
                self.event('loop-end-snap', st, snap=self._snap())
                raise Abandon('unroll bound')
            self.event('loop-iter', st, n=i, snap=self._snap(), mark=_new_mark())
            try:
                self.exec_block(st.body)
            except BreakSig:
                return
            except ContinueSig:
                pass

    def _callee_attr_writes(self, body):
        """attributes of `self` written by methods called in the body (transitively, bounded)."""
        out = set()
        fr = self.frames[-1]
        obj = fr.self_obj
        if not isinstance(obj, ObjV):
            return out
        seen = set()

        def scan(fnbody, depth):
            for stn in fnbody:
                for n in ast.walk(stn):
                    if isinstance(n, ast.Call) and isinstance(n.func, ast.Attribute):
                        v = n.func.value
                        target = None
                        if isinstance(v, ast.Name) and v.id == 'self':
                            r = obj.cls.lookup(n.func.attr)
                            if r and r[0] == 'method':
                                target = r[1]
                        elif isinstance(v, ast.Call) and isinstance(v.func, ast.Name) and v.func.id == 'super':
                            for c in obj.cls.mro:
                                if not isinstance(c, str) and n.func.attr in c.methods and c is not fr.cls:
                                    target = c.methods[n.func.attr]
                                    break
                        if target is not None and target.qualname not in seen and depth < 4:
                            seen.add(target.qualname)
                            nm, at, mu = _assigned_targets(target.node.body)
                            for (b, a) in at:
                                if b == 'self':
                                    out.add(a)
                            scan(target.node.body, depth + 1)
        scan(body, 0)
        return out

    def _loop_keys(self, st, body, extra_targets=()):
        names, attrs, mutated = _assigned_targets(body)
        fr = self.frames[-1]
        keys = []
        cons = self._consumer_targets()
        if cons is not None and any(isinstance(n, (ast.Yield, ast.YieldFrom)) for b in body for n in ast.walk(b)):
            cfr = self.frames[cons['depth'] - 1]
            cn, ca, cm = _assigned_targets(cons['node'].body + [ast.Assign(targets=[cons['node'].target], value=ast.Constant(value=None))])
            for n in sorted(cn):
                if n in cfr.locals:
                    keys.append(('clocal', n, cfr))
            cself = cfr.self_obj
            if isinstance(cself, ObjV):
                for (b_, a_) in sorted(ca):
                    if b_ == 'self':
                        keys.append(('cattr', a_, cself))
            for m in cm:
                v = cfr.locals.get(m[1]) if m[0] == 'local' else None
                if isinstance(v, ListV):
                    if v.items is not None:
                        v.prev_items = list(v.items)
                        v.elem = self.join_many(v.items) if v.items else v.elem
                    v.items = None
                    if m[-1] == 'resize' or v.len is None:
                        sname = self.fresh('n')
                        self.store.declare(sname, 0, None)
                        v.len = Lin.sym(sname)
                elif isinstance(v, DictV):
                    v.open = True
        for n in sorted(names):
            if n in fr.locals and n not in extra_targets:
                keys.append(('local', n))
                lv = self.resolve(fr.locals[n])
                # a list of strings rebound and grown by the loop: its concatenation is tracked like a string accumulator
                if isinstance(lv, ListV) and any(m[0] == 'local' and m[1] == n for m in mutated) and list_joined(self, lv) is not None:
                    keys.append(('ljoin', n))
        self_attrs = set(a for (b, a) in attrs if b == 'self')
        self_attrs |= self._callee_attr_writes(body)
        obj = fr.self_obj
        if isinstance(obj, ObjV):
            for a in sorted(self_attrs):
                keys.append(('attr', a))
        return keys, mutated

    def _read_key(self, k):
        fr = self.frames[-1]
        if k[0] == 'ljoin':
            return list_joined(self, self.resolve(fr.locals.get(k[1])))
        if k[0] == 'clocal':
            return k[2].locals.get(k[1])
        if k[0] == 'cattr':
            return k[2].fields.get(k[1])
        if k[0] == 'local':
            return fr.locals.get(k[1])
        obj = fr.self_obj
        if k[1] in obj.fields:
            return obj.fields[k[1]]
        r = obj.cls.lookup(k[1])
        if r and r[0] == 'attr':
            return self.eval_in_module(r[2].module, r[1])
        return None

    def _write_key(self, k, v):
        fr = self.frames[-1]
        if k[0] == 'ljoin':
            lv = self.resolve(fr.locals.get(k[1]))
            if isinstance(lv, ListV):
                lv.joined = v
            return
        if k[0] == 'clocal':
            k[2].locals[k[1]] = v
            return
        if k[0] == 'cattr':
            k[2].fields[k[1]] = v
            return
        if k[0] == 'local':
            fr.locals[k[1]] = v
        else:
            fr.self_obj.fields[k[1]] = v

    def _havoc_containers(self, mutated, node):
        fr = self.frames[-1]
        how = {}
        for m in mutated:
            key = m[:-1]
            how.setdefault(key, set()).add(m[-1])
        for key, kinds in how.items():
            v = None
            if key[0] == 'local':
                v = fr.locals.get(key[1])
            elif key[0] == 'attr' and key[1] == 'self' and isinstance(fr.self_obj, ObjV):
                v = fr.self_obj.fields.get(key[2])
            if isinstance(v, ListV):
                if v.items is not None:
                    v.prev_items = list(v.items)
                    v.elem = self.join_many(v.items) if v.items else v.elem
                v.items = None
                if 'resize' in kinds or v.len is None:
                    s = self.fresh('n')
                    self.store.declare(s, 0, None)
                    v.len = Lin.sym(s)
                v.loop_open = True
            elif isinstance(v, DictV):
                v.open = True

    def generalise(self, node, key, pre):
        okey, key = key, key[:2]      # consumer keys carry a per-path Frame object: not part of the widening identity
        level = self.an.widen.get((id(node), key), 1)
        it = self

        def request(lvl):
            cur = it.an.widen_requests.get((id(node), key), 0)
            it.an.widen_requests[(id(node), key)] = max(cur, lvl)

        if pre is None:
            return Gen(None, lambda new: None)
        pre_r = self.resolve(pre)
        if isinstance(pre_r, IntV):
            base = pre_r.lin
            if level == 0:
                def chk0(new):
                    if not (isinstance(new, IntV) and it.store.decide_eq0(new.lin - base) is True):
                        request(1)
                return Gen(pre_r, chk0)
            s = self.fresh(f'{key[1]}@loop')
            if level == 1:
                self.store.declare(s, None, None, info=f'{key[1]} at loop head (>= entry value)')
                self.store.assume_ge0(Lin.sym(s) - base)
                # Houdini-style upper bounds: loop-invariant integers / lengths that bound the entry value
                ubs = []
                for u in self._bound_candidates(node):
                    dk = (id(node), key, 'ub:' + repr(u))
                    if it.an.widen.get(dk):
                        continue
                    if it.store.prove_ge0(u - base):
                        ubs.append((dk, u))
                for dk, u in ubs:
                    self.store.assume_ge0(u - Lin.sym(s))

                def chk1(new):
                    if not isinstance(new, IntV):
                        request(3)
                    elif not it.store.prove_ge0(new.lin - base):
                        request(2 if it.store.prove_ge0(base - new.lin) else 3)
                    else:
                        for dk, u in ubs:
                            if not it.store.prove_ge0(u - new.lin):
                                it.an.widen_requests[dk] = 1
                return Gen(IntV(Lin.sym(s), pre_r.tags), chk1)
            if level == 2:
                self.store.declare(s, None, None, info=f'{key[1]} at loop head (<= entry value)')
                self.store.assume_ge0(base - Lin.sym(s))

                def chk2(new):
                    if not (isinstance(new, IntV) and it.store.prove_ge0(base - new.lin)):
                        request(3)
                return Gen(IntV(Lin.sym(s), pre_r.tags), chk2)
            self.store.declare(s, None, None, info=f'{key[1]} at loop head (unconstrained)')
            return Gen(IntV(Lin.sym(s), pre_r.tags), lambda new: None)
        if isinstance(pre_r, SeqV):
            segs = pre_r.segs
            if level <= 1 and pre_r.is_lit():
                def chk_lit(new):
                    new = it.resolve(new)
                    if not (isinstance(new, SeqV) and new.is_lit() and new.lit_value() == pre_r.lit_value()):
                        request(2)
                return Gen(pre_r, chk_lit)
            if level <= 1 and len(segs) == 1 and isinstance(segs[0], Sl):
                g = segs[0]
                s = self.fresh(f'{key[1]}@lo')
                self.store.declare(s, None, None, info=f'start of {key[1]} at loop head')
                self.store.assume_ge0(Lin.sym(s) - g.lo)
                self.store.assume_ge0(g.hi - Lin.sym(s))
                val = SeqV(pre_r.kind, (Sl(g.src, Lin.sym(s), g.hi),), pre_r.tags)

                def chk_sl(new):
                    ok = False
                    if isinstance(new, SeqV):
                        if len(new.segs) == 0:
                            ok = True    # empty suffix slice
                        elif len(new.segs) == 1 and isinstance(new.segs[0], Sl) and new.segs[0].src is g.src:
                            n = new.segs[0]
                            ok = (it.store.decide_eq0(n.hi - g.hi) is True and it.store.prove_ge0(n.lo - g.lo)
                                  and it.store.prove_ge0(g.hi - n.lo))
                    if not ok:
                        request(2)
                return Gen(val, chk_sl)
            if level <= 2:
                asrc = seqops.new_source(self, f'{key[1]}@appended', pre_r.kind, 0, None, tags=value_tags(pre_r))
                asrc.loop_appended = True
                app = Sl(asrc, 0, asrc.length)
                val = seqops.normalise(self, pre_r.kind, segs + (app,), pre_r.tags)
                npre = len(val.segs)

                def chk_app(new):
                    ok = isinstance(new, SeqV) and len(new.segs) >= npre
                    if ok:
                        head = SeqV(new.kind, new.segs[:npre])
                        ok = seqops.seq_eq_structural(it, val, head) is True
                    if not ok:
                        request(3)
                return Gen(val, chk_app)
            val = seqops.opaque_fresh(self, pre_r.kind, f'{key[1]}@loop', tags=value_tags(pre_r))
            return Gen(val, lambda new: None)
        if isinstance(pre_r, ConstV):
            if level == 0 or level == 1:
                def chkc(new):
                    new = it.resolve(new)
                    if not (isinstance(new, ConstV) and new.value == pre_r.value):
                        request(3)
                if level == 1:
                    # a flag: value may have been flipped by an earlier iteration only if some path flips it
                    pass
                return Gen(pre_r, chkc)
            return Gen(SymV(self.fresh(f'{key[1]}@loop'), 'any'), lambda new: None)
        if isinstance(pre_r, ListV) and list_joined(self, pre_r) is not None and level <= 2 and \
                (id(node), ('ljoin', key[1])) in getattr(self, '_ljoin_keys', set()):
            n_ = self.fresh(f'{key[1]}@n')
            self.store.declare(n_, 0, None, info=f'len({key[1]}) at loop head')
            lv = ListV(items=None, elem=self.join_many(pre_r.items) if pre_r.items else pre_r.elem, length=Lin.sym(n_))
            lv.loop_open = True
            lv.joined = list_joined(self, pre_r)
            mk = (id(node), key, 'minlen')
            lv.min_elem = it.an.widen.get(mk)
            lv.len_head = Lin.sym(n_)

            def chkl(new):
                new = it.resolve(new)
                if not (isinstance(new, ListV) and list_joined(it, new) is not None):
                    request(3)
                    return
                # every element is at least min_elem long (needed to conclude "non-empty list => non-empty text")
                m = getattr(new, 'min_elem', None)
                if new.items is not None:
                    ls = [it.store.lo(it.resolve(x).length()) for x in new.items]
                    m = min([x for x in ls if x is not None], default=None) if ls and None not in ls else (None if ls else lv.min_elem)
                if lv.min_elem is not None and (m is None or m < lv.min_elem):
                    it.an.widen_requests[mk] = m if m is not None else 0
                elif lv.min_elem is None and m:
                    it.an.widen_requests[mk] = m
            return Gen(lv, chkl)
        if isinstance(pre_r, (ListV, DictV, ObjV, FileV, FuncV, ClassV, ModV, ExtV, PyLit)):
            def chko(new):
                if new is not pre_r:
                    request(3)
            if level >= 3:
                return Gen(SymV(self.fresh(f'{key[1]}@loop'), 'any'), lambda new: None)
            return Gen(pre_r, chko)
        # SymV / UnkV / tuples: fresh opaque
        return Gen(SymV(self.fresh(f'{key[1]}@loop'), 'any', tags=value_tags(pre_r)), lambda new: None)

    def _bound_candidates(self, node):
        """integers and lengths that the loop does not modify (candidate upper bounds for loop cursors)"""
        fr = self.frames[-1]
        mods = getattr(self, '_cur_mods', set())
        out = []
        for n, v in fr.locals.items():
            if ('local', n) in mods:
                continue
            v = self.resolve(v)
            lin = None
            if isinstance(v, IntV):
                lin = self.store.canon(v.lin)
            elif isinstance(v, SeqV):
                lin = self.store.canon(v.length())
            if lin is not None and not lin.is_const() and lin not in out:
                out.append(lin)
        return out[:6]

    def _loop_head(self, st, body, extra_targets=()):
        if self.nofork:
            # a loop inside an expression that is evaluated generically (the element of a comprehension ...): its exits
            # cannot be explored there, so nothing that follows may count as decided
            self.note_unknown(st, 'loop executed inside a generically evaluated comprehension element')
            raise Abandon('loop inside a generically evaluated comprehension')
        keys, mutated = self._loop_keys(st, body, extra_targets)
        self._cur_mods = set(keys)
        pre = {k: self._read_key(k) for k in keys}
        self._last_pre = pre
        gens = {}
        self._ljoin_keys = {(id(st), k) for k in keys if k[0] == 'ljoin'}
        for k in keys:
            gens[k] = self.generalise(st, k, pre[k])
            if gens[k].value is not None:
                self._write_key(k, gens[k].value)
        self._havoc_containers(mutated, st)
        # Houdini candidates: an integer that equals the length of a text accumulator on entry keeps doing so
        eqs = []
        for ki in keys:
            gi, pi = gens[ki].value, self.resolve(pre[ki]) if pre[ki] is not None else None
            if not (isinstance(gi, IntV) and isinstance(pi, IntV) and ki[0] in ('local', 'attr')):
                continue
            for ks in keys:
                gs, ps = gens[ks].value, self.resolve(pre[ks]) if pre[ks] is not None else None
                if not (isinstance(gs, SeqV) and isinstance(ps, SeqV) and ks[0] in ('local', 'ljoin')):
                    continue
                dk = (id(st), ki[:2], 'eqlen:' + repr(ks[:2]))
                if self.an.widen.get(dk) or self.store.decide_eq0(pi.lin - ps.length()) is not True:
                    continue
                if self.store.decide_eq0(gi.lin - gs.length()) is True:
                    continue
                try:
                    self.store.assume_eq0(gi.lin - gs.length())
                except Exception:
                    continue
                eqs.append((dk, ki, ks))
        # ... and two integers whose difference is fixed on entry keep that difference (start/end cursor pairs)
        diffs = []
        ikeys = [k for k in keys if isinstance(gens[k].value, IntV) and isinstance(self.resolve(pre[k]) if pre[k] is not None else None, IntV)
                 and k[0] in ('local', 'attr')]
        for a in range(len(ikeys)):
            for b in range(a + 1, len(ikeys)):
                ka, kb = ikeys[a], ikeys[b]
                ga, gb = gens[ka].value, gens[kb].value
                d = self.store.canon(self.resolve(pre[ka]).lin - self.resolve(pre[kb]).lin)
                if not d.is_const():
                    continue
                dk = (id(st), ka[:2], 'diff:' + repr(kb[:2]))
                if self.an.widen.get(dk) or self.store.decide_eq0(ga.lin - gb.lin - d) is True:
                    continue
                if len(ga.lin.syms()) != 1 or len(gb.lin.syms()) != 1:
                    continue
                try:
                    self.store.assume_eq0(ga.lin - gb.lin - d)
                except Exception:
                    continue
                diffs.append((dk, ka, kb, d))
        self._diff_candidates = getattr(self, '_diff_candidates', {})
        self._diff_candidates[id(st)] = diffs
        self._eq_candidates = getattr(self, '_eq_candidates', {})
        self._eq_candidates[id(st)] = eqs
        hook = self.an.hooks.get('loop_head')
        if hook is not None:
            hook(self, st, pre, {k: g.value for k, g in gens.items()})
        self.event('loop-head', st, pre=pre, gen={k: g.value for k, g in gens.items()},
                   files={id(f): (f, f.pos) for f in self.all_files})
        return keys, gens

    def _loop_back(self, st, keys, gens):
        post = {k: self._read_key(k) for k in keys}
        for k in keys:
            gens[k].check(post[k])
        for dk, ka, kb, d in getattr(self, '_diff_candidates', {}).get(id(st), ()):
            a, b = self.resolve(post.get(ka)), self.resolve(post.get(kb))
            if not (isinstance(a, IntV) and isinstance(b, IntV) and self.store.decide_eq0(a.lin - b.lin - d) is True):
                self.an.widen_requests[dk] = 1
        for dk, ki, ks in getattr(self, '_eq_candidates', {}).get(id(st), ()):
            a, b = self.resolve(post.get(ki)), self.resolve(post.get(ks))
            if not (isinstance(a, IntV) and isinstance(b, SeqV) and self.store.decide_eq0(a.lin - b.length()) is True):
                self.an.widen_requests[dk] = 1
        self.event('loop-back', st, post=post, gen={k: g.value for k, g in gens.items()},
                   files={id(f): (f, f.pos) for f in self.all_files})
        raise LoopBack(st)

    def _while_inv(self, st):
        keys, gens = self._loop_head(st, st.body)
        if self.truth(self.eval(st.test)):
            self.event('loop-iter', st, n='generic', mark=_new_mark())
            try:
                self.exec_block(st.body)
            except BreakSig:
                self.event('loop-exit', st, how='break')
                return
            except ContinueSig:
                pass
            self._loop_back(st, keys, gens)
        else:
            self.event('loop-exit', st, how='cond')
            self.exec_block(st.orelse)

    # ------------------------------------------------------------------ for
    def range_count(self, r):
        """number of elements of range(lo, hi, step) (step a positive constant) as a Lin; forks on emptiness"""
        c = getattr(r, '_count', None)
        if c is not None:
            return c
        lo, hi = Lin.of(r.lo), Lin.of(r.hi)
        step = abs(r.step)
        span = (hi - lo) if r.step > 0 else (lo - hi)      # distance covered in the direction of the step
        if not self.decide_ge0(span - 1):
            c = Lin.const(0)
        elif step == 1:
            c = span
        else:
            s = self.fresh('count')
            self.store.declare(s, 1, None, info=f'len(range({lo}, {hi}, {r.step}))')
            cs = Lin.sym(s)
            # |step|*(c-1) <= span-1  and  span <= |step|*c
            self.store.assume_ge0(span - 1 - (cs - 1).scale(step))
            self.store.assume_ge0(cs.scale(step) - span)
            self.store.__dict__.setdefault('definitional', []).extend(
                [self.store.canon(span - 1 - (cs - 1).scale(step)), self.store.canon(cs.scale(step) - span)])
            c = cs
        r._count = c
        return c

    def iter_element(self, itv, node):
        """-> (generic element, length Lin|None) of an iterable abstract value."""
        itv = self.resolve(itv)
        if getattr(itv, 'shared_iterator', False):
            self.event('mutate-shared', node, target=itv, how='a module-level iterator is advanced')
        if getattr(itv, 'late', None) is not None:
            itv = self.regen_genexp(itv)
        if getattr(itv, 'lazy_unforced', False):
            self.note_unknown(node, 'generator expression over a generator call consumed outside a for statement of the function that made it')
        if isinstance(itv, GenCallV):
            # a generator consumed by something other than a for statement (join, sum, zip...): drained into a list first
            itv = self.drain_generator(itv, node)
        if isinstance(itv, ClassV) and self.is_enum(itv.ci):
            itv = ListV(items=list(self.enum_members(itv.ci)))
        if isinstance(itv, RangeV) and itv.step != 1:
            c = self.range_count(itv)
            k = self.fresh('k')
            self.store.declare(k, 0, None, info='position in a stepped range')
            self.store.assume_ge0(c - 1 - Lin.sym(k))
            return IntV(Lin.of(itv.lo) + Lin.sym(k).scale(itv.step)), c
        if isinstance(itv, RangeV):
            lo, hi = Lin.of(itv.lo), Lin.of(itv.hi)
            s = self.fresh('i')
            clo, chi = self.store.canon(lo), self.store.canon(hi)
            self.store.declare(s, clo.c if clo.is_const() else None, chi.c - 1 if chi.is_const() else None)
            self.store.assume_ge0(Lin.sym(s) - lo)
            self.store.assume_ge0(hi - 1 - Lin.sym(s))
            return IntV(Lin.sym(s)), hi - lo
        if isinstance(itv, ListV):
            if itv.items is not None:
                return (self.join_many(itv.items) if itv.items else SymV(self.fresh('elem'), 'elem')), Lin.const(len(itv.items))
            e = itv.elem if itv.elem is not None else SymV(self.fresh('elem'), 'elem', origin=itv)
            return e, itv.len
        if isinstance(itv, TupleV):
            return (self.join_many(itv.items) if itv.items else SymV(self.fresh('elem'), 'elem')), Lin.const(len(itv.items))
        if isinstance(itv, SeqV):
            if itv.kind == 'bytes':
                s = self.fresh('byte')
                self.store.declare(s, 0, 255)
                self.origin[s] = ('byte-of', itv, None)
                return IntV(Lin.sym(s), tags=value_tags(itv)), itv.length()
            cs = None
            if len(itv.segs) == 1 and isinstance(itv.segs[0], Sl):
                cs = itv.segs[0].src.charset
            src = seqops.Source(self.fresh('ch'), 'str', 1, value_tags(itv), cs)
            return seqops.whole(src), itv.length()
        if isinstance(itv, DictV):
            ke = getattr(itv, 'key_elem', None)
            if ke is not None:
                return ke(self), None
            e = SymV(self.fresh('key'), 'key', origin=itv, tags=itv.tags)
            return e, None
        if isinstance(itv, PyLit):
            if isinstance(itv.value, dict):
                return SymV(self.fresh('key'), 'key', origin=itv), Lin.const(len(itv.value))
            return SymV(self.fresh('elem'), 'elem', origin=itv), Lin.const(len(itv.value))
        if isinstance(itv, IterV):
            fresh = getattr(itv, 'fresh', None)
            if fresh is not None and self.an.mode == 'unroll':
                # unrolled iterations are different elements of the collection
                return fresh(self), itv.len
            return itv.elem, itv.len
        if isinstance(itv, (ObjV, FileV, SymV, UnkV)):
            return SymV(self.fresh('elem'), 'elem', origin=itv, tags=value_tags(itv)), None
        self.note_unknown(node, f'iteration over {itv!r}')
        return UnkV('elem'), None

    def generator_as_iter(self, g, node=None):
        """A generator function of the shape  [assignments]; for t in it: [straight line]; yield e  as a generic iterable
        (element = e for the generic element of `it`), like a generator expression; None for any other shape."""
        body = [st for st in g.fi.node.body if not (isinstance(st, ast.Expr) and isinstance(st.value, ast.Constant))]
        if not body or not isinstance(body[-1], ast.For) or body[-1].orelse:
            return None
        pre, loop = body[:-1], body[-1]
        if not (loop.body and isinstance(loop.body[-1], ast.Expr) and isinstance(loop.body[-1].value, ast.Yield)
                and loop.body[-1].value.value is not None):
            return None
        inner = loop.body[:-1]
        for n in ast.walk(ast.Module(body=pre + inner, type_ignores=[])):
            if isinstance(n, (ast.Yield, ast.YieldFrom, ast.Return, ast.For, ast.While, ast.Break, ast.Continue, ast.If, ast.Try)):
                return None
        from .interp import Frame
        frame = Frame(g.fi, g.fi.module, g.self_obj, g.fi.cls)
        frame.cls_obj = g.cls_obj
        frame.closure = g.closure
        self._bind_params(g.fi, frame, list(g.args), dict(g.kwargs), g.self_obj, g.cls_obj, node)
        self.frames.append(frame)
        old_stack = self.stack
        self.stack = old_stack + (g.fi.short,)
        g.started = True
        try:
            self.exec_block(pre)
            src = self.resolve(self.eval(loop.iter))
            if isinstance(src, GenCallV):
                src = self.generator_as_iter(src, node) or src
            elem, ln = self.iter_element(src, loop.iter)
            self.assign(loop.target, elem, loop)
            self.nofork += 1
            try:
                self.exec_block(inner)
                ev = self.eval(loop.body[-1].value.value)
            finally:
                self.nofork -= 1
            self.event('comprehension', loop, ckind='generator-function', elem=ev, sources=[src], filtered=False)
            return IterV(ev, src=src, filtered=False, desc=f'generator {g.fi.short}', length=ln)
        finally:
            self.frames.pop()
            self.stack = old_stack

    def drain_generator(self, g, node):
        """list(generator): run it to completion collecting what it yields.  Exact when the generator's loops run over
        concrete collections; when one of its loops is generalised the result is a list of unknown contents."""
        if g.started:
            self.note_unknown(node, 'generator consumed twice')
            return ListV(items=None)
        g.started = True
        items = []
        holder = getattr(self, '_drain_nodes', None)
        if holder is None:
            holder = self._drain_nodes = {}
        st = holder.get(id(node))
        if st is None:
            st = ast.For(target=ast.Name(id='__drained', ctx=ast.Store()), iter=ast.Name(id='__gen', ctx=ast.Load()),
                         body=[ast.Pass()], orelse=[])
            if node is not None:
                ast.copy_location(st, node)
            holder[id(node)] = st
        self.consumers = getattr(self, 'consumers', [])
        self.consumers.append({'node': st, 'depth': len(self.frames), 'stack': self.stack, 'callback': items.append})
        n0 = len(self.events)
        try:
            self._starting_generator = True
            self.call_function(g.fi, g.args, g.kwargs, self_obj=g.self_obj, node=node, cls_obj=g.cls_obj, closure=g.closure)
        finally:
            self.consumers.pop()
        if any(e.kind == 'loop-head' for e in self.events[n0:]):
            # a generalised loop ran inside: the values seen are those of one generic iteration only
            return ListV(items=None, elem=self.join_many(items) if items else None, length=None, desc='list(generator)')
        return ListV(items=items)

    def _for_generator(self, st, g):
        """for x in <generator call>: run the generator body; the loop body executes at every yield."""
        if g.started:
            self.note_unknown(st, 'generator consumed twice')
            return
        g.started = True
        self.consumers = getattr(self, 'consumers', [])
        self.consumers.append({'node': st, 'depth': len(self.frames), 'stack': self.stack})
        self.event('for-iter', st, iterable=g)
        try:
            self._starting_generator = True
            self.call_function(g.fi, g.args, g.kwargs, self_obj=g.self_obj, node=st.iter, cls_obj=g.cls_obj, closure=g.closure)
        except ConsumerSignal as cs:
            self.consumers.pop()
            if isinstance(cs.inner, BreakSig):
                self.event('loop-exit', st, how='break')
                return
            raise cs.inner
        self.consumers.pop()
        self.exec_block(st.orelse)

    def _consumer_targets(self):
        """variables of the consuming loop (another frame) that a generator's loop must generalise too"""
        cons = getattr(self, 'consumers', None)
        if not cons:
            return None
        return cons[-1]

    def st_For(self, st):
        itv = self.resolve(self.eval(st.iter))
        if isinstance(itv, ClassV) and self.is_enum(itv.ci):
            itv = ListV(items=list(self.enum_members(itv.ci)))      # iterating an Enum class: its members in order
        if isinstance(itv, GenCallV):
            return self._for_generator(st, itv)
        lazy = getattr(itv, 'lazy_genexp', None)
        if lazy is not None and not lazy[2].started and lazy[1] is self.frames[-1] and not st.orelse:
            # for x in (elt for t in <generator call> if cond): the generator expression was created in this frame and not
            # touched since; the loop is that of   for t in <generator call>: if not cond: continue; x = elt; <body>
            synth = self._genexp_loop(st, lazy[0])
            if synth is not None:
                return self._for_generator(synth, lazy[2])
        # exact iteration over small concrete collections
        items = None
        if isinstance(itv, DictV) and getattr(itv, 'exact_ok', False) and not itv.open and not itv.sym_stores and itv.default is None:
            itv = ListV(items=[self.from_py(k) for k in itv.items])      # iterating a fully known dictionary: its keys
            itv.exact_ok = True
        if isinstance(itv, (ListV, TupleV)) and itv.items is not None and (len(itv.items) <= 4 or getattr(itv, 'exact_ok', False)):
            items = list(itv.items)
        if isinstance(itv, RangeV):
            lo, hi = self.store.canon(Lin.of(itv.lo)), self.store.canon(Lin.of(itv.hi))
            if lo.is_const() and hi.is_const() and hi.c - lo.c <= 4 and itv.step == 1:
                items = [IntV(i) for i in range(lo.c, hi.c)]
        if items is not None:
            for x in items:
                self.assign(st.target, x, st)
                try:
                    self.exec_block(st.body)
                except BreakSig:
                    return
                except ContinueSig:
                    continue
            self.exec_block(st.orelse)
            return
        if self.an.mode == 'unroll':
            self.event('for-iter', st, iterable=itv)
            return self._for_unroll(st, itv)
        tnames = set()
        for n in ast.walk(st.target):
            if isinstance(n, ast.Name):
                tnames.add(n.id)
        keys, gens = self._loop_head(st, st.body, extra_targets=tnames)
        self.event('for-iter', st, iterable=itv)
        elem, ln = self.iter_element(itv, st.iter)
        # Houdini candidates for a range() loop: an integer that trails the loop variable by a constant on entry keeps doing
        # so (`last = start + step` ... cursors); checked at the back edge, used at the exit with the element count
        rng = []
        if isinstance(itv, RangeV) and isinstance(elem, IntV) and itv.step > 0:
            pre = getattr(self, '_last_pre', {})
            lo_ = Lin.of(itv.lo)
            for k in keys:
                g, p0 = gens[k].value, self.resolve(pre.get(k)) if pre.get(k) is not None else None
                if not (isinstance(g, IntV) and isinstance(p0, IntV) and k[0] in ('local', 'attr') and len(g.lin.syms()) == 1):
                    continue
                if k[0] == 'local' and k[1] in tnames:
                    continue
                d = self.store.canon(p0.lin - lo_)
                dk = (id(st), k[:2], 'range-offset')
                if d.is_const() and not self.an.widen.get(dk):
                    rng.append((dk, k, g, d))
        can_iter = True
        if ln is not None:
            r = self.store.decide_ge0(ln - 1)
            if r is False:
                can_iter = False
        c = 0 if not can_iter else self.choose(2, 'for: iterate/exit')
        if can_iter and c == 0:
            if ln is not None:
                self.store.assume_ge0(ln - 1)
            for dk, k, g, d in rng:
                try:
                    self.store.assume_eq0(g.lin - elem.lin - d)
                except Exception:
                    self.an.widen_requests[dk] = 1
            self.assign(st.target, elem, st)
            self.event('loop-iter', st, n='generic', elem=elem, mark=_new_mark())
            try:
                self.exec_block(st.body)
            except BreakSig:
                self.event('loop-exit', st, how='break')
                return
            except ContinueSig:
                pass
            for dk, k, g, d in rng:
                nv = self.resolve(self._read_key(k))
                if not (isinstance(nv, IntV) and self.store.decide_eq0(nv.lin - elem.lin - Lin.const(itv.step) - d) is True):
                    self.an.widen_requests[dk] = 1
            self._loop_back(st, keys, gens)
        else:
            if rng:
                # all elements were visited: the trailing integers stand where the loop variable would stand next
                cnt = self.range_count(itv) if itv.step != 1 else None
                if itv.step == 1:
                    span = Lin.of(itv.hi) - Lin.of(itv.lo)
                    cnt = span if self.decide_ge0(span) else Lin.const(0)
                for dk, k, g, d in rng:
                    try:
                        self.store.assume_eq0(g.lin - Lin.of(itv.lo) - cnt.scale(itv.step) - d)
                    except Exception:
                        pass
            self.event('loop-exit', st, how='exhausted')
            self.exec_block(st.orelse)

    def _genexp_loop(self, st, gnode):
        cache = self.an.__dict__.setdefault('_genexp_loops', {})
        key = (id(st), id(gnode))
        if key in cache:
            return cache[key]
        synth = None
        if len(gnode.generators) == 1 and not gnode.generators[0].is_async:
            gen = gnode.generators[0]
            body = [ast.If(test=ast.UnaryOp(op=ast.Not(), operand=c), body=[ast.Continue()], orelse=[]) for c in gen.ifs]
            body.append(ast.Assign(targets=[st.target], value=gnode.elt, lineno=st.lineno))
            synth = ast.For(target=gen.target, iter=gen.iter, body=body + list(st.body), orelse=[], lineno=st.lineno)
            ast.copy_location(synth, st)
            for n in body:
                ast.copy_location(n, st)
                for sub in ast.walk(n):
                    if not hasattr(sub, 'lineno'):
                        ast.copy_location(sub, st)
                    for ch in ast.iter_child_nodes(sub):
                        if not hasattr(ch, '_parent') or ch in (st.target, gnode.elt) or ch in gen.ifs:
                            pass
                n._parent = synth
            for n in body:
                for sub in ast.walk(n):
                    for ch in ast.iter_child_nodes(sub):
                        if getattr(ch, '_parent', None) is None:
                            ch._parent = sub
            synth._parent = getattr(st, '_parent', None)
            synth._desugared_from = st
        cache[key] = synth
        return synth

    def _for_unroll(self, st, itv):
        prev = None
        for i in range(self.an.unroll + 1):
            elem, ln = self.iter_element(itv, st.iter)
            if ln is not None:
                more = self.decide_ge0(ln - (i + 1))
            else:
                more = self.choose(2, 'for: iterate/exit') == 0
            if not more:
                self.event('loop-end-snap', st, snap=self._snap())
                self.exec_block(st.orelse)
                return
            if i == self.an.unroll:
                self.event('loop-end-snap', st, snap=self._snap())
                if _has_skip_path(st.body):
                    # the remaining iterations take the effect-free path through the body
                    self.event('for-skip', st, after=i)
                    self.exec_block(st.orelse)
                    return
                raise Abandon('unroll bound')
            if _has_skip_path(st.body) and i > 0 or (_has_skip_path(st.body) and ln is not None):
                # iterations may be skipped (effect-free path): choose to stop iterating here
                if self.choose(2, 'for: more iterations / rest skipped') == 1:
                    self.event('loop-end-snap', st, snap=self._snap())
                    self.event('for-skip', st, after=i)
                    self.exec_block(st.orelse)
                    return
            if isinstance(itv, RangeV) and itv.step != 1:
                elem = IntV(Lin.of(itv.lo) + Lin.const(i * itv.step))     # the i-th element, exactly
            elif isinstance(itv, RangeV) and prev is not None and isinstance(elem, IntV):
                self.store.assume_ge0(elem.lin - prev.lin - 1)
            prev = elem
            self.assign(st.target, elem, st)
            self.event('loop-iter', st, n=i, elem=elem, snap=self._snap(), mark=_new_mark())
            try:
                self.exec_block(st.body)
            except BreakSig:
                return
            except ContinueSig:
                continue
