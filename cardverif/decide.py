"""Dual-mode decision of obligations: PROVED from the inductive (over-approximating) run, REFUTED only from an
unrolled run plus a witness valuation, UNDECIDED otherwise."""
from __future__ import annotations

import os

from .interp import Analysis
from .lin import Lin, Infeasible
from .report import Ob, PROVED, REFUTED, UNDECIDED, Failure, find_witness, witness_text
from .model import norm_text, AnalysisError


class Runs:
    """Abstract paths of one entry in both modes (unrolled paths computed on demand)."""

    def __init__(self, prog, entry, raise_ops=False, summaries=None, hooks=None, unroll=2, res=None, label='',
                 max_paths=20000, drop_asserts=False):
        self.prog = prog
        self.entry = entry
        self.kw = dict(raise_ops=raise_ops, summaries=summaries, hooks=hooks, max_paths=max_paths,
                       drop_asserts=drop_asserts)
        self.unroll = unroll
        self.res = res
        self.label = label
        self._inv = None
        self._unr = None
        self.an_inv = None

    @property
    def inv(self):
        if self._inv is None:
            an = Analysis(self.prog, mode='inv', **self.kw)
            self._inv = an.explore(self.entry)
            self.an_inv = an
            self._account(self._inv)
        return self._inv

    @property
    def unr(self):
        if self._unr is None:
            an = Analysis(self.prog, mode='unroll', unroll=self.unroll, **self.kw)
            self._unr = an.explore(self.entry)
            self._account(self._unr)
        return self._unr

    def _account(self, paths):
        if self.res is None:
            return
        funcs = set()
        calls = 0
        loops = set()
        raises = set()
        for p in paths:
            for e in p.events:
                if e.kind == 'enter':
                    funcs.add(e.data['callee'])
                    calls += 1
                elif e.kind in ('loop-head', 'loop-iter'):
                    loops.add(id(e.node))
                elif e.kind in ('raise', 'op-may-raise'):
                    raises.add(id(e.node))
        self.res.count(functions=funcs, paths=len(paths), call_sites=calls, loops=len(loops), raise_sites=len(raises))

    def judge(self, oid, title, where, construct, check, rule=None, unknown_ok=None, sample=None):
        """check(path, mode) -> list[Failure].  Returns an Ob."""
        ob = Ob(oid, title, where, construct, rule=rule)
        fails = []
        blocked = []
        n_eval = 0
        for p in self.inv:
            n_eval += 1
            if p.outcome == 'abandon':
                blocked.append(f'path abandoned: {p.value}')
                continue
            fs = check(p, 'inv')
            for f in fs:
                f.path = p
            fails.extend(fs)
            if p.tainted:
                blocked.append(f'decision depends on unknown value: {p.tainted[0]}')
            unk = [u for u in p.unknowns if unknown_ok is None or not unknown_ok(u)]
            if unk:
                blocked.append(f'construct outside the interpreted fragment: {unk[0][0]}')
        if self.inv and not any(p.outcome == 'return' for p in self.inv) and not getattr(check, 'no_return_ok', False):
            # every rule looks at what the entry point does before it returns: an entry point without a single returning
            # path (its loop exits were not explored, everything raised ...) leaves nothing to judge
            blocked.append('no abstract path of the analysed entry point returns')
        if self.res is not None:
            self.res.count(evaluations=n_eval)
        if sample is not None and self.inv:
            try:
                ob.abstract = sample(self.inv)
            except Exception as ex:     # sampling must never break a verdict
                ob.abstract = f'<sample failed: {ex}>'
        if not fails and not blocked:
            ob.verdict = PROVED
            ob.detail = f'holds on all {len(self.inv)} abstract paths (inductive run)'
            if os.environ.get('CARDVERIF_DEEP'):
                # thorough tier: cross-check the proof against the unrolled (under-approximating) run
                n2 = 0
                for p in self.unr:
                    if p.outcome == 'abandon' or p.tainted:
                        continue
                    n2 += 1
                    try:
                        deep_fails = check(p, 'unroll')
                    except Exception:       # the cross-check is a consistency probe: a rule that cannot read an unrolled path
                        continue            # of a proved obligation says nothing (the proof stands on the inductive run)
                    for f in deep_fails:
                        f.path = p
                        w = find_witness(p, f)
                        if w is not None:
                            ob.verdict = UNDECIDED
                            ob.detail = ('inductive proof contradicted by a witness on an unrolled path (checker '
                                         f'inconsistency): {f.desc}; witness {witness_text(w)}')
                            return ob
                ob.detail += f'; cross-checked on {n2} unrolled paths'
                if self.res is not None:
                    self.res.count(evaluations=n2)
            return ob
        # try to refute on unrolled paths
        n_eval = 0
        for p in self.unr:
            n_eval += 1
            if p.outcome == 'abandon' and not getattr(check, 'check_abandoned', False):
                continue
            if p.tainted:
                continue
            if [u for u in p.unknowns if unknown_ok is None or not unknown_ok(u)]:
                continue       # a path through a construct the interpreter does not model is never a refutation
            for f in check(p, 'unroll'):
                f.path = p
                w = find_witness(p, f)
                if w is not None:
                    ob.verdict = REFUTED
                    ob.detail = f.desc
                    ob.witness = {k: v for k, v in w.items()}
                    if f.node is not None:
                        ob.construct = ob.construct or norm_text(f.node)
                    if f.abstract is not None:
                        ob.abstract = f.abstract
                    if self.res is not None:
                        self.res.count(evaluations=n_eval)
                    return ob
        if self.res is not None:
            self.res.count(evaluations=n_eval)
        ob.verdict = UNDECIDED
        if fails:
            ob.detail = 'not provable and no concrete refutation found: ' + fails[0].desc
        else:
            ob.detail = blocked[0]
        return ob


BENIGN_UNKNOWN = ('external call argparse', 'external call logging', 'external call print', 'external call os.',
                  'external call sys.', 'external call time.', 'external call warnings.', 'external call json.dump',
                  'external call pprint', 'external call textwrap', 'external call shutil.get_terminal_size')


def benign_unknown(u):
    """unmodelled constructs that cannot carry record data or change which file / codec is used (command line plumbing)"""
    return str(u[0]).startswith(BENIGN_UNKNOWN)


def need_ge0(store, lin, desc, node=None, abstract=None):
    """Obligation lin >= 0 on a path -> [] or [Failure]."""
    lin = Lin.of(lin)
    if store.prove_ge0(lin):
        return []
    return [Failure(desc, node=node, neg=[[-lin - 1]], abstract=abstract)]


def need_eq0(store, lin, desc, node=None, abstract=None):
    lin = Lin.of(lin)
    if store.decide_eq0(lin) is True:
        return []
    return [Failure(desc, node=node, neg=[[lin - 1], [-lin - 1]], abstract=abstract)]


_OPAQUE_REPR = None


def definite(desc, node=None, abstract=None, firm=False):
    """A structural failure: violated whenever the path is feasible.
    A failure whose description shows an opaque abstract value (<any:..>, <unknown:..>, a generator...) means the rule did
    not recognise the value it was looking at: unless the rule says the opacity itself is the point (firm=True), that is
    "not decided", never a violation."""
    global _OPAQUE_REPR
    if _OPAQUE_REPR is None:
        import re
        _OPAQUE_REPR = re.compile(r'<(any|unknown|elem|iter|generator|method|star|float):|<unknown|<generator |<iter ')
    if not firm and os.environ.get('CARDVERIF_LAX_DEF') != '1' and _OPAQUE_REPR.search(desc):
        return soft('(unrecognised value) ' + desc, node=node, abstract=abstract)
    return Failure(desc, node=node, neg=[[]], definite=True, abstract=abstract)


def soft(desc, node=None, abstract=None):
    """The abstract state is too weak to decide the obligation on this path (never a refutation)."""
    return Failure(desc, node=node, neg=None, soft=True, abstract=abstract)


def require_instances(ob, n, what):
    """anti-vacuity: an obligation whose rule found no instance to judge is not PROVED (a rule that matches zero sites
    would pass for ever, whatever the code does)"""
    from .report import PROVED, UNDECIDED
    if ob.verdict == PROVED and not n:
        ob.verdict = UNDECIDED
        ob.detail = f'no instance of {what} was observed by the rule: nothing was judged'
    return ob


def _norm_key(k):
    """state keys of a generator's consuming loop (another frame) read like the loop's own"""
    if k[0] == 'cattr':
        return ('attr', k[1])
    if k[0] == 'clocal':
        return ('local', k[1])
    return k


def iterations(p, loop=None, func=None):
    """Loop iterations on a path in either mode -> [(first_seq, last_seq, start_state, end_state, head_event)]
    where the states map ('local'|'attr'|'start'|'file', name) -> IntV | Lin."""
    out = []
    evs = p.events
    heads = [e for e in evs if e.kind == 'loop-head' and (loop is None or e.node is loop) and (func is None or e.under(func))]
    backs = [e for e in evs if e.kind == 'loop-back' and (loop is None or e.node is loop) and (func is None or e.under(func))]
    for h in heads:
        b = next((x for x in backs if x.node is h.node and x.seq > h.seq), None)
        if b is None:
            continue
        start = {_norm_key(k): v for k, v in h.data['gen'].items()}
        end = {_norm_key(k): v for k, v in b.data['post'].items()}
        for fid, (f, pos) in h.data.get('files', {}).items():
            start[('file', f.name)] = pos
        for fid, (f, pos) in b.data.get('files', {}).items():
            end[('file', f.name)] = pos
        out.append((h.seq, b.seq, start, end, h))
    its = [e for e in evs if e.kind == 'loop-iter' and 'snap' in e.data and (loop is None or e.node is loop)
           and (func is None or e.under(func))]
    ends = [e for e in evs if e.kind == 'loop-end-snap' and (loop is None or e.node is loop)
            and (func is None or e.under(func))]
    for i, e in enumerate(its):
        nxt = next((x for x in its[i + 1:] if x.node is e.node), None)
        if nxt is None:
            nxt = next((x for x in ends if x.node is e.node and x.seq > e.seq), None)
        if nxt is None:
            continue
        out.append((e.seq, nxt.seq, e.data['snap'], nxt.data['snap'], e))
    return out
