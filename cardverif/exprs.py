"""Expression evaluation of the abstract interpreter."""
from __future__ import annotations

import ast

from .lin import Lin, Infeasible
from .avals import *   # noqa
from .avals import value_tags
from . import seqops
from .signals import Raised, Returned, Abandon, BreakSig, ContinueSig, ConsumerSignal


class ExprMixin:

    def divmod_const(self, a, c):
        """(q, r) with a == c*q + r and 0 <= r < c for a constant c > 0: the exact (linear) definition, shared by //, % and divmod"""
        a = self.store.canon(Lin.of(a))
        if a.is_const():
            return Lin.const(a.c // c), Lin.const(a.c % c)
        memo = self.__dict__.setdefault('_divmod_memo', {})
        key = (a, c)
        if key in memo:
            return memo[key]
        if all(k % c == 0 for _, k in a.t) and a.c % c == 0:
            r = (Lin(a.c // c, tuple((s_, k // c) for s_, k in a.t)), Lin.const(0))
            memo[key] = r
            return r
        lo, hi = self.store.bounds(a)
        q, r = self.fresh('q'), self.fresh('r')
        self.store.declare(q, lo // c if lo is not None else None, hi // c if hi is not None else None, info=f'({a})//{c}')
        self.store.declare(r, 0, c - 1, info=f'({a})%{c}')
        # the definition is kept as two inequalities: q and r stay plain symbols with their own intervals
        d = a - Lin.sym(q).scale(c) - Lin.sym(r)
        try:
            self.store.assume_ge0(d)
            self.store.assume_ge0(-d)
            self.store.__dict__.setdefault('definitional', []).extend([d, -d])
        except Exception:
            pass
        memo[key] = (Lin.sym(q), Lin.sym(r))
        return memo[key]

    def is_enum(self, ci):
        return any(isinstance(b, str) and b.split('.')[-1] in ('Enum', 'IntEnum', 'Flag', 'IntFlag', 'StrEnum') for b in ci.mro)

    def enum_members(self, ci):
        """the members of an enum.Enum subclass, in definition order: objects with name / value (and what __init__ sets)"""
        key = ('enum', ci.qualname)
        if key in self.modcache:
            return self.modcache[key]
        members = []
        self.modcache[key] = members
        for name, expr in ci.attrs.items():
            if name.startswith('_') or name in ci.ann_fields and name not in ci.attrs:
                continue
            val = self.eval_in_module(ci.module, expr, class_scope=ci)
            m = ObjV(ci)
            m.fields['name'] = lit(name)
            m.fields['_name_'] = lit(name)
            m.fields['value'] = val
            m.fields['_value_'] = val
            m.enum_member = name
            r = ci.lookup('__init__')
            if r is not None and r[0] == 'method':
                args = list(val.items) if isinstance(val, TupleV) else [val]
                self.call_function(r[1], args, {}, self_obj=m)
            members.append(m)
        return members

    def xor_atoms(self, lin):
        """Operands of the XOR chain that produced the integer `lin` (itself, when it is not a XOR)."""
        lin = self.store.canon(Lin.of(lin))
        syms = lin.syms()
        if len(syms) == 1 and lin == Lin.sym(syms[0]):
            o = self.origin.get(syms[0])
            if isinstance(o, tuple) and o and o[0] == 'xor':
                return o[1]
        if lin.is_const() and lin.c == 0:
            return frozenset()
        return frozenset([lin])


    def eval(self, node):
        m = getattr(self, 'ex_' + type(node).__name__, None)
        if m is None:
            self.note_unknown(node, f'expression {type(node).__name__}')
            return UnkV(type(node).__name__)
        return m(node)

    # ---------------------------------------------------------------- atoms
    def ex_Constant(self, node):
        v = node.value
        if v is Ellipsis:
            return ConstV(v)
        return self.from_py(v)

    def ex_Name(self, node):
        name = node.id
        fr = self.frames[-1]
        while fr is not None:
            if name in fr.locals:
                return fr.locals[name]
            fr = getattr(fr, 'closure', None)
        cs = getattr(self.frames[-1], 'class_scope', None)
        if cs is not None and name in cs.attrs:
            return self.class_attr(cs, name, cs.attrs[name])
        return self.global_name(self.frames[-1].module, name, node)

    def global_name(self, mod, name, node=None):
        r = self.prog.resolve_name(mod, name)
        if r is None:
            return self.builtin_name(name, node)
        return self.binding_value(r, node, name)

    def binding_value(self, r, node=None, name=''):
        kind = r[0]
        if kind == 'func':
            return FuncV(r[1])
        if kind == 'class':
            return ClassV(r[1])
        if kind == 'module':
            return ModV(r[1])
        if kind == 'ext':
            return ExtV(r[1])
        if kind == 'const':
            expr, mod = r[1], r[2]
            key = (mod.name, id(expr))
            if key in self.modcache:
                return self.modcache[key]
            if mod.name == 'cardutil.config' and name == 'config':
                v = PyLit(self.prog.config_literal(), 'config', tags=frozenset(['global']))
            else:
                v = self.eval_in_module(mod, expr)
                if isinstance(v, PyLit):
                    # a module-level name bound to (part of) the packaged configuration: what it holds is what the
                    # configuration held when the module was imported
                    v = PyLit(v.value, v.path, tags=frozenset(v.tags) | {'import-time'})
                if isinstance(v, (DictV, ListV, FileV, ObjV)):
                    v.tags = frozenset(v.tags) | {'global'}
                elif isinstance(v, (IterV, GenCallV)) and getattr(v, 'desc', None) not in ('range',) and \
                        not isinstance(getattr(v, 'src', None), RangeV):
                    # a module-level iterator (cycle(...), iter(...), a generator): consuming it changes state shared by all calls
                    v.shared_iterator = True
            self.modcache[key] = v
            return v
        return UnkV(f'binding {kind}')

    def eval_in_module(self, mod, expr, class_scope=None):
        from .interp import Frame
        fr = Frame(None, mod)
        fr.class_scope = class_scope     # names of the class body are visible to its own attribute expressions
        self.frames.append(fr)
        try:
            return self.eval(expr)
        finally:
            self.frames.pop()

    def builtin_name(self, name, node):
        import builtins
        if hasattr(builtins, name):
            return ExtV(name)
        self.note_unknown(node, f'unresolved name {name}')
        return UnkV(f'name {name}')

    def _pure_const(self, v, depth=0):
        """a display of constants only (numbers, text, nested tuples / lists / closed dictionaries of such)"""
        if isinstance(v, ConstV) or isinstance(v, SeqV) and v.is_lit():
            return True
        if isinstance(v, IntV):
            return v.lin.is_const()
        if depth < 4 and isinstance(v, (TupleV, ListV)) and getattr(v, 'items', None) is not None:
            return all(self._pure_const(x, depth + 1) for x in v.items)
        if depth < 4 and isinstance(v, DictV) and not v.open and not v.sym_stores and v.default is None and getattr(v, 'comp', None) is None:
            return all(self._pure_const(x, depth + 1) for x in v.items.values())
        return False

    def ex_Tuple(self, node):
        t = TupleV([self.eval(e) for e in node.elts])
        if 4 < len(t.items) <= 40 and all(self._pure_const(x) for x in t.items):
            t.exact_ok = True        # a table written out in the source: a loop over it runs entry by entry
        return t

    def ex_List(self, node):
        t = ListV(items=[self.eval(e) for e in node.elts])
        if 4 < len(t.items) <= 40 and all(self._pure_const(x) for x in t.items):
            t.exact_ok = True
        return t

    def ex_Set(self, node):
        from .calls import make_set
        return make_set(self, ListV(items=[self.eval(e) for e in node.elts]))

    def ex_Dict(self, node):
        d = DictV()
        for k, v in zip(node.keys, node.values):
            val = self.eval(v)
            if k is None:
                if isinstance(val, DictV):
                    d.items.update(val.items)
                    d.open = d.open or val.open
                else:
                    d.open = True
                continue
            kv = self.eval(k)
            pk = self.py_key(kv)
            if pk is None:
                d.sym_stores.append((kv, val))
            else:
                d.items[pk] = val
        return d

    def ex_JoinedStr(self, node):
        out = lit('')
        for part in node.values:
            if isinstance(part, ast.Constant):
                piece = lit(part.value)
            else:
                piece = self.ex_FormattedValue(part)
            out = seqops.concat(self, out, piece)
        return out

    def ex_FormattedValue(self, node):
        val = self.eval(node.value)
        if node.conversion == ord('r') or node.conversion == ord('a'):
            return seqops.opaque_fresh(self, 'str', 'repr', deps=(val,), tags=value_tags(val))
        if node.conversion == ord('s'):
            val = seqops.to_str(self, val, node)
        spec = ''
        if node.format_spec is not None:
            sv = self.eval(node.format_spec)
            if isinstance(sv, SeqV) and sv.is_lit():
                spec = sv.lit_value()
            elif seqops.split_spec(self, sv) is not None:
                pre, w, suf = seqops.split_spec(self, sv)
                return seqops.format_value_symw(self, self.resolve(val), pre, w, suf, node)
            else:
                self.note_unknown(node, 'non-constant format spec')
                return seqops.opaque_fresh(self, 'str', 'format(?)', deps=(val,), tags=value_tags(val))
        return self.do_format(val, spec, node)

    def do_format(self, val, spec, node):
        val = self.resolve(val)
        if spec == '' and isinstance(val, SeqV) and val.kind == 'str':
            return val
        if spec == '':
            return seqops.to_str(self, val, node)
        return seqops.format_value(self, val, spec, node)

    def ex_Lambda(self, node):
        from .model import FuncInfo
        fr = self.frames[-1]
        fn = ast.FunctionDef(name='<lambda>', args=node.args, body=[ast.Return(value=node.body)], decorator_list=[],
                             returns=None, type_comment=None)
        ast.copy_location(fn, node)
        ast.fix_missing_locations(fn)
        outer = fr.fi.qualname if fr.fi is not None else fr.module.name
        fi = FuncInfo(f'{outer}.<locals>.<lambda>', fn, fr.module, None)
        fv = FuncV(fi)
        fv.closure = fr
        return fv

    def ex_Starred(self, node):
        return self.eval(node.value)

    def try_truth(self, v):
        """truth of a value when it is known without forking, else None"""
        v = self.resolve(v)
        if isinstance(v, ConstV):
            return bool(v.value)
        if isinstance(v, IntV):
            r = self.store.decide_eq0(v.lin)
            return None if r is None else (not r)
        if isinstance(v, SymV):
            return self.binds.get(('truth', v.name))
        if isinstance(v, (ObjV, FileV, FuncV, ClassV)):
            return True
        if isinstance(v, SeqV):
            if not v.segs:
                return False
            if self.store.prove_ge0(v.length() - 1):
                return True
        return None

    def ex_IfExp(self, node):
        if self.nofork:
            t = self.try_truth(self.eval(node.test))
            if t is not None:
                return self.eval(node.body if t else node.orelse)
            a = self.eval(node.body)
            b = self.eval(node.orelse)
            return self.join2(a, b)
        # constant arms and an undecidable test: still fork (booleans drive later control flow)
        if self.truth(self.eval(node.test)):
            return self.eval(node.body)
        return self.eval(node.orelse)

    def join2(self, a, b):
        if isinstance(a, SeqV) and isinstance(b, SeqV) and a.kind == b.kind:
            la, lb = self.store.canon(a.length()), self.store.canon(b.length())
            if la == lb:
                return seqops.opaque(self, a.kind, la, ('join', a, b))
            return seqops.opaque_fresh(self, a.kind, 'join')
        if repr(a) == repr(b):
            return a
        return SymV(self.fresh('join'), 'any')

    def ex_Yield(self, node):
        v = self.eval(node.value) if node.value is not None else ConstV(None)
        cons = getattr(self, 'consumers', None)
        if not cons:
            self.note_unknown(node, 'yield without an active consuming loop')
            return ConstV(None)
        c = cons[-1]
        self.event('yield', node, value=v, consumer=c['node'])
        if c.get('callback') is not None:
            c['callback'](v)          # the consumer is the analysis itself (draining a generator into a list)
            return ConstV(None)
        # run the consuming loop body in the consumer's frame
        saved_frames, saved_stack = self.frames, self.stack
        self.frames = saved_frames[:c['depth']]
        self.stack = c['stack']
        cons.pop()
        try:
            try:
                self.assign(c['node'].target, v, c['node'])
                self.exec_block(c['node'].body)
            except ContinueSig:
                pass
            except Raised:
                if getattr(c['node'], '_is_cm', False):
                    raise        # @contextmanager: an exception of the with body is thrown into the generator at its yield
                import sys as _sys
                raise ConsumerSignal(_sys.exc_info()[1])
            except (BreakSig, Returned) as sig:
                raise ConsumerSignal(sig)
        finally:
            cons.append(c)
            self.frames = saved_frames
            self.stack = saved_stack
        return ConstV(None)

    def ex_YieldFrom(self, node):
        """yield from X  ==  for item in X: yield item   (a sub-generator runs inline, its yields reach the same consumer)"""
        src = self.resolve(self.eval(node.value))
        cons = getattr(self, 'consumers', None)
        if not cons:
            self.note_unknown(node, 'yield from without an active consuming loop')
            return ConstV(None)
        if isinstance(src, GenCallV):
            if src.started:
                self.note_unknown(node, 'generator consumed twice')
                return ConstV(None)
            src.started = True
            self._starting_generator = True
            return self.call_function(src.fi, src.args, src.kwargs, self_obj=src.self_obj, node=node, cls_obj=src.cls_obj,
                                      closure=src.closure)
        tree = getattr(node, '_desugared', None)
        var = f'__yf_{node.lineno}_{node.col_offset}'
        if tree is None:
            loop = ast.For(target=ast.Name(id=var, ctx=ast.Store()), iter=ast.Name(id=var + '_src', ctx=ast.Load()),
                           body=[ast.Expr(value=ast.Yield(value=ast.Name(id=var, ctx=ast.Load())))], orelse=[])
            ast.copy_location(loop, node)
            ast.fix_missing_locations(loop)
            for n in ast.walk(loop):
                for ch in ast.iter_child_nodes(n):
                    ch._parent = n
            fi = self.prog.node_owner.get(id(node))
            if fi is not None:
                for n in ast.walk(loop):
                    self.prog.node_owner.setdefault(id(n), fi)
            node._desugared = tree = loop
        fr = self.frames[-1]
        fr.locals[var + '_src'] = src
        try:
            self.exec_stmt(tree)
        finally:
            fr.locals.pop(var + '_src', None)
            fr.locals.pop(var, None)
        return ConstV(None)

    def ex_NamedExpr(self, node):
        v = self.eval(node.value)
        self.assign(node.target, v, node)
        return v

    # ---------------------------------------------------------------- truth / bool ops
    def truth(self, v, node=None):
        v = self.resolve(v)
        if isinstance(v, ConstV):
            return bool(v.value)
        if isinstance(v, IntV):
            return not self.decide_eq0(v.lin)
        if isinstance(v, SeqV):
            return self.decide_ge0(v.length() - 1)
        if isinstance(v, ListV):
            if v.len is not None:
                return self.decide_ge0(v.len - 1)
            return self._truth_fork(('list', v.id), f'list#{v.id} non-empty')
        if isinstance(v, TupleV):
            return bool(v.items)
        if isinstance(v, DictV):
            if v.items:
                return True
            if not v.open and not v.sym_stores and v.default is None:
                return False
            return self._truth_fork(('dict', v.id), f'dict#{v.id} non-empty')
        if isinstance(v, PyLit):
            return bool(v.value)
        if isinstance(v, (ObjV, FileV, FuncV, ClassV, ModV, ExtV, ExcV, BoundExt, IterV)):
            return True
        if isinstance(v, RangeV):
            if v.step != 1:
                return self.decide_ge0(self.range_count(v) - 1)
            return self.decide_ge0(Lin.of(v.hi) - Lin.of(v.lo) - 1)
        if isinstance(v, SymV):
            key = ('truth', v.name)
            if key in self.binds:
                return self.binds[key]
            if v.choices is not None:
                t = [c for c in v.choices if c]
                f = [c for c in v.choices if not c]
                if not f:
                    return True
                if not t:
                    return False
            r = self._truth_fork(key, f'{v.name} truthy')
            if v.choices is not None:
                self._narrow(v, [c for c in v.choices if bool(c) == r])
            self.fact('truth', r, sym=v)
            return r
        if isinstance(v, UnkV):
            c = self.choose(2, f'unknown truth {v.reason}')
            self.tainted.append(('truth-of-unknown', v.reason))
            return c in (0, None)
        self.note_unknown(node, f'truth of {v!r}')
        return True

    def _truth_fork(self, key, label):
        if key in self.binds:
            return self.binds[key]
        c = self.choose(2, label)
        r = c in (0, None)
        if c is not None:
            self.binds[key] = r
        return r

    def _narrow(self, sym, choices):
        choices = tuple(choices)
        self.binds[('choices', sym.name)] = choices
        if len(choices) == 1:
            self.binds[sym.name] = choices[0]

    def sym_choices(self, sym):
        return self.binds.get(('choices', sym.name), sym.choices)

    def ex_UnaryOp(self, node):
        v = self.eval(node.operand)
        if isinstance(node.op, ast.Not):
            return ConstV(not self.truth(v, node))
        if isinstance(node.op, ast.USub):
            v = self.resolve(v)
            if isinstance(v, IntV):
                return IntV(-v.lin, v.tags)
        if isinstance(node.op, ast.UAdd) and isinstance(v, IntV):
            return v
        self.note_unknown(node, f'unary {type(node.op).__name__} on {v!r}')
        return UnkV('unary')

    def ex_BoolOp(self, node):
        is_and = isinstance(node.op, ast.And)
        v = None
        for e in node.values:
            v = self.eval(e)
            a0 = getattr(self, 'assumed', 0)
            t = self.truth(v, node)
            if self.nofork and getattr(self, 'assumed', 0) != a0:
                # undecidable without forking: the value is one of the operands
                rest = [self.eval(x) for x in node.values[node.values.index(e) + 1:]]
                return SymV(self.fresh('boolop'), 'any', origin=('boolop', type(node.op).__name__, [v] + rest))
            if is_and and not t:
                return v
            if not is_and and t:
                return v
        return v

    def ex_Compare(self, node):
        left = self.eval(node.left)
        result = True
        for op, comp in zip(node.ops, node.comparators):
            right = self.eval(comp)
            r = self.compare(op, left, right, node)
            if not r:
                return ConstV(False)
            left = right
        return ConstV(result)

    def compare(self, op, a, b, node):
        a, b = self.resolve(a), self.resolve(b)
        if isinstance(op, (ast.Eq, ast.NotEq, ast.Is, ast.IsNot)):
            r = self.equal(a, b, node, identity=isinstance(op, (ast.Is, ast.IsNot)))
            return r if isinstance(op, (ast.Eq, ast.Is)) else (not r)
        if isinstance(op, (ast.In, ast.NotIn)):
            r = self.contains(b, a, node)
            return r if isinstance(op, ast.In) else (not r)
        # ordering
        la, lb = self.as_lin(a), self.as_lin(b)
        if la is not None and lb is not None:
            if isinstance(op, ast.Lt):
                return self.decide_ge0(lb - la - 1)
            if isinstance(op, ast.LtE):
                return self.decide_ge0(lb - la)
            if isinstance(op, ast.Gt):
                return self.decide_ge0(la - lb - 1)
            if isinstance(op, ast.GtE):
                return self.decide_ge0(la - lb)
        if isinstance(a, TupleV) and isinstance(b, TupleV):
            pa = [self.py_key(x) for x in a.items]
            pb = [self.py_key(x) for x in b.items]
            if None not in pa and None not in pb:
                import operator
                f = {ast.Lt: operator.lt, ast.LtE: operator.le, ast.Gt: operator.gt, ast.GtE: operator.ge}[type(op)]
                return f(tuple(pa), tuple(pb))
        return self._fact_fork('order', node, a=a, b=b, op=type(op).__name__)

    def as_lin(self, v):
        v = self.resolve(v)
        if isinstance(v, IntV):
            return v.lin
        if isinstance(v, ConstV) and isinstance(v.value, bool):
            return Lin.const(int(v.value))
        return None

    def _fact_fork(self, kind, node, **data):
        c = self.choose(2, kind)
        r = c in (0, None)
        if any(isinstance(x, UnkV) for x in data.values()):
            self.tainted.append((kind, 'unknown operand'))
        self.fact(kind, r, node=node, **data)
        return r

    def equal(self, a, b, node, identity=False):
        la, lb = self.as_lin(a), self.as_lin(b)
        if la is not None and lb is not None:
            return self.decide_eq0(la - lb)
        if isinstance(a, ConstV) and isinstance(b, ConstV):
            return a.value == b.value if not identity else a.value is b.value
        if isinstance(a, SeqV) and isinstance(b, SeqV):
            if a.kind != b.kind:
                return False
            if a.is_lit() and b.is_lit():
                return a.lit_value() == b.lit_value()
            d = a.length() - b.length()
            r = self.store.decide_eq0(d)
            if r is False:
                return False
            if seqops.seq_eq_structural(self, a, b):
                return True
            key = ('seq-eq', self._seq_key(a), self._seq_key(b))
            if key in self.binds:
                return self.binds[key]
            t = self._fact_fork('seq-eq', node, a=a, b=b)
            self.binds[key] = t
            self.binds[('seq-eq', key[2], key[1])] = t
            if t:
                self.store.assume_eq0(d)
            return t
        # symbolic opaque values
        for x, y in ((a, b), (b, a)):
            if isinstance(x, SymV):
                return self._sym_equal(x, y, node)
        if isinstance(a, (ConstV, IntV, SeqV)) and isinstance(b, (ConstV, IntV, SeqV)) and \
                not isinstance(a, UnkV) and not isinstance(b, UnkV):
            # different kinds of constants (e.g. str vs None, int vs str)
            if type(a) is not type(b):
                if isinstance(a, ConstV) and isinstance(a.value, bool) or isinstance(b, ConstV) and isinstance(b.value, bool):
                    pass
                else:
                    return False
        if isinstance(a, (ObjV, FileV, DictV, ListV)) and isinstance(b, (ObjV, FileV, DictV, ListV)) and identity:
            return a is b
        if isinstance(a, ClassV) and isinstance(b, ClassV):
            return a.ci is b.ci
        if isinstance(a, (ObjV, FileV, ClassV, FuncV)) and isinstance(b, ConstV) or \
                isinstance(b, (ObjV, FileV, ClassV, FuncV)) and isinstance(a, ConstV):
            return False
        if isinstance(a, (DictV, ListV, TupleV, PyLit)) and isinstance(b, ConstV) and b.value is None or \
                isinstance(b, (DictV, ListV, TupleV, PyLit)) and isinstance(a, ConstV) and a.value is None:
            return False
        return self._fact_fork('eq', node, a=a, b=b)

    def _seq_key(self, s):
        c = self.store.canon
        parts = []
        for g in s.segs:
            if isinstance(g, Lit):
                parts.append(('L', g.data))
            elif isinstance(g, Sl):
                parts.append(('S', g.src.id, c(g.lo), c(g.hi)))
            elif isinstance(g, Rep):
                parts.append(('R', g.unit if isinstance(g.unit, (str, bytes)) else id(g.unit), c(g.count)))
            elif isinstance(g, Num) and g.val is not None:
                parts.append(('N', c(g.val), g.base, g.minw, g.fill))
            else:
                parts.append(('O', id(g)))
        c = getattr(s, 'codec', None)
        return (s.kind, tuple(parts), repr(c) if c is not None else None)

    def _sym_equal(self, x, y, node):
        """SymV x compared with y."""
        py = self.py_key(y) if not isinstance(y, SymV) else None
        is_none = isinstance(y, ConstV) and y.value is None
        if x.kind == 'sentinel':
            # object(): equal to itself only
            return isinstance(y, SymV) and x.name == y.name
        if isinstance(y, SymV):
            if x.name == y.name:
                return True
            if y.kind == 'sentinel':
                return False
            return self._fact_fork('eq', node, a=x, b=y)
        if py is None and not is_none:
            return self._fact_fork('eq', node, a=x, b=y)
        const = None if is_none else py
        if x.name in self.binds:
            return self.binds[x.name] == const
        pre = self.binds.get(('eqs', x.name))
        if pre and const in pre:
            return pre[const]
        choices = self.sym_choices(x)
        if choices is not None:
            if const not in choices:
                return False
            if len(choices) == 1:
                return True
        ne = self.binds.get(('ne', x.name), ())
        if const in ne:
            return False
        tkey = ('truth', x.name)
        if tkey in self.binds and self.binds[tkey] != bool(const):
            return False
        c = self.choose(2, f'{x.name}=={const!r}')
        r = c in (0, None)
        if c is None:
            self.fact('sym-eq-nofork', None, sym=x, const=const, node=node)
            return True
        if r:
            self.binds[x.name] = const
            self.binds[tkey] = bool(const)
        else:
            self.binds[('ne', x.name)] = tuple(ne) + (const,)
            if choices is not None:
                self._narrow(x, [k for k in choices if k != const])
        self.fact('sym-eq', r, sym=x, const=const, node=node)
        return r

    def contains(self, container, item, node):
        container = self.resolve(container)
        item = self.resolve(item)
        if isinstance(container, RangeV) and container.step == 1:
            li = self.as_lin(item)
            if li is not None and not (isinstance(item, ConstV) and isinstance(item.value, bool)):
                # n in range(a, b)  <=>  a <= n < b   (decide_ge0 forks and records the bound on either branch)
                return bool(self.decide_ge0(li - Lin.of(container.lo))) and bool(self.decide_ge0(Lin.of(container.hi) - li - 1))
        if isinstance(container, (TupleV, ListV)) and getattr(container, 'items', None) is not None:
            for x in container.items:
                if self.equal(item, x, node):
                    return True
            return False
        if isinstance(container, DictV):
            k = self.py_key(item)
            if k is not None:
                if k in container.items:
                    return True
                if not container.open and not container.sym_stores and container.default is None:
                    return False
        if isinstance(container, PyLit) and isinstance(container.value, (dict, list)):
            k = self.py_key(item)
            if k is not None:
                return k in container.value
        if isinstance(container, SeqV) and isinstance(item, SeqV) and container.is_lit() and item.is_lit():
            return item.lit_value() in container.lit_value()
        return self._fact_fork('in', node, item=item, container=container)

    # ---------------------------------------------------------------- arithmetic
    def ex_BinOp(self, node):
        a = self.eval(node.left)
        b = self.eval(node.right)
        return self.binop(node.op, a, b, node)

    def binop(self, op, a, b, node):
        a, b = self.resolve(a), self.resolve(b)
        la, lb = self.as_lin(a), self.as_lin(b)
        tags = value_tags(a) | value_tags(b) if not isinstance(a, SeqV) else frozenset()
        if la is not None and lb is not None:
            ca, cb = self.store.canon(la), self.store.canon(lb)
            if isinstance(op, ast.Add):
                return IntV(la + lb, tags)
            if isinstance(op, ast.Sub):
                return IntV(la - lb, tags)
            if isinstance(op, ast.Mult):
                if ca.is_const():
                    return IntV(lb.scale(ca.c), tags)
                if cb.is_const():
                    return IntV(la.scale(cb.c), tags)
                return self._opaque_int('product', node, tags)
            if isinstance(op, ast.Pow):
                if ca.is_const() and cb.is_const() and 0 <= cb.c <= 64:
                    return IntV(ca.c ** cb.c, tags)
                return self._opaque_int('power', node, tags)
            if isinstance(op, (ast.FloorDiv, ast.Mod, ast.Div)):
                # a divisor that may be zero: ZeroDivisionError (effect table)
                if cb.is_const() and cb.c == 0:
                    raise Raised(ExcV(ZeroDivisionError, [], node=node, stack=self.stack, op='division by zero', definite=True))
                if not cb.is_const() and not self.store.prove_ge0(cb - 1) and not self.store.prove_ge0(-cb - 1):
                    try:
                        self.may_raise(ZeroDivisionError, node, f'division by {self.store.canon(cb)}, which may be zero',
                                       wire='wire' in tags)
                    except Raised:
                        self.store.assume_eq0(cb)
                        raise
            if isinstance(op, ast.FloorDiv):
                if ca.is_const() and cb.is_const() and cb.c != 0:
                    return IntV(ca.c // cb.c, tags)
                if cb.is_const() and cb.c > 0:
                    return IntV(self.divmod_const(ca, cb.c)[0], tags)
                return self._opaque_int('floordiv', node, tags)
            if isinstance(op, ast.Mod):
                if ca.is_const() and cb.is_const() and cb.c != 0:
                    return IntV(ca.c % cb.c, tags)
                if cb.is_const() and cb.c > 0:
                    return IntV(self.divmod_const(ca, cb.c)[1], tags)
                return self._opaque_int('mod', node, tags)
            if isinstance(op, (ast.BitXor, ast.BitAnd, ast.BitOr, ast.LShift, ast.RShift)):
                if ca.is_const() and cb.is_const():
                    import operator
                    f = {ast.BitXor: operator.xor, ast.BitAnd: operator.and_, ast.BitOr: operator.or_,
                         ast.LShift: operator.lshift, ast.RShift: operator.rshift}[type(op)]
                    return IntV(f(ca.c, cb.c), tags)
                if isinstance(op, (ast.BitXor, ast.BitOr)):
                    # 0 is the identity of ^ and |
                    if ca.is_const() and ca.c == 0:
                        return IntV(cb, tags)
                    if cb.is_const() and cb.c == 0:
                        return IntV(ca, tags)
                v = self._opaque_int(type(op).__name__, node, tags, nonneg=(self.store.prove_ge0(ca) and self.store.prove_ge0(cb)))
                if isinstance(op, ast.BitXor):
                    ha, hb = self.store.hi(ca), self.store.hi(cb)
                    if ha is not None and hb is not None and self.store.prove_ge0(ca) and self.store.prove_ge0(cb):
                        bits = max(ha.bit_length(), hb.bit_length())
                        self.store.declare(v.lin.syms()[0], 0, (1 << bits) - 1)
                    # the operands of a chain of XORs, as a set: equal operands cancel
                    self.origin[v.lin.syms()[0]] = ('xor', self.xor_atoms(ca) ^ self.xor_atoms(cb))
                else:
                    self.origin[v.lin.syms()[0]] = ('bitop', type(op).__name__, ca, cb)
                v.origin = (type(op).__name__, a, b)
                return v
            if isinstance(op, ast.Div):
                return SymV(self.fresh('float'), 'float', tags=tags)
        if isinstance(a, SeqV) and isinstance(b, SeqV) and isinstance(op, ast.Add):
            r = seqops.concat(self, a, b)
            if r is None:
                import builtins
                raise Raised(ExcV(builtins.TypeError, [], node=node, stack=self.stack, op='str+bytes', definite=True))
            return r
        if isinstance(op, ast.Mult):
            for s, n in ((a, b), (b, a)):
                ln = self.as_lin(n)
                if isinstance(s, SeqV) and ln is not None:
                    return self._repeat(s, ln, node)
                if isinstance(s, ListV) and ln is not None and s.items is not None:
                    c = self.store.canon(ln)
                    if c.is_const() and len(s.items) * max(c.c, 0) <= 4096:
                        return ListV(items=list(s.items) * max(c.c, 0))
                    return ListV(items=None, elem=self.join_many(s.items) if s.items else None,
                                 length=ln.scale(len(s.items)))
        if isinstance(op, ast.Add) and isinstance(a, ListV) and isinstance(b, ListV):
            if a.items is not None and b.items is not None:
                return ListV(items=a.items + b.items)
            ln = (a.len + b.len) if a.len is not None and b.len is not None else None
            r = ListV(items=None, elem=b.elem if a.items is not None else (a.elem or b.elem), length=ln)
            if a.items is not None:
                r.parts = [('items', list(a.items)), ('extend', b, b.len)]
                r.prev_items = list(a.items)
            return r
        if isinstance(op, ast.Add) and isinstance(a, TupleV) and isinstance(b, TupleV):
            return TupleV(a.items + b.items)
        if isinstance(op, ast.Mult) and (isinstance(a, TupleV) and isinstance(b, IntV) or isinstance(b, TupleV) and isinstance(a, IntV)):
            t, n = (a, b) if isinstance(a, TupleV) else (b, a)
            c = self.store.canon(n.lin)
            if c.is_const() and len(t.items) * max(c.c, 0) <= 256:
                return TupleV(list(t.items) * max(c.c, 0))      # (2, 1) * 10
        if isinstance(op, ast.Mod) and isinstance(a, SeqV):
            return self._percent_format(a, b, node)
        if isinstance(op, ast.BitOr) and isinstance(a, (DictV, PyLit)) and isinstance(b, (DictV, PyLit)):
            # a | b on dictionaries (3.9): a new dictionary, a's entries then b's - a copy updated with b
            from . import ext as _ext2
            merged = _ext2._d_copy(self, a, [], {}, node)
            if isinstance(b, PyLit):
                b = _ext2._d_copy(self, b, [], {}, node)
            _ext2._d_update(self, merged, [b], {}, node)
            return merged
        if isinstance(a, (UnkV,)) or isinstance(b, (UnkV,)):
            return UnkV('binop on unknown')
        if isinstance(a, SymV) or isinstance(b, SymV):
            s = SymV(self.fresh('t'), 'any', tags=tags, origin=(type(op).__name__, a, b))
            return s
        self.note_unknown(node, f'binop {type(op).__name__} on {a!r}, {b!r}')
        return UnkV('binop')

    def _opaque_int(self, why, node, tags=frozenset(), nonneg=False):
        s = self.fresh('t')
        self.store.declare(s, 0 if nonneg else None, None, info=why)
        # the result of an operation that is not modelled: not every value in its interval need be attainable
        self.store.__dict__.setdefault('opaque', set()).add(s)
        return IntV(Lin.sym(s), tags)

    def _repeat(self, s, n, node):
        n = Lin.of(n)
        if not self.decide_ge0(n - 1):
            return SeqV(s.kind, ())
        c = self.store.canon(n)
        ln = self.store.canon(s.length())
        if s.is_lit():
            data = s.lit_value()
            if c.is_const() and len(data) * c.c <= 64:
                return lit(data * c.c)
            if len(data) == 1:
                return seqops.normalise(self, s.kind, (Rep(data, n),), s.tags)
        if ln.is_const() and ln.c == 1:
            return seqops.normalise(self, s.kind, (Rep(s, n),), s.tags)
        if ln.is_const():
            return seqops.opaque(self, s.kind, n.scale(ln.c), ('repeat', s, n))
        return seqops.opaque_fresh(self, s.kind, 'repeat')

    def _percent_format(self, fmt, arg, node):
        if fmt.is_lit() and fmt.kind == 'str':
            import re
            parts = re.split(r'(%[-0-9.]*[sdxXir%])', fmt.lit_value())
            args = arg.items if isinstance(arg, TupleV) else [arg]
            out = lit('')
            i = 0
            ok = True
            for p in parts:
                if p.startswith('%') and len(p) > 1:
                    if p == '%%':
                        piece = lit('%')
                    else:
                        if i >= len(args):
                            ok = False
                            break
                        flags, conv = p[1:-1], p[-1]
                        spec = flags + ({'i': 'd', 's': '', 'r': ''}.get(conv, conv))
                        if flags.startswith('-'):
                            spec = '<' + flags[1:]
                        v = args[i]
                        if conv in 'sr':
                            v = seqops.to_str(self, v, node)
                            if spec and not spec.startswith('<'):
                                spec = '>' + spec
                        piece = self.do_format(v, spec, node)
                        i += 1
                else:
                    piece = lit(p)
                out = seqops.concat(self, out, piece)
            if ok:
                return out
        self.note_unknown(node, '%-format')
        return seqops.opaque_fresh(self, fmt.kind, '%-format')

    # ---------------------------------------------------------------- attribute / subscript
    def ex_Attribute(self, node):
        obj = self.eval(node.value)
        return self.get_attr(obj, node.attr, node)

    def get_attr(self, obj, name, node):
        obj = self.resolve(obj)
        if isinstance(obj, ObjV):
            if name in obj.fields:
                return obj.fields[name]
            if name == '__dict__':
                return DictV(items=obj.fields, desc=f'__dict__ of {obj!r}')
            if name == '__class__':
                return ClassV(obj.cls)
            r = obj.cls.lookup(name)
            if r is not None:
                if r[0] == 'method':
                    fi = r[1]
                    if fi.is_property:
                        return self.call_function(fi, [], {}, self_obj=obj, node=node)
                    if fi.is_static:
                        return FuncV(fi)
                    if fi.is_classmethod:
                        return FuncV(fi, cls_obj=ClassV(obj.cls))
                    return FuncV(fi, self_obj=obj)
                v = self.class_attr(r[2], name, r[1])
                if isinstance(v, ObjV) and v.cls.lookup('__get__') is not None:
                    g = v.cls.lookup('__get__')
                    if g[0] == 'method':
                        return self.call_function(g[1], [obj, ClassV(obj.cls)], {}, self_obj=v, node=node)
                return v
            ga = obj.cls.lookup('__getattr__')
            if ga is not None and ga[0] == 'method':
                self.event('getattr-proxy', node, obj=obj, attr=name)
                return self.call_function(ga[1], [lit(name)], {}, self_obj=obj, node=node)
            if [b for b in obj.cls.external_bases() if b not in ('object', 'builtins.object')] and \
                    not self.is_exception_class(obj.cls):
                return BoundExt(obj, name)       # method / attribute inherited from an external base class
            self.note_unknown(node, f'attribute {name} of {obj!r}')
            return UnkV(f'attr {name}')
        if isinstance(obj, ClassV):
            if self.is_enum(obj.ci) and name in obj.ci.attrs and not name.startswith('_'):
                for m in self.enum_members(obj.ci):
                    if m.enum_member == name:
                        return m
            r = obj.ci.lookup(name)
            if r is not None:
                if r[0] == 'method':
                    fi = r[1]
                    if fi.is_classmethod:
                        return FuncV(fi, cls_obj=obj)
                    return FuncV(fi)
                return self.eval_in_module(r[2].module, r[1])
            if name == '__name__':
                return lit(obj.ci.name)
            self.note_unknown(node, f'class attribute {obj.ci.name}.{name}')
            return UnkV(f'class attr {name}')
        if isinstance(obj, ModV):
            r = self.prog.resolve_attr(('module', obj.mod), name)
            if r is None:
                self.note_unknown(node, f'module attribute {obj.mod.name}.{name}')
                return UnkV(f'module attr {name}')
            return self.binding_value(r, node, name)
        if isinstance(obj, ExtV):
            r = self.prog.resolve_attr(('ext', obj.name), name)
            if r[0] == 'module':
                return ModV(r[1])
            return ExtV(f'{obj.name}.{name}')
        if isinstance(obj, SuperV):
            r = obj.cls.lookup_after(obj.owner, name)
            if r is None:
                # object.__init__ and friends
                return BoundExt(obj, name)
            if r[0] == 'method':
                fi = r[1]
                if fi.is_classmethod:
                    return FuncV(fi, cls_obj=ClassV(obj.cls))
                return FuncV(fi, self_obj=obj.obj if not fi.is_static else None)
            return self.eval_in_module(r[2].module, r[1])
        if isinstance(obj, ExcV):
            if name in obj.fields:
                return obj.fields[name]
            if hasattr(obj.cls, 'qualname'):
                r = obj.cls.lookup(name)
                if r is not None and r[0] == 'attr':
                    return self.eval_in_module(r[2].module, r[1])
            if name == 'args':
                return TupleV(obj.args)
            return SymV(self.fresh(f'exc.{name}'), 'any')
        from . import ext as _ext
        if isinstance(obj, TupleV) and name in getattr(obj, 'names', ()):
            return obj.items[obj.names.index(name)]
        if isinstance(obj, TupleV) and getattr(obj, 'cls', None) is not None:
            # a typing.NamedTuple subclass with its own methods / properties
            r = obj.cls.lookup(name)
            if r is not None and r[0] == 'method':
                fi = r[1]
                if fi.is_property:
                    return self.call_function(fi, [], {}, self_obj=obj, node=node)
                if fi.is_static:
                    return FuncV(fi)
                if fi.is_classmethod:
                    return FuncV(fi, cls_obj=ClassV(obj.cls))
                return FuncV(fi, self_obj=obj)
            if r is not None and r[0] == 'attr' and name not in obj.cls.ann_fields:
                return self.class_attr(r[2], name, r[1])
        if isinstance(obj, _ext.ParserV):
            return BoundExt(obj, name)
        if isinstance(obj, _ext.NamespaceV):
            if obj.dict is None:
                obj.dict = _ext.parser_namespace(self, obj.parser)
            if name in obj.dict.items:
                return obj.dict.items[name]
            self.note_unknown(node, f'attribute {name} of the argparse namespace')
            return UnkV(name)
        if isinstance(obj, _ext.StructV):
            if name == 'size':
                import struct as _st
                return IntV(_st.calcsize(obj.fmt.lit_value()))
            if name == 'format':
                return obj.fmt
            return BoundExt(obj, name)
        if isinstance(obj, (SeqV, ListV, DictV, TupleV, FileV, IntV, PyLit, IterV, SymV, ConstV, RangeV, UnkV, SliceV)):
            if isinstance(obj, SliceV) and name in ('start', 'stop'):
                v = obj.lo if name == 'start' else obj.hi
                return IntV(v) if v is not None else ConstV(None)
            if isinstance(obj, FileV) and name == 'closed':
                return ConstV(obj.closed)
            return BoundExt(obj, name)
        if isinstance(obj, FuncV) and name == '__name__':
            return lit(obj.fi.name)
        self.note_unknown(node, f'attribute {name} of {obj!r}')
        return UnkV(f'attr {name}')

    def class_attr(self, owner, name, expr):
        """Value of a class-level attribute: one object per class (shared by all instances)."""
        key = ('classattr', owner.qualname, name)
        if key in self.modcache:
            return self.modcache[key]
        v = self.eval_in_module(owner.module, expr, class_scope=owner)
        if isinstance(v, (ListV, DictV, ObjV, FileV)):
            v.tags = frozenset(v.tags) | {'global'}
            if isinstance(v, (ListV, DictV)):
                v.desc = f'class attribute {owner.name}.{name}'
            self.modcache[key] = v
        return v

    def ex_Subscript(self, node):
        obj = self.eval(node.value)
        if isinstance(node.slice, ast.Slice):
            lo = self.eval(node.slice.lower) if node.slice.lower is not None else None
            hi = self.eval(node.slice.upper) if node.slice.upper is not None else None
            step = self.eval(node.slice.step) if node.slice.step is not None else None
            return self.get_slice(obj, lo, hi, step, node)
        key = self.eval(node.slice)
        if isinstance(key, SliceV):
            return self.get_slice(obj, IntV(key.lo) if key.lo is not None else None,
                                  IntV(key.hi) if key.hi is not None else None, None, node)
        return self.get_item(obj, key, node)

    def get_slice(self, obj, lo, hi, step, node):
        obj = self.resolve(obj)

        def bound(x):
            if x is None:
                return None, True
            x = self.resolve(x)
            if isinstance(x, ConstV) and x.value is None:
                return None, True
            l = self.as_lin(x)
            return l, l is not None
        llo, ok1 = bound(lo)
        lhi, ok2 = bound(hi)
        if step is not None:
            st = self.as_lin(step)
            sc = self.store.canon(st) if st is not None else None
            if isinstance(obj, SeqV) and lo is None and hi is None and sc is not None and sc.is_const() and sc.c == -1:
                if obj.is_lit():
                    return lit(obj.lit_value()[::-1])
                return seqops.opaque(self, obj.kind, obj.length(), ('reversed', obj), tags=obj.tags)
            if isinstance(obj, ListV) and lo is None and hi is None and sc is not None and sc.is_const() and sc.c == -1:
                if obj.items is not None:
                    return ListV(items=obj.items[::-1])
                rev = {'asc': 'desc', 'desc': 'asc'}.get(obj.order)
                return ListV(items=None, elem=obj.elem, length=obj.len, order=rev, desc='reversed')
            self.note_unknown(node, 'slice with step')
            return UnkV('step slice')
        if isinstance(obj, SeqV) and ok1 and ok2:
            r = seqops.slice_seq(self, obj, llo, lhi)
            self.event('slice', node, obj=obj, lo=llo, hi=lhi, result=r)
            return r
        if isinstance(obj, ListV) and ok1 and ok2:
            if obj.items is not None:
                cl = self.store.canon(llo) if llo is not None else None
                ch = self.store.canon(lhi) if lhi is not None else None
                if (cl is None or cl.is_const()) and (ch is None or ch.is_const()):
                    return ListV(items=obj.items[(cl.c if cl else None):(ch.c if ch else None)])
            n = obj.len
            if n is not None:
                a = seqops._norm_bound(self, llo, n, Lin.const(0))
                b = seqops._norm_bound(self, lhi, n, n)
                ln = b - a if self.decide_ge0(b - a) else Lin.const(0)
            else:
                ln = None
            r = ListV(items=None, elem=obj.elem, length=ln, order=obj.order, desc='slice')
            r.parent = (obj, llo, lhi)
            return r
        if isinstance(obj, TupleV) and ok1 and ok2:
            cl = self.store.canon(llo) if llo is not None else None
            ch = self.store.canon(lhi) if lhi is not None else None
            if (cl is None or cl.is_const()) and (ch is None or ch.is_const()):
                return TupleV(obj.items[(cl.c if cl else None):(ch.c if ch else None)])
        if isinstance(obj, (SymV, UnkV)):
            return SymV(self.fresh('slice'), 'any', tags=value_tags(obj), origin=('slice', obj, llo, lhi))
        self.note_unknown(node, f'slice of {obj!r}')
        return UnkV('slice')

    def get_item(self, obj, key, node):
        obj, key = self.resolve(obj), self.resolve(key)
        if isinstance(obj, SeqV):
            l = self.as_lin(key)
            if l is not None:
                r = seqops.index_seq(self, obj, l, node)
                if obj.kind == 'bytes' and self.decide_ge0(l):
                    # reading one byte by its index consumes data[i:i+1] (framing rules follow the bytes that are read)
                    self.event('slice', node, obj=obj, lo=l, hi=l + 1, result=r, index=True)
                return r
        if isinstance(obj, TupleV):
            k = self.py_key(key)
            if isinstance(k, int) and -len(obj.items) <= k < len(obj.items):
                return obj.items[k]
            l = self.as_lin(key)
            if l is not None and obj.items:
                n = len(obj.items)
                if not (self.store.prove_ge0(l + n) and self.store.prove_ge0(Lin.const(n - 1) - l)):
                    self.may_raise(IndexError, node, f'tuple index {l} (len {n})', wire='wire' in value_tags(key))
                lins = [self.as_lin(x) for x in obj.items]
                if all(x is not None and self.store.canon(x).is_const() for x in lins):
                    vals = [self.store.canon(x).c for x in lins]
                    sname = self.fresh('t')
                    self.store.declare(sname, min(vals), max(vals), info='element of a constant tuple')
                    return IntV(Lin.sym(sname))
                return self.join_many(obj.items)
        if isinstance(obj, ListV):
            l = self.as_lin(key)
            if l is not None:
                self.event('list-index', node, obj=obj, index=l)
                c = self.store.canon(l)
                if obj.items is not None and c.is_const() and -len(obj.items) <= c.c < len(obj.items):
                    return obj.items[c.c]
                if obj.len is not None:
                    pos = l if self.decide_ge0(l) else obj.len + l
                    if not (self.store.prove_ge0(obj.len - pos - 1) and self.store.prove_ge0(pos)):
                        self.may_raise(IndexError, node, f'list index {l} (len {obj.len})',
                                       wire='wire' in value_tags(key) or 'wire' in value_tags(obj))
                        self.assume_ge0(obj.len - pos - 1)
                        self.assume_ge0(pos)
                else:
                    self.may_raise(IndexError, node, f'list index {l} (unknown length)', wire=False)
                memo = obj.__dict__.setdefault('index_memo', {})
                mk = repr(self.store.canon(l))
                if mk not in memo:
                    base = obj.elem if obj.items is None else self.join_many(obj.items)
                    if isinstance(base, SymV) or base is None:
                        v = SymV(self.fresh('item'), getattr(base, 'kind', 'elem'), choices=getattr(base, 'choices', None),
                                 tags=value_tags(obj), origin=('item', obj, l))
                    else:
                        v = base
                    memo[mk] = v
                return memo[mk]
        if isinstance(obj, DictV):
            return self.dict_get(obj, key, node, strict=True)
        if isinstance(obj, PyLit):
            return self.pylit_get(obj, key, node, strict=True)
        if isinstance(obj, (SymV, UnkV)):
            return SymV(self.fresh('item'), 'any', tags=value_tags(obj), origin=('item', obj, key))
        self.note_unknown(node, f'subscript of {obj!r}')
        return UnkV('subscript')

    def dict_get(self, d, key, node, strict=False, default=None):
        k = self.py_key(key)
        if k is not None:
            if k in d.items:
                return d.items[k]
            if d.default is not None:
                memo = d.memo.get(('k', k))
                if memo is None:
                    memo = d.default(self, key, node, strict)
                    d.memo[('k', k)] = memo
                return memo
            if not d.open and not d.sym_stores:
                if strict:
                    raise Raised(ExcV(KeyError, [key], node=node, stack=self.stack, op=f'missing key {k!r}',
                                      definite=True))
                return default if default is not None else ConstV(None)
        rk = self.resolve(key)
        if isinstance(rk, SymV) and not self.nofork and d.default is None and not d.open and not d.sym_stores and \
                0 < len(d.items) <= 8 and all(isinstance(x, (str, int)) for x in d.items):
            # a dispatch table indexed by a symbolic selector: one case per key, then the miss
            for kk_ in list(d.items):
                if self.equal(rk, self.from_py(kk_), node):
                    return d.items[kk_]
            if strict:
                raise Raised(ExcV(KeyError, [key], node=node, stack=self.stack, op=f'missing key {rk!r}', definite=True))
            return default if default is not None else ConstV(None)
        kk = self._seq_key(key) if isinstance(key, SeqV) else repr(key)
        if d.default is not None:
            mk = ('s', kk)
            if mk not in d.memo:
                d.memo[mk] = d.default(self, key, node, strict)
            return d.memo[mk]
        mk = ('s', kk)
        if mk not in d.memo:
            d.memo[mk] = SymV(self.fresh(f'{d.desc or "dict"}[{key!r}]'), 'any', tags=value_tags(d), origin=('item', d, key))
            if strict:
                self.may_raise(KeyError, node, f'dict lookup {key!r}', wire='wire' in value_tags(key))
        return d.memo[mk]

    def pylit_get(self, p, key, node, strict=False, default=None):
        k = self.py_key(key)
        val = p.value
        if isinstance(val, dict):
            if k is not None:
                if k in val:
                    return self.from_py_lit(val[k], f'{p.path}[{k!r}]', p.tags)
                if strict:
                    raise Raised(ExcV(KeyError, [key], node=node, stack=self.stack, op=f'missing config key {k!r}',
                                      definite=True))
                return default if default is not None else ConstV(None)
            hook = self.an.hooks.get('pylit_symbolic_key')
            if hook is not None:
                return hook(self, p, key, node, strict)
            self.event('pylit-symbolic-key', node, obj=p, key=key)
            if strict:
                self.may_raise(KeyError, node, f'config lookup {key!r}', wire='wire' in value_tags(key))
            return SymV(self.fresh(f'{p.path}[?]'), 'any', origin=('item', p, key), tags=p.tags)
        if isinstance(val, list):
            if isinstance(k, int) and -len(val) <= k < len(val):
                return self.from_py_lit(val[k], f'{p.path}[{k}]', p.tags)
        self.note_unknown(node, f'subscript of literal {p.path}')
        return UnkV('pylit item')

    def from_py_lit(self, x, path, tags=frozenset()):
        if isinstance(x, (dict, list)):
            return PyLit(x, path, tags)
        return self.from_py(x)

    # ---------------------------------------------------------------- comprehensions
    def ex_ListComp(self, node):
        return self._comprehension(node, node.elt, 'list')

    def ex_GeneratorExp(self, node):
        return self._comprehension(node, node.elt, 'gen')

    def ex_SetComp(self, node):
        return self._comprehension(node, node.elt, 'set')

    def ex_DictComp(self, node):
        return self._comprehension(node, ast.Tuple(elts=[node.key, node.value], ctx=ast.Load()), 'dict')

    def _const_range(self, e):
        """range(...) call with a constant step other than 1 (evaluated to a small list when its bounds are constants)"""
        return isinstance(e, ast.Call) and isinstance(e.func, ast.Name) and e.func.id == 'range' and len(e.args) == 3 and \
            not e.keywords

    def _comprehension_exact(self, node, elt, kind, items):
        """comprehension over a small concrete collection: one exact evaluation per item (like st_For)"""
        fr = self.frames[-1]
        gen = node.generators[0]
        saved = dict(fr.locals)
        out = []
        try:
            for x in items:
                self.assign(gen.target, x, node)
                if all(self.truth(self.eval(c)) for c in gen.ifs):
                    out.append(self.eval(elt))
        finally:
            names = {n.id for n in ast.walk(gen.target) if isinstance(n, ast.Name)}
            for n in names:
                if n in saved:
                    fr.locals[n] = saved[n]
                else:
                    fr.locals.pop(n, None)
        self.event('comprehension', node, ckind=kind, elem=self.join_many(out) if out else None, sources=[],
                   filtered=bool(gen.ifs), exact=True)
        if kind == 'dict':
            d = DictV(desc='dictcomp')
            for kv in out:
                k = self.py_key(kv.items[0])
                if k is None:
                    return None
                d.items[k] = kv.items[1]
            return d
        if kind == 'set':
            from .calls import make_set
            return make_set(self, ListV(items=out))
        return ListV(items=out)

    EAGER_CONSUMERS = {'list', 'tuple', 'set', 'frozenset', 'dict', 'sum', 'min', 'max', 'any', 'all', 'sorted', 'bytes', 'bytearray'}
    EAGER_METHODS = {'join', 'update', 'extend', 'writerows', 'write_many', 'writelines'}

    PURE_CALLS = {'len', 'int', 'str', 'format', 'ord', 'chr', 'bytes', 'hex', 'abs', 'min', 'max', 'repr', 'bool', 'tuple'}
    PURE_METHODS = {'startswith', 'endswith', 'upper', 'lower', 'zfill', 'rjust', 'ljust', 'decode', 'encode', 'get', 'strip',
                    'isdigit', 'isnumeric', 'isdecimal', 'format', 'join', 'hex', 'to_bytes', 'index', 'find', 'count'}

    def _pure_element(self, node):
        """the element and the filters of a generator expression only compute (no calls that could have effects): evaluating
        them when the expression is created or when it is consumed makes no difference"""
        parts = [node.elt] + [c for g in node.generators for c in g.ifs]
        for part in parts:
            for n in ast.walk(part):
                if isinstance(n, ast.Call):
                    f = n.func
                    if isinstance(f, ast.Name) and f.id in self.PURE_CALLS:
                        continue
                    if isinstance(f, ast.Attribute) and f.attr in self.PURE_METHODS:
                        continue
                    return False
                if isinstance(n, (ast.Yield, ast.YieldFrom, ast.Await, ast.NamedExpr)):
                    return False
        return True

    def regen_genexp(self, itv):
        """a generator expression with late-bound names, at the point where it is consumed: evaluated again with the bindings
        of now (what Python does), silently; the provisional `unknown` of its creation is withdrawn"""
        itv = self.resolve(itv)
        late = getattr(itv, 'late', None)
        if late is None:
            return itv
        gnode, fr, unk = late
        if fr not in self.frames or getattr(self, '_regenerating', 0) > 6:
            return itv
        idx = self.frames.index(fr)
        saved_frames = self.frames
        self.frames = saved_frames[:idx + 1]
        self._regenerating = getattr(self, '_regenerating', 0) + 1
        self._suppress_events = getattr(self, '_suppress_events', 0) + 1
        n_unk = len(self.unknowns)
        try:
            # its own source may be such an expression too (a pipeline): regenerate from the inside out
            new = self._comprehension(gnode, gnode.elt, 'gen')
        finally:
            self._suppress_events -= 1
            self._regenerating -= 1
            self.frames = saved_frames
        if isinstance(new, IterV) and len(self.unknowns) == n_unk:
            if unk in self.unknowns:
                self.unknowns.remove(unk)
            itv.late = None
            new.regenerated = True
            return new
        return itv

    def _late_bound_names(self, node):
        """local names read by the element / filters of a generator expression (not its own targets) that the enclosing
        function assigns again at a later position, or anywhere in a loop that encloses the expression"""
        fr = self.frames[-1]
        fnode = fr.fi.node if fr.fi is not None else None
        if fnode is None:
            return []
        own = {n.id for g in node.generators for n in ast.walk(g.target) if isinstance(n, ast.Name)}
        read = {n.id for part in [node.elt] + [c for g in node.generators for c in g.ifs] + [g.iter for g in node.generators[1:]]
                for n in ast.walk(part) if isinstance(n, ast.Name) and isinstance(n.ctx, ast.Load)} - own
        if not read:
            return []
        loops = []
        par = getattr(node, '_parent', None)
        while par is not None and par is not fnode:
            if isinstance(par, (ast.For, ast.While)):
                loops.append(par)
            par = getattr(par, '_parent', None)
        pos = (node.lineno, node.col_offset)
        out = set()
        for n in ast.walk(fnode):
            if isinstance(n, ast.Name) and isinstance(n.ctx, ast.Store) and n.id in read:
                inside_own = False
                q = n
                while q is not None and q is not fnode:
                    if q is node:
                        inside_own = True
                    q = getattr(q, '_parent', None)
                if inside_own:
                    continue
                later = (n.lineno, n.col_offset) > pos
                in_loop = any(any(x is n for x in ast.walk(lp)) for lp in loops)
                if later or in_loop:
                    out.add(n.id)
        return sorted(out)

    def _consumed_at_once(self, node):
        """a generator expression written directly as the argument of a call that iterates it to the end"""
        par = getattr(node, '_parent', None)
        if not (isinstance(par, ast.Call) and node in par.args):
            return False
        f = par.func
        return isinstance(f, ast.Name) and f.id in self.EAGER_CONSUMERS or isinstance(f, ast.Attribute) and f.attr in self.EAGER_METHODS

    def _comprehension(self, node, elt, kind):
        fr = self.frames[-1]
        first_iter = None
        if node.generators and not self.nofork:
            # the first iterable is evaluated (once) in the enclosing scope, as Python does
            first_iter = self.eval(node.generators[0].iter)
            g0 = self.resolve(first_iter)
            if isinstance(g0, DictV) and not isinstance(g0, PyLit) and not g0.open and not g0.sym_stores and g0.default is None \
                    and getattr(g0, 'comp', None) is None and (len(g0.items) <= 16 or getattr(g0, 'exact_ok', False)):
                # iterating a fully known dictionary: its keys
                keys_ = ListV(items=[self.from_py(k) for k in g0.items])
                keys_.exact_ok = bool(getattr(g0, 'exact_ok', False))
                g0 = first_iter = keys_
            if len(node.generators) == 1 and not node.generators[0].is_async and \
                    (kind != 'gen' or isinstance(node.generators[0].iter, (ast.Name, ast.Attribute, ast.Tuple, ast.List))
                     or self._const_range(node.generators[0].iter) or self._pure_element(node)):
                # a small concrete collection (a literal, the items of a fully known dictionary): one exact evaluation per item
                if isinstance(g0, (TupleV, ListV)) and g0.items is not None and (len(g0.items) <= 16 or getattr(g0, 'exact_ok', False)) \
                        and not getattr(g0, 'loop_open', False):
                    r = self._comprehension_exact(node, elt, kind, list(g0.items))
                    if r is not None:
                        if getattr(g0, 'exact_ok', False) and isinstance(r, (ListV, DictV)):
                            r.exact_ok = True      # still a collection of constants of the folded literal
                        return r
                src0 = getattr(g0, 'src', None)
                if isinstance(g0, IterV) and isinstance(src0, PyLit) and isinstance(src0.value, dict) and len(src0.value) <= 300 \
                        and getattr(g0, 'desc', None) in ('items', 'values') and kind != 'gen':
                    # a comprehension over the packaged configuration literal: constant folding, entry by entry
                    items = []
                    for key_, val_ in src0.value.items():
                        child = self.from_py_lit(val_, f'{src0.path}[{key_!r}]', src0.tags)
                        items.append(TupleV([self.from_py(key_), child]) if g0.desc == 'items' else child)
                    r = self._comprehension_exact(node, elt, kind, items)
                    if r is not None:
                        return r
            if isinstance(g0, GenCallV) and (kind != 'gen' or self._consumed_at_once(node)):
                first_iter = self.drain_generator(g0, node.generators[0].iter)
            elif isinstance(g0, GenCallV) and not g0.started and len(node.generators) == 1:
                # a lazy pipeline stage: nothing runs until somebody iterates it (a for statement of this function
                # iterates it as the loop it stands for, see st_For)
                r = IterV(SymV(self.fresh('lazy'), 'any'), src=g0, filtered=bool(node.generators[0].ifs), desc='genexp')
                r.lazy_genexp = (node, fr, g0)
                r.lazy_unforced = True
                self.event('comprehension', node, ckind=kind, elem=None, sources=[g0], filtered=r.filtered, lazy=True)
                return r
        saved_locals = dict(fr.locals)
        saved_store = self.store.copy()
        filtered = False
        length = None
        srcs = []
        self.nofork += 1
        try:
            for i, gen in enumerate(node.generators):
                itv = first_iter if i == 0 and first_iter is not None else self.eval(gen.iter)
                srcs.append(itv)
                elem, ln = self.iter_element(itv, gen.iter)
                if i == 0:
                    length = ln
                else:
                    length = None
                self.assign(gen.target, elem, node)
                for cond in gen.ifs:
                    filtered = True
                    cv = self.eval(cond)
                    t = self.truth(cv)
                    # evaluate the element under the assumption that the filter passed
                    self.event('comp-filter', cond, text=ast.unparse(cond), value=cv, comp=node)
            a0 = getattr(self, 'assumed', 0)
            ev = self.eval(elt)
            if getattr(self, 'assumed', 0) != a0:
                # the element value rests on a comparison that could not be decided generically
                def weaken(v):
                    if isinstance(v, ConstV) and isinstance(v.value, bool):
                        return SymV(self.fresh('flag'), 'bool')
                    if isinstance(v, TupleV):
                        return TupleV([weaken(x) for x in v.items])
                    return v
                ev = weaken(ev)
        finally:
            self.nofork -= 1
            fr.locals = saved_locals
            inner = self.store
            self.store = saved_store
            decl = inner.__dict__.get('decl', {})
            for s, b in inner.iv.items():
                if s not in self.store.iv:
                    lo, hi = decl.get(s, (None, None)) if filtered else (b[0], b[1])
                    self.store.declare(s, lo, hi, info=inner.info.get(s))
        pend, self.pending_raises = self.pending_raises, []
        if not self.nofork:
            seen = set()
            for exc_cls, n, op, wire in pend:
                if (exc_cls, id(n)) in seen:
                    continue
                seen.add((exc_cls, id(n)))
                self.may_raise(exc_cls, n, op, wire)
        else:
            self.pending_raises = pend
        self.event('comprehension', node, ckind=kind, elem=ev, sources=srcs, filtered=filtered)
        if kind == 'dict':
            d = DictV(open_=True, desc='dictcomp')
            d.comp = (ev, srcs, filtered)
            return d
        if kind == 'gen':
            late = self._late_bound_names(node) if not self._consumed_at_once(node) else []
            r = IterV(ev, src=srcs[0] if srcs else None, filtered=filtered, desc='genexp',
                      length=None if filtered else length)
            if late and not getattr(self, '_regenerating', 0):
                # the element was evaluated with today's bindings, the generator expression will read tomorrow's: unknown
                # until a consumer in a frame that still sees the defining frame re-evaluates it (regen_genexp)
                self.note_unknown(node, f'generator expression reads {", ".join(late)}, rebound before the expression may be '
                                        f'consumed (late binding)')
                r.late = (node, fr, self.unknowns[-1])
            g0 = self.resolve(first_iter) if first_iter is not None else None
            if isinstance(g0, GenCallV) and not g0.started:
                r.lazy_genexp = (node, fr, g0)
            return r
        lv = ListV(items=None, elem=ev, length=None if filtered else length, desc=f'{kind}comp')
        lv.src = srcs[0] if srcs else None
        lv.filtered = filtered
        if filtered or length is None:
            s = self.fresh('n')
            self.store.declare(s, 0, self.store.hi(length) if length is not None else None)
            lv.len = Lin.sym(s)
        if kind == 'set':
            from .calls import make_set
            return make_set(self, lv)
        return lv
