"""Control-flow signals of the abstract interpreter."""


class Raised(Exception):
    def __init__(self, exc):
        self.exc = exc


class Returned(Exception):
    def __init__(self, value):
        self.value = value


class BreakSig(Exception):
    pass


class ContinueSig(Exception):
    pass


class LoopBack(Exception):
    """A generic loop iteration reached its back edge (invariant mode): the path ends."""
    def __init__(self, node):
        self.node = node


class Abandon(Exception):
    """The path left the fragment the interpreter handles (bounds hit...)."""
    def __init__(self, reason):
        self.reason = reason




class ConsumerSignal(Exception):
    """A control signal raised by the body of a for-loop that consumes a generator (executed at the generator's yield):
    it must unwind the generator's frames without being handled by them."""
    def __init__(self, inner):
        self.inner = inner
