"""Operations on abstract sequences (str/bytes descriptors)."""
from __future__ import annotations

from .lin import Lin
from .avals import (SeqV, Lit, Sl, Num, Rep, Opq, IntV, ConstV, SymV, UnkV, Source, lit, AVal, value_tags)


def ndigits(v, base):
    if v == 0:
        return 1
    n = 0
    v = abs(v)
    while v:
        v //= base
        n += 1
    return n


def normalise(it, kind, segs, tags=frozenset()):
    out = []
    for s in segs:
        ln = it.store.canon(s.length())
        if ln.is_const() and ln.c == 0:
            continue
        if out:
            p = out[-1]
            if isinstance(p, Lit) and isinstance(s, Lit):
                out[-1] = Lit(p.data + s.data)
                continue
            if isinstance(p, Sl) and isinstance(s, Sl) and p.src is s.src and it.store.canon(p.hi) == it.store.canon(s.lo):
                out[-1] = Sl(p.src, p.lo, s.hi)
                continue
            if isinstance(p, Rep) and isinstance(s, Rep) and _same_unit(p.unit, s.unit):
                out[-1] = Rep(p.unit, p.count + s.count)
                continue
        out.append(s)
    return SeqV(kind, out, tags)


def _same_unit(a, b):
    if isinstance(a, (str, bytes)) and isinstance(b, (str, bytes)):
        return a == b
    return a is b


def concat(it, a, b):
    if a.kind != b.kind:
        return None
    return normalise(it, a.kind, a.segs + b.segs, a.tags | b.tags)


def whole(src):
    return SeqV(src.kind, (Sl(src, 0, src.length),))


def new_source(it, name, kind, lo=0, hi=None, tags=frozenset(), charset=None):
    """Fresh underlying sequence with symbolic length."""
    sym = it.fresh(f'len({name})')
    it.store.declare(sym, lo, hi, info=f'length of {name}')
    src = Source(name, kind, Lin.sym(sym), tags, charset)
    return src


def opaque(it, kind, length, desc, deps=(), tags=frozenset()):
    length = Lin.of(length)
    return normalise(it, kind, (Opq(length, desc, deps),), tags)


def opaque_fresh(it, kind, desc, lo=0, hi=None, deps=(), tags=frozenset()):
    sym = it.fresh(f'len<{desc}>')
    it.store.declare(sym, lo, hi, info=f'length of {desc}')
    return SeqV(kind, (Opq(Lin.sym(sym), desc, deps),), tags)


# ------------------------------------------------------------------ slicing
def _norm_bound(it, b, n, default):
    """Python slice bound normalisation to [0, n] (forks on sign / clamp)."""
    if b is None:
        return default
    b = Lin.of(b)
    if it.decide_ge0(b):
        # min(b, n)
        if it.decide_ge0(n - b):
            return b
        return n
    # negative: max(n + b, 0)
    if it.decide_ge0(n + b):
        return n + b
    return Lin.const(0)


def slice_seq(it, seq, lo, hi):
    """seq[lo:hi] with python semantics; lo/hi: Lin | None."""
    n = seq.length()
    a = _norm_bound(it, lo, n, Lin.const(0))
    b = _norm_bound(it, hi, n, n)
    if it.store.prove_ge0(a - b):           # a >= b : empty
        return SeqV(seq.kind, (), seq.all_tags())
    if not it.store.prove_ge0(b - a):
        if not it.decide_ge0(b - a - 1):
            return SeqV(seq.kind, (), seq.all_tags())
    return sub_seq(it, seq, a, b)


def sub_seq(it, seq, a, b):
    """positions 0 <= a <= b <= len; returns descriptor of seq[a:b] (pieces may be provably-possibly empty)."""
    out = []
    off = Lin.const(0)
    st = it.store
    nseg = len(seq.segs)
    for i, s in enumerate(seq.segs):
        ln = s.length()
        end = off + ln
        last = i == nseg - 1
        # skip segments entirely before the slice
        if st.prove_ge0(a - end) and not st.prove_ge0(end - a):
            off = end
            continue
        if not st.prove_ge0(end - a):
            if it.decide_ge0(a - end):
                off = end
                continue
        # stop at segments entirely after the slice
        if st.prove_ge0(off - b) and i > 0:
            break
        if not st.prove_ge0(b - off):
            if it.decide_ge0(off - b):
                break
        # start within seg
        if st.prove_ge0(a - off):
            s_lo = a - off
        elif st.prove_ge0(off - a):
            s_lo = Lin.const(0)
        elif it.decide_ge0(a - off):
            s_lo = a - off
        else:
            s_lo = Lin.const(0)
        if st.prove_ge0(end - b):
            s_hi = b - off
        elif st.prove_ge0(b - end):
            s_hi = ln
        elif it.decide_ge0(end - b):
            s_hi = b - off
        else:
            s_hi = ln
        out.append(_sub_seg(it, s, s_lo, s_hi, seq.kind))
        off = end
    return normalise(it, seq.kind, out, seq.all_tags())


def _sub_seg(it, s, lo, hi, kind):
    ln = s.length()
    c = it.store.canon
    if c(lo) == Lin.const(0) and c(hi) == c(ln):
        return s
    if isinstance(s, Lit):
        clo, chi = c(lo), c(hi)
        if clo.is_const() and chi.is_const():
            return Lit(s.data[clo.c:chi.c])
        if len(set(s.data)) == 1:
            return Rep(s.data[:1], hi - lo)
        return Opq(hi - lo, ('slice-of-lit', s.data, lo, hi))
    if isinstance(s, Sl):
        return Sl(s.src, s.lo + lo, s.lo + hi)
    if isinstance(s, Rep):
        return Rep(s.unit, hi - lo)
    if isinstance(s, Num):
        return Opq(hi - lo, ('numpart', s, lo, hi))
    if isinstance(s, Opq):
        return Opq(hi - lo, ('slice', s.desc, lo, hi), s.deps)
    return Opq(hi - lo, 'slice')


def index_seq(it, seq, idx, node=None):
    """seq[idx] for an integer index.  May raise IndexError (through it.may_raise)."""
    n = seq.length()
    idx = Lin.of(idx)
    if it.decide_ge0(idx):
        pos = idx
    else:
        pos = n + idx
    ok_hi = it.store.prove_ge0(n - pos - 1)
    ok_lo = it.store.prove_ge0(pos)
    if not (ok_hi and ok_lo):
        it.may_raise(IndexError, node, f'index {idx} of sequence of length {n}',
                     wire=bool('wire' in value_tags(seq)), cond=None)
        it.assume_ge0(n - pos - 1)
        it.assume_ge0(pos)
    if seq.kind == 'bytes':
        sub = sub_seq(it, seq, pos, pos + 1)
        if sub.is_lit():
            return IntV(sub.lit_value()[0])
        sym = it.fresh('byte')
        it.store.declare(sym, 0, 255)
        return IntV(Lin.sym(sym), tags=value_tags(seq))
    return sub_seq(it, seq, pos, pos + 1)


# ------------------------------------------------------------------ numerals
def numeral(it, val, base=10, minw=0, fill='0', upper=False, kind='str', vdesc=None, vrange=None):
    """Descriptor of the base-`base` rendering of integer `val` (Lin or None)."""
    if val is not None:
        val = it.store.canon(val)
        if val.is_const():
            v = val.c
            digits = _render(abs(v), base, upper)
            txt = ('-' if v < 0 else '') + digits
            if len(txt) < minw:
                if fill == '0' and v < 0:
                    txt = '-' + digits.rjust(minw - 1, '0')
                else:
                    txt = txt.rjust(minw, fill)
            return lit(txt if kind == 'str' else txt.encode('latin_1'))
        lo, hi = it.store.bounds(val)
    else:
        lo, hi = vrange if vrange else (None, None)
    # width interval
    if lo is not None and lo >= 0:
        wlo = max(minw, ndigits(lo, base))
        whi = max(minw, ndigits(hi, base)) if hi is not None else None
    else:
        wlo = max(minw, 1)
        cands = []
        if hi is not None and lo is not None:
            cands = [ndigits(hi, base) if hi >= 0 else ndigits(hi, base) + 1, ndigits(lo, base) + 1]
            whi = max(minw, max(cands))
        else:
            whi = None
    if whi is not None and wlo == whi:
        width = Lin.const(wlo)
    else:
        sym = it.fresh('w')
        it.store.declare(sym, wlo, whi, info=f'width of numeral of {val if val is not None else vdesc}')
        if val is not None:
            it.store.__dict__.setdefault('width_of', {})[sym] = (val, base, minw)
        width = Lin.sym(sym)
    return SeqV(kind, (Num(val, base, minw, fill, width, upper, vdesc, (lo, hi)),))


def _render(v, base, upper=False):
    if base == 10:
        return str(v)
    if base == 16:
        return format(v, 'X' if upper else 'x')
    if base == 2:
        return format(v, 'b')
    if base == 8:
        return format(v, 'o')
    raise ValueError(base)


def pad(it, seq, width, align, fill):
    """Pad seq to `width` (Lin) with fill char; align in '<', '>', '^'."""
    width = Lin.of(width)
    n = seq.length()
    if it.decide_ge0(n - width):
        return seq
    gap = width - n
    unit = fill if seq.kind == 'str' else fill.encode('latin_1')
    if align == '<':
        return normalise(it, seq.kind, seq.segs + (Rep(unit, gap),), seq.tags)
    if align == '>':
        return normalise(it, seq.kind, (Rep(unit, gap),) + seq.segs, seq.tags)
    return opaque(it, seq.kind, width, ('center', seq), tags=seq.tags)


def parse_spec(spec):
    """Parse a format spec -> dict or None."""
    import re
    m = re.fullmatch(r'(?:(?P<fill>.)?(?P<align>[<>=^]))?(?P<sign>[-+ ])?(?P<z>z)?(?P<alt>#)?(?P<zero>0)?'
                     r'(?P<width>\d+)?(?P<grp>[_,])?(?:\.(?P<prec>\d+))?(?P<type>[bcdeEfFgGnosxX%])?', spec)
    if not m:
        return None
    d = m.groupdict()
    d['width'] = int(d['width']) if d['width'] else 0
    d['prec'] = int(d['prec']) if d['prec'] is not None else None
    return d


def format_value(it, val, spec, node=None):
    """format(val, spec) with a concrete spec string."""
    d = parse_spec(spec)
    if d is None:
        it.note_unknown(node, f'format spec {spec!r}')
        return opaque_fresh(it, 'str', f'format({val!r},{spec!r})')
    width = d['width']
    if isinstance(val, IntV):
        t = d['type'] or 'd'
        base = {'d': 10, 'n': 10, 'x': 16, 'X': 16, 'b': 2, 'o': 8}.get(t)
        if base is None or d['sign'] or d['alt'] or d['grp'] or d['prec'] is not None:
            it.note_unknown(node, f'int format spec {spec!r}')
            return opaque_fresh(it, 'str', f'format(int,{spec!r})', lo=max(1, width))
        fill = d['fill']
        align = d['align']
        if d['zero'] and not align:
            fill, align = '0', '='
        if align in (None, '>', '='):
            return numeral(it, val.lin, base, width, fill or ' ', upper=(t == 'X')).with_tags(val.tags)
        num = numeral(it, val.lin, base, 0, '0', upper=(t == 'X'))
        return pad(it, num, Lin.const(width), align, fill or ' ').with_tags(val.tags)
    if isinstance(val, SeqV) and val.kind == 'str':
        if d['type'] not in (None, 's') or d['sign'] or d['alt'] or d['grp']:
            it.note_unknown(node, f'str format spec {spec!r}')
            return opaque_fresh(it, 'str', f'format(str,{spec!r})', lo=width)
        out = val
        if d['prec'] is not None:
            out = slice_seq(it, out, Lin.const(0), Lin.const(d['prec']))
        fill = d['fill']
        align = d['align']
        if d['zero'] and not align:
            fill, align = '0', '<'     # zero flag on str pads with 0 on the right
        if width:
            out = pad(it, out, Lin.const(width), align or '<', fill or ' ')
        return out
    if isinstance(val, ConstV) and isinstance(val.value, bool) or isinstance(val, ConstV) and val.value is None:
        if spec == '':
            return lit(str(val.value))
    # decimal / datetime / unknown objects
    desc = f'format({val!r},{spec!r})'
    it.event('format-obj', node, value=val, spec_type=d['type'], zero=bool(d['zero']))
    return opaque_fresh(it, 'str', desc, lo=width, deps=(val,), tags=value_tags(val))


def to_str(it, val, node=None):
    """str(val)"""
    if isinstance(val, SeqV):
        if val.kind == 'str':
            return val
        return opaque_fresh(it, 'str', 'str(bytes)', lo=3, deps=(val,), tags=value_tags(val))
    if isinstance(val, IntV):
        return numeral(it, val.lin, 10, 0, '0').with_tags(val.tags)
    if isinstance(val, ConstV):
        return lit(str(val.value))
    return opaque_fresh(it, 'str', f'str({val!r})', deps=(val,), tags=value_tags(val))


def seq_eq_structural(it, a, b):
    """True if the descriptors denote the same sequence under the path constraints (segment-wise), else None."""
    if a.kind != b.kind or len(a.segs) != len(b.segs):
        return None

    def eq(x, y):
        return it.store.decide_eq0(Lin.of(x) - Lin.of(y)) is True
    for x, y in zip(a.segs, b.segs):
        if type(x) is not type(y):
            return None
        if isinstance(x, Lit):
            if x.data != y.data:
                return None
        elif isinstance(x, Sl):
            if x.src is not y.src or not eq(x.lo, y.lo) or not eq(x.hi, y.hi):
                return None
        elif isinstance(x, Rep):
            if not _same_unit(x.unit, y.unit) or not eq(x.count, y.count):
                return None
        elif isinstance(x, Num):
            if x is not y and not (x.val is not None and y.val is not None and eq(x.val, y.val)
                                   and x.base == y.base and x.minw == y.minw and x.fill == y.fill):
                return None
        elif isinstance(x, Opq):
            if x is not y:
                return None
        else:
            return None
    return True


def split_spec(it, spec):
    """spec: SeqV str of the shape  <literal flags><numeral width><literal type>  ->  (prefix, width Lin, suffix) | None"""
    if not isinstance(spec, SeqV) or spec.kind != 'str':
        return None
    pre, width, suf = '', None, ''
    for g in spec.segs:
        if isinstance(g, Lit):
            if width is None:
                pre += g.data
            else:
                suf += g.data
        elif isinstance(g, Num) and width is None and g.base == 10 and g.minw <= 1 and g.val is not None:
            width = g.val
        else:
            return None
    if width is None:
        return None
    if any(ch.isdigit() and ch != '0' for ch in pre) or any(ch.isdigit() for ch in suf):
        return None
    return pre, width, suf


def format_value_symw(it, val, pre, width, suf, node=None):
    """format(val, pre + str(width) + suf) with a symbolic non-negative width."""
    d = parse_spec(pre + suf)
    if d is None or d['width'] or not it.store.prove_ge0(width):
        it.note_unknown(node, f'format spec {pre!r}+width+{suf!r}')
        return opaque_fresh(it, 'str', 'format(symbolic width)', deps=(val,), tags=value_tags(val))
    if isinstance(val, IntV):
        t = d['type'] or 'd'
        base = {'d': 10, 'x': 16, 'X': 16, 'b': 2, 'o': 8}.get(t)
        fill, align = d['fill'], d['align']
        if d['zero'] and not align:
            fill, align = '0', '='
        if base is None or d['sign'] or d['alt'] or d['grp'] or d['prec'] is not None or align not in (None, '>', '='):
            it.note_unknown(node, 'int format with symbolic width')
            return opaque_fresh(it, 'str', 'format(int, symbolic width)', deps=(val,))
        num = numeral(it, val.lin, base, 0, '0', upper=(t == 'X'))
        out = pad(it, num, width, '>', fill or ' ')
        out.numeric = (val, base, fill or ' ')
        return out.with_tags(val.tags)
    if isinstance(val, SeqV) and val.kind == 'str':
        if d['type'] not in (None, 's') or d['sign'] or d['alt'] or d['grp']:
            it.note_unknown(node, 'str format with symbolic width')
            return opaque_fresh(it, 'str', 'format(str, symbolic width)', deps=(val,))
        out = val
        if d['prec'] is not None:
            out = slice_seq(it, out, Lin.const(0), Lin.const(d['prec']))
        fill, align = d['fill'], d['align']
        if d['zero'] and not align:
            fill, align = '0', '<'
        return pad(it, out, width, align or '<', fill or ' ')
    # decimal / datetime / opaque objects: at least `width` characters
    it.event('format-obj', node, value=val, spec_type=d['type'], zero=bool(d['zero']))
    sym = it.fresh('len<format>')
    it.store.declare(sym, 0, None)
    it.store.assume_ge0(Lin.sym(sym) - width)
    return SeqV('str', (Opq(Lin.sym(sym), f'format({val!r},{pre}w{suf})', (val,)),), value_tags(val))
