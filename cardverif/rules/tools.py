"""Shared machinery for the command-line tool wiring checks (C19, C20)."""
from __future__ import annotations

from ..avals import *   # noqa
from ..decide import Runs, definite, soft, benign_unknown

IO_CLASSES = ('mciipm.IpmReader', 'mciipm.IpmWriter', 'mciipm.VbsReader', 'mciipm.VbsWriter', 'mciipm.IpmParamReader')


def io_summaries(prog):
    """Summaries that record how readers / writers are constructed and used instead of running them."""
    summ = {}

    def init_for(cq):
        ci = prog.cls(cq)
        ifi = ci.lookup('__init__')[1]

        def s(it, fi, args, kwargs, node, self_obj):
            names = [a.arg for a in fi.node.args.args][1:]
            b = dict(zip(names, args))
            b.update({k: v for k, v in kwargs.items() if k != '**'})
            if '**' in kwargs:
                b['**'] = kwargs['**']
            self_obj.fields['_ctor'] = b
            it.user.setdefault('io', []).append((ci.name, self_obj, b))
            return ConstV(None)
        return ifi.short, s
    seen = set()
    for cq in IO_CLASSES:
        k, s = init_for(cq)
        if k not in seen:
            summ[k] = s
            seen.add(k)

    def write_many(it, fi, args, kwargs, node, self_obj):
        arg = it.resolve(args[0]) if args else None
        if isinstance(arg, GenCallV):
            # a pipeline written as a generator function: summarised like the equivalent generator expression
            arg = it.generator_as_iter(arg, node) or arg
        if getattr(arg, 'late', None) is not None:
            arg = it.regen_genexp(arg)        # consumed here: its late-bound names have the values of now
        it.user.setdefault('write_many', []).append((self_obj, arg))
        return ConstV(None)

    def write(it, fi, args, kwargs, node, self_obj):
        it.user.setdefault('writes', []).append((self_obj, args[0] if args else None))
        return ConstV(None)

    def close(it, fi, args, kwargs, node, self_obj):
        it.user.setdefault('closed', []).append(self_obj)
        return ConstV(None)
    for cq in ('mciipm.VbsWriter', 'mciipm.IpmWriter'):
        ci = prog.cls(cq)
        for name, fn in (('write_many', write_many), ('write', write), ('close', close)):
            r = ci.lookup(name)
            if r and r[0] == 'method':
                summ[r[1].short] = fn
    return summ


MUTATORS = ('update', 'pop', 'popitem', 'clear', 'setdefault', '__setitem__', '__delitem__')


def records_flow(p, arg, ro, what='the records of the reader are not all handed to the writer'):
    """write_many(arg): `arg` is the reader `ro` itself, or any number of unfiltered one-to-one stages over it (generator
    expressions, pass-through generator functions, enumerate) whose element is the very record taken from the reader, and no
    stage alters that record on its way -> list of failures"""
    it = p.interp
    arg = it.resolve(arg)
    if arg is ro:
        return []
    stage, chain = arg, []
    for _ in range(8):
        if not isinstance(stage, IterV):
            return [soft(f'{what}: write_many is given {arg!r}, which could not be followed back to the reader')]
        if stage.filtered:
            return [definite(f'{what}: a stage between the reader and the writer drops records ({stage!r})')]
        chain.append(stage)
        stage = it.resolve(stage.src) if stage.src is not None else None
        if stage is ro:
            break
    else:
        return [soft(f'{what}: write_many is given {arg!r}, which could not be followed back to the reader')]

    def elems(v, depth=0):
        v = it.resolve(v)
        if isinstance(v, SymV) and v.kind == 'elem':
            return [v]
        if isinstance(v, TupleV) and depth < 3:
            return [x for i in v.items for x in elems(i, depth + 1)]
        return []
    base = elems(chain[-1].elem)
    final = it.resolve(arg.elem)
    if not any(final is b for b in base):
        return [soft(f'the record written is {final!r}, which could not be identified with the record taken from the reader')]
    for e in p.events:
        if e.kind in ('setitem', 'delitem') and any(it.resolve(e.data['obj']) is b for b in base):
            return [definite(f'a stage between the reader and the writer alters the record it passes on '
                             f'({"del " if e.kind == "delitem" else ""}record[{e.data["key"]!r}]'
                             f'{" = ..." if e.kind == "setitem" else ""}): the record written is not the record read', e.node, firm=True)]
        if e.kind == 'method' and e.data['name'] in MUTATORS and any(it.resolve(e.data['recv']) is b for b in base):
            return [definite(f'a stage between the reader and the writer alters the record it passes on (record.{e.data["name"]}(...)): '
                             f'the record written is not the record read', e.node, firm=True)]
    return []


def truthy(it, name, kind='any', choices=None):
    v = SymV(name, kind, choices)
    it.binds[('truth', name)] = True
    return v


def cli_glue_ob(prog, res, oid, mod, tool, in_param, out_param, in_mode, out_mode, passthrough=(), formats_switch=False,
                extra_kwargs=None, text_encoding=None):
    """The cli_run glue of a tool: the named files are opened with the right modes and handed to the tool function together
    with the options chosen on the command line; with formats_switch, --no1014blocking turns both formats into 'vbs'."""
    from ..report import func_where
    if not (prog.has_func(f'{mod}.cli_run') and prog.has_func(f'{mod}.{tool}')):
        return None
    cfi = prog.func(f'{mod}.cli_run')
    tfi = prog.func(f'{mod}.{tool}')

    def tool_summary(it, f, args, kwargs, node, self_obj):
        names = [a.arg for a in f.node.args.args]
        b = dict(zip(names, args))
        b.update({k: v for k, v in kwargs.items() if k != '**'})
        it.user.setdefault('tool_calls', []).append((b, kwargs.get('**')))
        return ConstV(None)

    def entry_c(it):
        nb = SymV('no1014blocking', 'bool')
        # both settings of the switch are explored whether or not the code tests it
        it.binds[('truth', 'no1014blocking')] = it.choose(2, '--no1014blocking given / not given') in (0, None)
        inn, outn = it.sym_str('in_filename', lo=1), it.sym_str('out_filename', lo=1)
        kw = {'in_filename': inn, 'out_filename': outn, 'no1014blocking': nb, 'debug': ConstV(False)}
        u = dict(nb=nb, inn=inn, outn=outn, opts={})
        for name in passthrough:
            u['opts'][name] = kw[name] = truthy(it, name)
        if formats_switch:
            u['inf'] = kw['in_format'] = SymV('in_format', 'str', choices=('vbs', '1014'))
            u['outf'] = kw['out_format'] = SymV('out_format', 'str', choices=('vbs', '1014'))
        for k, v in (extra_kwargs or {}).items():
            kw[k] = v(it)
        if text_encoding:
            # the encoding option of the text (csv) file: given on the command line, or left out (argparse hands over None)
            role, opt, _sink = text_encoding
            given = it.choose(2, f'--{opt.replace("_", "-")} given / not given') in (0, None)
            kw[opt] = truthy(it, opt) if given else ConstV(None)
            u['text_enc'] = (given, kw[opt])
        it.user.update(u)
        return it.call_function(cfi, [], kw)
    summ_c = {tfi.short: tool_summary}
    for helper in ('cli.print_banner', 'cli.get_config', f'{mod}.print_check_details'):
        if prog.has_func(helper):
            # prints / reads the configuration files: no part in what reaches the tool function
            def helper_summary(it, f, args, kwargs, node, self_obj, helper=helper):
                return DictV(open_=True, desc='get_config()') if helper.endswith('get_config') else ConstV(None)
            summ_c[prog.func(helper).short] = helper_summary
    if prog.has_func('mciipm.ipm_info'):
        summ_c[prog.func('mciipm.ipm_info').short] = lambda it, f, args, kwargs, node, self_obj: DictV(open_=True, desc='ipm_info()')
    runs_c = Runs(prog, entry_c, summaries=summ_c, res=res)

    def chk_c(p, mode):
        if p.outcome != 'return':
            return [definite(f'cli_run raises {p.value!r}')] if p.outcome == 'raise' else []
        it = p.interp
        u = it.user
        calls = u.get('tool_calls', [])
        if not calls:
            # a run that ends without converting (a pre-check refused the file, an early return): whether that is right is not
            # something this rule can tell; the paths that do convert are judged (and at least one must exist)
            return [soft(f'{tool} is not called on a path of cli_run that returns normally')]
        if len(calls) != 1:
            return [definite(f'{tool} is called {len(calls)} times by cli_run')]
        b, extra = calls[0]

        NOT_FOLLOWED = object()

        def arg(name):
            if name in b:
                return it.resolve(b[name])
            if isinstance(extra, DictV) and name in extra.items:
                return it.resolve(extra.items[name])
            if extra is not None and not (isinstance(extra, DictV) and not extra.open and not extra.sym_stores
                                          and getattr(extra, 'comp', None) is None and extra.default is None):
                return NOT_FOLLOWED      # options travel in a dictionary whose entries are not all known (a comprehension ...)
            return None
        fails = []
        for name in [in_param, out_param, 'no1014blocking', 'in_format', 'out_format'] + list(u['opts']):
            if arg(name) is NOT_FOLLOWED:
                return [soft(f'{name} reaches {tool} through a dictionary whose entries are not individually known')]
        opens = {e.data['file']: e for e in p.evs('open')}
        for role, name, fname, mode_ in (('input', in_param, u['inn'], in_mode), ('output', out_param, u['outn'], out_mode)):
            f = arg(name)
            e = opens.get(f)
            if e is None:
                fails.append(soft(f'the {role} file handed to {tool} is not a file opened by cli_run: {f!r}'))
                continue
            a = e.data['args']
            if not (a and it.resolve(a[0]) is fname):
                fails.append(definite(f'the {role} file is opened from {a[0] if a else None!r}, not from the {role} file name', e.node))
            if f.mode != mode_:
                fails.append(definite(f'the {role} file is opened with mode {f.mode!r}, not {mode_!r}', e.node))
            if text_encoding and text_encoding[0] == role:
                _r, opt, sink = text_encoding
                given, sym = u['text_enc']
                enc = e.data['kwargs'].get('encoding', a[3] if len(a) > 3 else None)
                if enc is None and '**' in e.data['kwargs']:
                    ex_ = it.resolve(e.data['kwargs']['**'])
                    enc = ex_.items.get('encoding') if isinstance(ex_, DictV) and not ex_.open else UnkV('**')
                enc = it.resolve(enc) if enc is not None else None
                if given:
                    if enc is not sym:
                        fails.append(definite(f'--{opt.replace("_", "-")} is given but the {role} text file is opened with encoding '
                                              f'{enc!r}, not with the value of that option', e.node, firm=isinstance(enc, SymV)))
                elif mode == 'inv':
                    k = None if enc is None or isinstance(enc, ConstV) and enc.value is None else it.py_key(enc)
                    if isinstance(k, str):
                        import codecs
                        try:
                            k = codecs.lookup(k).name        # 'latin_1', 'latin1', 'iso-8859-1' name one codec
                        except LookupError:
                            pass
                    sink.setdefault(mod, set()).add(k if (k is None or isinstance(k, str)) else '?')
        nb = it.binds.get(('truth', 'no1014blocking'))
        if formats_switch:
            for name, sym in (('in_format', u['inf']), ('out_format', u['outf'])):
                v = arg(name)
                if nb:
                    if not (isinstance(v, SeqV) and v.is_lit() and v.lit_value() == 'vbs'):
                        fails.append(definite(f'--no1014blocking is given but {name} reaches {tool} as {v!r}, not "vbs"'))
                elif v is not sym:
                    fails.append(definite(f'{name} reaches {tool} as {v!r}, not the value chosen on the command line'))
        elif arg('no1014blocking') is not u['nb']:
            fails.append(definite(f'no1014blocking reaches {tool} as {arg("no1014blocking")!r}, not the switch given on the command line'))
        for name, sym in u['opts'].items():
            if arg(name) is not sym:
                fails.append(definite(f'{name} reaches {tool} as {arg(name)!r}, not the value chosen on the command line'))
        return fails
    return runs_c.judge(oid, f'{mod}.cli_run: the named files are opened {in_mode!r} / {out_mode!r} and handed to {tool} with the options '
                             f'chosen on the command line' + ('; --no1014blocking makes both formats vbs' if formats_switch else ''),
                        func_where(cfi), f"with open(kwargs['in_filename'], {in_mode!r}) ...: {tool}(...)", chk_c,
                        rule=f'{oid}.cli.{tool}', unknown_ok=benign_unknown)


# the option strings of the tools' command lines as the rules know them (what an operator types; the dest an option lands under,
# its action and its default are read from the parser).  An option the rules do not know may change anything: the command
# lines that carry one are not judged.
KNOWN_FLAGS = {'--config-file', '--csvoutputfile', '--debug', '--expanded', '--in-encoding', '--in-format', '--no1014blocking',
               '--out-encoding', '--out-filename', '--out-format', '--output', '--verbose', '--version', '-d', '-o', '-v',
               '-s', '--sourceformat', '-h', '--help'}


def unknown_option_given(info):
    return sorted(f for f, r in (info or {}).items() if isinstance(r, dict) and f.startswith('-') and f not in KNOWN_FLAGS
                  and r.get('given') is not False)


def cli_argv_ob(prog, res, oid, mod, tool, in_param, out_param, in_mode, out_mode, passthrough=(), formats_switch=False,
                text_encoding=None):
    """The same question as cli_glue_ob, asked of the real command line: cli_entry is interpreted with the argparse
    definitions of the tool turned into the namespace parse_args() delivers, for every way of giving or leaving out each
    option (which dest an option lands under, its action, default, choices are read from the parser, not assumed).
    What the operator types is identified by the option strings."""
    from ..report import func_where
    if not all(prog.has_func(f'{mod}.{n}') for n in ('cli_entry', 'cli_run', tool)):
        return None
    efi = prog.func(f'{mod}.cli_entry')
    cfi = prog.func(f'{mod}.cli_run')
    tfi = prog.func(f'{mod}.{tool}')

    def tool_summary(it, f, args, kwargs, node, self_obj):
        names = [a.arg for a in f.node.args.args]
        b = dict(zip(names, args))
        b.update({k: v for k, v in kwargs.items() if k != '**'})
        it.user.setdefault('tool_calls', []).append((b, kwargs.get('**')))
        return ConstV(None)
    summ_c = {tfi.short: tool_summary}
    for helper in ('cli.print_banner', 'cli.get_config', f'{mod}.print_check_details'):
        if prog.has_func(helper):
            def helper_summary(it, f, args, kwargs, node, self_obj, helper=helper):
                return DictV(open_=True, desc='get_config()') if helper.endswith('get_config') else ConstV(None)
            summ_c[prog.func(helper).short] = helper_summary
    if prog.has_func('mciipm.ipm_info'):
        summ_c[prog.func('mciipm.ipm_info').short] = lambda it, f, args, kwargs, node, self_obj: DictV(open_=True, desc='ipm_info()')
    runs_c = Runs(prog, lambda it: it.call_function(efi, [], {}), summaries=summ_c, res=res, max_paths=4000)
    seen = {'n': 0}

    def flag_of(name):
        return '--' + name.replace('_', '-')

    def chk_c(p, mode):
        if p.outcome != 'return':
            return [definite(f'cli_entry raises {p.value!r}')] if p.outcome == 'raise' else []
        it = p.interp
        info = it.user.get('argv')
        if not info:
            return [soft('cli_entry does not build its arguments with an argparse parser the analysis could follow')]
        if unknown_option_given(info):
            return []
        calls = it.user.get('tool_calls', [])
        if not calls:
            # a run that ends without converting (a pre-check refused the file, an early return): whether that is right is not
            # something this rule can tell; the paths that do convert are judged (and at least one must exist)
            return [soft(f'{tool} is not called on a path of cli_entry that returns normally')]
        if len(calls) != 1:
            return [definite(f'{tool} is called {len(calls)} times by cli_entry')]
        b, extra = calls[0]
        seen['n'] += mode == 'inv'
        NOT_FOLLOWED = object()

        def arg(name):
            if name in b:
                return it.resolve(b[name])
            if isinstance(extra, DictV) and name in extra.items:
                return it.resolve(extra.items[name])
            if extra is not None and not (isinstance(extra, DictV) and not extra.open and not extra.sym_stores
                                          and getattr(extra, 'comp', None) is None and extra.default is None):
                return NOT_FOLLOWED
            return None

        def same(v, want):
            v, want = it.resolve(v) if v is not None else None, it.resolve(want)
            if v is want:
                return True
            if isinstance(v, ConstV) and isinstance(want, ConstV):
                return v.value == want.value
            return isinstance(v, SeqV) and isinstance(want, SeqV) and v.is_lit() and want.is_lit() and v.lit_value() == want.lit_value()
        fails = []
        positional = [r for f, r in info.items() if isinstance(r, dict) and not f.startswith('-')]
        if not positional:
            return [soft('the parser defines no positional argument for the input file')]
        in_rec = positional[0]
        out_rec = info.get('--out-filename') or info.get('-o')
        opens = {e.data['file']: e for e in p.evs('open')}
        for role, name, rec, mode_ in (('input', in_param, in_rec, in_mode), ('output', out_param, out_rec, out_mode)):
            f = arg(name)
            if f is NOT_FOLLOWED:
                return [soft(f'{name} reaches {tool} through a dictionary whose entries are not individually known')]
            e = opens.get(f)
            if e is None:
                fails.append(soft(f'the {role} file handed to {tool} is not a file opened by cli_run: {f!r}'))
                continue
            a = e.data['args']
            if rec is None:
                fails.append(soft(f'the parser defines no option for the {role} file name'))
            elif rec['given'] and not (a and it.resolve(a[0]) is it.resolve(rec['value'])):
                fails.append(definite(f'the {role} file is opened from {a[0] if a else None!r}, not from the name given on the command '
                                      f'line ({rec["flags"][-1]})', e.node, firm=True))
            if f.mode != mode_:
                fails.append(definite(f'the {role} file is opened with mode {f.mode!r}, not {mode_!r}', e.node))
            if role == 'output' and rec is not None and not rec['given'] and a:
                # the output name the tool derives may never be the input name (the input would be truncated before it is read)
                outn, inn = it.resolve(a[0]), it.resolve(in_rec['value'])
                if outn is inn:
                    fails.append(definite('without an output name the tool writes to the input file itself', e.node, firm=True))
                elif not (isinstance(outn, SeqV) and isinstance(inn, SeqV) and
                          p.store.decide_eq0(outn.length() - inn.length()) is False):
                    fails.append(soft(f'without an output name the tool writes to {outn!r}: not shown to differ from the input name '
                                      f'for every input name', e.node))
            if text_encoding and text_encoding[0] == role:
                _r, opt, sink = text_encoding
                orec = info.get(flag_of(opt))
                enc = e.data['kwargs'].get('encoding', a[3] if len(a) > 3 else None)
                if enc is None and '**' in e.data['kwargs']:
                    ex_ = it.resolve(e.data['kwargs']['**'])
                    enc = ex_.items.get('encoding') if isinstance(ex_, DictV) and not ex_.open else UnkV('**')
                enc = it.resolve(enc) if enc is not None else None
                if orec is None:
                    fails.append(soft(f'the parser defines no {flag_of(opt)}'))
                elif orec['given']:
                    if enc is not it.resolve(orec['value']):
                        fails.append(definite(f'{flag_of(opt)} is given on the command line but the {role} text file is opened with '
                                              f'encoding {enc!r}, not with its value', e.node, firm=True))
                elif mode == 'inv':
                    k = None if enc is None or isinstance(enc, ConstV) and enc.value is None else it.py_key(enc)
                    if isinstance(k, str):
                        import codecs
                        try:
                            k = codecs.lookup(k).name
                        except LookupError:
                            pass
                    sink.setdefault(mod, set()).add(k if (k is None or isinstance(k, str)) else '?')
        nrec = info.get('--no1014blocking')
        if nrec is None:
            return fails + [soft('the parser defines no --no1014blocking')]
        nb = bool(nrec['given'])
        if formats_switch:
            for name in ('in_format', 'out_format'):
                v = arg(name)
                frec = info.get(flag_of(name))
                if v is NOT_FOLLOWED:
                    return [soft(f'{name} reaches {tool} through a dictionary whose entries are not individually known')]
                if nb:
                    if not (isinstance(v, SeqV) and v.is_lit() and v.lit_value() == 'vbs'):
                        fails.append(definite(f'--no1014blocking is given on the command line but {name} reaches {tool} as {v!r}, '
                                              f'not "vbs"', firm=True))
                elif frec is None:
                    fails.append(soft(f'the parser defines no {flag_of(name)}'))
                elif frec['given'] and not same(v, frec['value']):
                    fails.append(definite(f'{flag_of(name)} is given on the command line but {name} reaches {tool} as {v!r}', firm=True))
        else:
            v = arg('no1014blocking')
            if v is NOT_FOLLOWED:
                return [soft(f'no1014blocking reaches {tool} through a dictionary whose entries are not individually known')]
            v = it.resolve(v) if v is not None else ConstV(None)
            if not isinstance(v, ConstV):
                fails.append(soft(f'no1014blocking reaches {tool} as {v!r}'))
            elif bool(v.value) != nb:
                fails.append(definite(f'--no1014blocking is {"given" if nb else "not given"} on the command line but {tool} receives '
                                      f'no1014blocking={v.value!r}', firm=True))
        for name in passthrough:
            orec = info.get(flag_of(name))
            v = arg(name)
            if v is NOT_FOLLOWED:
                return [soft(f'{name} reaches {tool} through a dictionary whose entries are not individually known')]
            if orec is None:
                fails.append(soft(f'the parser defines no {flag_of(name)}'))
            elif orec['given'] and not same(v, orec['value']):
                fails.append(definite(f'{flag_of(name)} is given on the command line but {name} reaches {tool} as {v!r}, not its value',
                                      firm=True))
        return fails
    from ..decide import require_instances
    return require_instances(
        runs_c.judge(oid, f'{mod}.cli_entry: what the operator gives on the command line (file names, encodings, formats, '
                          f'--no1014blocking), parsed by the tool\'s own argparse definitions, reaches {tool} unchanged',
                     func_where(efi), 'cli_run(**vars(cli_parser().parse_args()))', chk_c,
                     rule=f'{oid}.argv.{tool}', unknown_ok=benign_unknown),
        seen['n'], f'a call of {tool} reached from cli_entry')


def cli_argv_io_ob(prog, res, oid, mod, command=None, out_flags=(), label=None, ctor_expect=()):
    """mideu / paramconv through their real command line: cli_entry is interpreted with the namespace their own argparse
    definitions deliver and the reader / writer classes as recording summaries.  --no1014blocking given <=> every reader and
    writer is built unblocked; the input named on the command line is the file opened for reading; an output name given with
    one of `out_flags` is the file opened for writing."""
    from ..report import func_where
    from ..decide import require_instances
    if not prog.has_func(f'{mod}.cli_entry'):
        return None
    efi = prog.func(f'{mod}.cli_entry')
    summ = io_summaries(prog)
    for helper in ('cli.print_banner', 'cli.get_config'):
        if prog.has_func(helper):
            def helper_summary(it, f, args, kwargs, node, self_obj, helper=helper):
                return DictV(open_=True, desc='get_config()') if helper.endswith('get_config') else ConstV(None)
            summ[prog.func(helper).short] = helper_summary
    runs = Runs(prog, lambda it: it.call_function(efi, [], {}), summaries=summ, res=res, max_paths=4000)
    seen = {'n': 0}
    what = label or (f'{mod} {command}' if command else mod)

    def chk(p, mode):
        it = p.interp
        info = it.user.get('argv')
        if p.outcome not in ('return', 'loopback'):
            return []
        if not info:
            return [soft('cli_entry does not build its arguments with an argparse parser the analysis could follow')] \
                if p.outcome == 'return' else []
        if command is not None and info.get('command') != command:
            return []
        if unknown_option_given(info):
            return []
        ctors = [(n, o, b) for n, o, b in it.user.get('io', [])]
        if p.outcome == 'loopback' or not ctors:
            return []
        seen['n'] += mode == 'inv'
        fails = []
        nrec = info.get('--no1014blocking')
        if nrec is None:
            fails.append(soft('the parser defines no --no1014blocking'))
        else:
            given = bool(nrec['given'])
            for n, o, b in ctors:
                got = b.get('blocked')
                if got is None and isinstance(b.get('**'), DictV):
                    got = b['**'].items.get('blocked')
                got = it.resolve(got) if got is not None else ConstV(False)
                if not isinstance(got, ConstV):
                    fails.append(soft(f'{n} is built with blocked={got!r}'))
                elif bool(got.value) is given:
                    fails.append(definite(f'--no1014blocking is {"given" if given else "not given"} on the command line of {what} but '
                                          f'{n} is built with blocked={got.value!r}', firm=True))
        positional = [r for f, r in info.items() if isinstance(r, dict) and not f.startswith('-')]
        for what_, cls_name, param, kind in ctor_expect:
            rec = positional[what_] if isinstance(what_, int) and what_ < len(positional) else info.get(what_) if isinstance(what_, str) else None
            shown = what_ if isinstance(what_, str) else f'positional argument {what_ + 1}'
            if rec is None:
                fails.append(soft(f'the parser defines no {shown}'))
                continue
            for n, o, b in ctors:
                if n != cls_name:
                    continue
                got = b.get(param)
                if got is None and isinstance(b.get('**'), DictV):
                    got = b['**'].items.get(param)
                got = it.resolve(got) if got is not None else None
                if kind == 'bool':
                    if got is not None and not isinstance(got, ConstV):
                        fails.append(soft(f'{n} is built with {param}={got!r}'))
                    elif bool(got.value if got is not None else False) is not bool(rec['given']):
                        fails.append(definite(f'{shown} is {"given" if rec["given"] else "not given"} on the command line of {what} but {n} '
                                              f'is built with {param}={got.value if got is not None else None!r}', firm=True))
                elif rec['given'] and got is not it.resolve(rec['value']):
                    fails.append(definite(f'{shown} is given on the command line of {what} but {n} is built with {param}={got!r}, not its '
                                          f'value', firm=True))
        opens = list(p.evs('open'))

        def opened(value, modes):
            value = it.resolve(value)
            return any(e.data['args'] and it.resolve(e.data['args'][0]) is value and (e.data['file'].mode or 'r')[0] in modes
                       for e in opens)
        if positional and not opened(positional[0]['value'], 'r'):
            fails.append(definite(f'the input file named on the command line of {what} is not the file opened for reading', firm=True))
        for fl in out_flags:
            orec = info.get(fl)
            if orec is None:
                fails.append(soft(f'the parser defines no {fl}'))
            elif orec['given'] and not opened(orec['value'], 'wax'):
                fails.append(definite(f'{fl} is given on the command line of {what} but no file of that name is opened for writing: the '
                                      f'output goes somewhere else', firm=True))
        return fails
    chk.no_return_ok = True
    return require_instances(
        runs.judge(oid, f'{what}: --no1014blocking, the input name and the output name given on the command line, parsed by the '
                        f'tool\'s own argparse definitions, reach the readers, writers and open() calls',
                   func_where(efi), 'cli_run(**vars(<parser>.parse_args()))', chk,
                   rule=f'{oid}.argv.{what.replace(" ", ".").replace("cli.", "")}', unknown_ok=benign_unknown),
        seen['n'], f'a reader or writer built on a path from {mod}.cli_entry')


CLI_ERROR_TOOLS = (('cli.mci_ipm_to_csv', ('cli.mci_ipm_to_csv.mci_ipm_to_csv',), None),
                   ('cli.mideu', ('cli.mideu.extract', 'cli.mideu.convert'), 'func'),
                   ('cli.paramconv', ('cli.paramconv.mci_ipm_param_encode',), None))


def cli_error_runs(prog, res, mod, tools, func_key, deep=False, via_entry=False):
    """cli_run of a tool interpreted with the conversion function summarised as "returns, or raises the library data error":
    -> Runs whose paths record the raised error (user['raised']) and what was handed to print_exception_details (user['reported'])"""
    from ..signals import Raised
    cfi = prog.func(f'{mod}.cli_run')
    ecls = prog.cls('mciipm.MciIpmDataError')

    def tool_summary(it, f, args, kwargs, node, self_obj):
        it.user['tool_called'] = it.user.get('tool_called', 0) + 1
        if it.choose(2, 'conversion succeeds / raises the library data error') == 1:
            exc = it.instantiate_exc(ecls, [it.sym_str('message')], {'record_number': it.sym_int('k', 1, None),
                                                                   'binary_context_data': it.sym_bytes('record', lo=1)}, node)
            it.user['raised'] = exc
            raise Raised(exc)
        return ConstV(None)

    def report_summary(it, f, args, kwargs, node, self_obj):
        it.user.setdefault('reported', []).append(it.resolve(args[0]) if args else None)
        return ConstV(None)
    summ = {prog.func(t).short: tool_summary for t in tools if prog.has_func(t)}
    if prog.has_func('cli.print_exception_details') and not via_entry:
        summ[prog.func('cli.print_exception_details').short] = report_summary
    for helper in ('cli.print_banner', 'cli.get_config', f'{mod}.print_check_details'):
        if deep and helper.endswith('print_check_details'):
            continue           # what the handler does after the report is part of the question
        if prog.has_func(helper):
            def helper_summary(it, f, args, kwargs, node, self_obj, helper=helper):
                return DictV(open_=True, desc='get_config()') if helper.endswith('get_config') else ConstV(None)
            summ[prog.func(helper).short] = helper_summary
    if deep:
        # the file inspection is interpreted; its two table-driven helpers (decided by C17) are replaced by their return shapes
        def bm_summary(it, fi, args, kwargs, node, self_obj):
            if it.choose(2, 'bitmap ok') in (0, None):
                return TupleV([ConstV(True), ConstV(None)])
            return TupleV([ConstV(False), it.sym_str('bitmap_reason', lo=1)])
        for helper, sm in (('mciipm.bitmap_check', bm_summary),
                           ('mciipm.block_1014_check', lambda it, fi, args, kwargs, node, self_obj: SymV('is_blocked', 'bool'))):
            if prog.has_func(helper):
                summ[prog.func(helper).short] = sm
    if prog.has_func('mciipm.ipm_info') and not deep:
        summ[prog.func('mciipm.ipm_info').short] = lambda it, f, args, kwargs, node, self_obj: DictV(open_=True, desc='ipm_info()')

    def entry(it):
        kw = {'in_filename': it.sym_str('in_filename', lo=1), 'out_filename': it.sym_str('out_filename', lo=1),
              'input': it.sym_str('input', lo=1), 'output': it.sym_str('output', lo=1), 'debug': ConstV(False),
              'no1014blocking': SymV('no1014blocking', 'bool'), 'sourceformat': SymV('sourceformat', 'str', choices=('ebcdic', 'ascii')),
              'loglevel': ConstV(None), 'config_file': ConstV(None)}
        if func_key:
            fis = [prog.func(t) for t in tools if prog.has_func(t)]
            kw[func_key] = FuncV(fis[it.choose(len(fis), 'sub-command') or 0])
        return it.call_function(cfi, [], kw)
    if via_entry:
        # the real command line: cli_entry with the namespace the tool's own argparse definitions deliver; the report is interpreted
        efi = prog.func(f'{mod}.cli_entry')
        return Runs(prog, lambda it: it.call_function(efi, [], {}), summaries=summ, res=res, max_paths=4000), efi
    return Runs(prog, entry, summaries=summ, res=res, raise_ops=deep), cfi


def cli_error_obs(prog, res, which):
    """which='escape' (C07.b): the library data error raised by the conversion never leaves cli_run;
    which='report' (C10.d): whenever it is caught, that very error object was handed to print_exception_details."""
    from ..report import func_where, Ob, PROVED, REFUTED, UNDECIDED
    from ..units import exc_key
    out = []
    base = prog.cls('CardutilError')
    for mod, tools, func_key in CLI_ERROR_TOOLS:
        if not prog.has_func(f'{mod}.cli_run'):
            continue
        runs, cfi = cli_error_runs(prog, res, mod, tools, func_key)
        seen = {'raised': 0}

        def chk(p, mode, which=which):
            exc = p.interp.user.get('raised')
            if exc is None:
                return []
            seen['raised'] += mode == 'inv'
            if which == 'escape':
                if p.outcome == 'raise' and getattr(p.value, 'cls', None) is not None and not isinstance(p.value.cls, type) \
                        and (p.value.cls is base or p.value.cls.is_subclass_of(base)):
                    return [definite('the library data error raised by the conversion leaves cli_run: the operator gets a traceback '
                                     'instead of the report', getattr(p.value, 'raise_node', None), firm=True)]
                return []
            if p.outcome == 'return' and not any(r is exc for r in p.interp.user.get('reported', [])):
                return [definite('the library data error of the conversion is caught but not handed to print_exception_details: the '
                                 'operator never sees the record number', firm=True)]
            return []
        chk.no_return_ok = True
        if which == 'escape':
            ob = runs.judge('C07.b', f'{mod}.cli_run: the library data error of the conversion never leaves the tool entry point',
                            func_where(cfi), 'except MciIpmDataError', chk, rule=f'C07.b.{mod}', unknown_ok=benign_unknown)
        else:
            ob = runs.judge('C10.d', f'{mod}.cli_run: a library data error that is caught is reported through print_exception_details(err)',
                            func_where(cfi), 'except MciIpmDataError as err: print_exception_details(err)', chk, rule=f'C10.d.cli.{mod}',
                            unknown_ok=benign_unknown)
        if ob.verdict == PROVED and not seen['raised']:
            ob.verdict, ob.detail = UNDECIDED, 'the conversion function is not called by cli_run on any explored path: nothing was judged'
        out.append(ob)
        if which == 'report' and prog.has_func(f'{mod}.cli_entry'):
            # ... and through the real command line, with the report interpreted: the raw record of the error reaches the output
            from .vbs import same_seq
            runs_e, efi = cli_error_runs(prog, res, mod, tools, func_key, via_entry=True)
            seen_e = {'raised': 0}

            def chk_e(p, mode):
                exc = p.interp.user.get('raised')
                if exc is None or p.outcome != 'return' or unknown_option_given(p.interp.user.get('argv')):
                    return []
                seen_e['raised'] += mode == 'inv'
                ctx = exc.kwargs.get('binary_context_data') or exc.fields.get('binary_context_data')
                opaque = False
                for e in p.events:
                    if e.kind != 'ext-call':
                        continue
                    for a in list(e.data.get('args') or []) + list((e.data.get('kwargs') or {}).values()):
                        a = p.interp.resolve(a)
                        if isinstance(a, SeqV) and a.kind == 'bytes' and same_seq(p, a, ctx):
                            return []
                        if isinstance(a, (UnkV, BoundExt, IterV, GenCallV)) or isinstance(a, SymV) and a.kind in ('any', 'elem'):
                            opaque = True
                if opaque:
                    return [soft('what the tool hands to its output calls while reporting could not be followed')]
                given = {f: r['given'] for f, r in (p.interp.user.get('argv') or {}).items() if isinstance(r, dict) and f.startswith('--')}
                return [definite(f'the library data error is caught but the raw bytes of its record never reach the output of the tool '
                                 f'(options on this path: {", ".join(f for f, g in sorted(given.items()) if g) or "none"})', firm=True)]
            chk_e.no_return_ok = True
            obe = runs_e.judge('C10.d', f'{mod}.cli_entry: through the real command line (options as the tool\'s parser delivers them) the '
                                        f'report of a library data error shows the raw record', func_where(efi), 'print_exception_details(err) -> hexdump(err.binary_context_data)',
                               chk_e, rule=f'C10.d.argv.{mod}', unknown_ok=benign_unknown)
            if obe.verdict == PROVED and not seen_e['raised']:
                obe.verdict, obe.detail = UNDECIDED, 'the conversion function is not called from cli_entry on any explored path: nothing was judged'
            out.append(obe)
        if which == 'escape':
            # ... and nothing else leaves it while the error is being reported: the handler is interpreted with its own helpers
            # and the file inspection it consults (ipm_info), operations that can fail are allowed to fail
            runs_h, _ = cli_error_runs(prog, res, mod, tools, func_key, deep=True)
            seen_h = {'raised': 0}

            def chk_h(p, mode):
                if p.interp.user.get('raised') is None:
                    return []
                seen_h['raised'] += mode == 'inv'
                if p.outcome != 'raise' or p.value is p.interp.user['raised']:
                    return []
                exc = p.value
                what = f'{exc!r}' + (f' ({exc.op})' if getattr(exc, 'op', None) else '')
                msg = (f'while the library data error of the conversion is being reported, {what} leaves cli_run: the operator gets '
                       f'a traceback instead of the diagnostic')
                node = getattr(exc, 'raise_node', None) or getattr(exc, 'node', None)
                if getattr(exc, 'definite', False) or getattr(exc, 'op', None) is None:
                    return [definite(msg, node, firm=True)]
                return [soft(msg, node)]
            chk_h.no_return_ok = True
            obh = runs_h.judge('C07.b', f'{mod}.cli_run: no other exception leaves the tool entry point while the library data error '
                                        f'is reported', func_where(cfi), 'except MciIpmDataError: <report>; return -1', chk_h,
                               rule=f'C07.b.handler.{mod}', unknown_ok=benign_unknown)
            if obh.verdict == PROVED and not seen_h['raised']:
                obh.verdict, obh.detail = UNDECIDED, 'the conversion function is not called by cli_run on any explored path: nothing was judged'
            out.append(obh)
    return out
