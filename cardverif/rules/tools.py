"""Shared machinery for the command-line tool wiring checks (C19, C20)."""
from __future__ import annotations

from ..avals import *   # noqa
from ..decide import Runs

IO_CLASSES = ('mciipm.IpmReader', 'mciipm.IpmWriter', 'mciipm.VbsReader', 'mciipm.VbsWriter', 'mciipm.IpmParamReader')


def io_summaries(prog):
    """Summaries that record how readers / writers are constructed and used instead of running them."""
    summ = {}

    def init_for(cq):
        ci = prog.cls(cq)
        ifi = ci.lookup('__init__')[1]

        def s(it, fi, args, kwargs, node, self_obj):
            names = [a.arg for a in fi.node.args.args][1:]
            b = dict(zip(names, args))
            b.update({k: v for k, v in kwargs.items() if k != '**'})
            if '**' in kwargs:
                b['**'] = kwargs['**']
            self_obj.fields['_ctor'] = b
            it.user.setdefault('io', []).append((ci.name, self_obj, b))
            return ConstV(None)
        return ifi.short, s
    seen = set()
    for cq in IO_CLASSES:
        k, s = init_for(cq)
        if k not in seen:
            summ[k] = s
            seen.add(k)

    def write_many(it, fi, args, kwargs, node, self_obj):
        arg = it.resolve(args[0]) if args else None
        if isinstance(arg, GenCallV):
            # a pipeline written as a generator function: summarised like the equivalent generator expression
            arg = it.generator_as_iter(arg, node) or arg
        it.user.setdefault('write_many', []).append((self_obj, arg))
        return ConstV(None)

    def write(it, fi, args, kwargs, node, self_obj):
        it.user.setdefault('writes', []).append((self_obj, args[0] if args else None))
        return ConstV(None)

    def close(it, fi, args, kwargs, node, self_obj):
        it.user.setdefault('closed', []).append(self_obj)
        return ConstV(None)
    for cq in ('mciipm.VbsWriter', 'mciipm.IpmWriter'):
        ci = prog.cls(cq)
        for name, fn in (('write_many', write_many), ('write', write), ('close', close)):
            r = ci.lookup(name)
            if r and r[0] == 'method':
                summ[r[1].short] = fn
    return summ


def truthy(it, name, kind='any', choices=None):
    v = SymV(name, kind, choices)
    it.binds[('truth', name)] = True
    return v
