"""Shared machinery for the command-line tool wiring checks (C19, C20)."""
from __future__ import annotations

from ..avals import *   # noqa
from ..decide import Runs, definite, soft, benign_unknown

IO_CLASSES = ('mciipm.IpmReader', 'mciipm.IpmWriter', 'mciipm.VbsReader', 'mciipm.VbsWriter', 'mciipm.IpmParamReader')


def io_summaries(prog):
    """Summaries that record how readers / writers are constructed and used instead of running them."""
    summ = {}

    def init_for(cq):
        ci = prog.cls(cq)
        ifi = ci.lookup('__init__')[1]

        def s(it, fi, args, kwargs, node, self_obj):
            names = [a.arg for a in fi.node.args.args][1:]
            b = dict(zip(names, args))
            b.update({k: v for k, v in kwargs.items() if k != '**'})
            if '**' in kwargs:
                b['**'] = kwargs['**']
            self_obj.fields['_ctor'] = b
            it.user.setdefault('io', []).append((ci.name, self_obj, b))
            return ConstV(None)
        return ifi.short, s
    seen = set()
    for cq in IO_CLASSES:
        k, s = init_for(cq)
        if k not in seen:
            summ[k] = s
            seen.add(k)

    def write_many(it, fi, args, kwargs, node, self_obj):
        arg = it.resolve(args[0]) if args else None
        if isinstance(arg, GenCallV):
            # a pipeline written as a generator function: summarised like the equivalent generator expression
            arg = it.generator_as_iter(arg, node) or arg
        if getattr(arg, 'late', None) is not None:
            arg = it.regen_genexp(arg)        # consumed here: its late-bound names have the values of now
        it.user.setdefault('write_many', []).append((self_obj, arg))
        return ConstV(None)

    def write(it, fi, args, kwargs, node, self_obj):
        it.user.setdefault('writes', []).append((self_obj, args[0] if args else None))
        return ConstV(None)

    def close(it, fi, args, kwargs, node, self_obj):
        it.user.setdefault('closed', []).append(self_obj)
        return ConstV(None)
    for cq in ('mciipm.VbsWriter', 'mciipm.IpmWriter'):
        ci = prog.cls(cq)
        for name, fn in (('write_many', write_many), ('write', write), ('close', close)):
            r = ci.lookup(name)
            if r and r[0] == 'method':
                summ[r[1].short] = fn
    return summ


MUTATORS = ('update', 'pop', 'popitem', 'clear', 'setdefault', '__setitem__', '__delitem__')


def records_flow(p, arg, ro, what='the records of the reader are not all handed to the writer'):
    """write_many(arg): `arg` is the reader `ro` itself, or any number of unfiltered one-to-one stages over it (generator
    expressions, pass-through generator functions, enumerate) whose element is the very record taken from the reader, and no
    stage alters that record on its way -> list of failures"""
    it = p.interp
    arg = it.resolve(arg)
    if arg is ro:
        return []
    stage, chain = arg, []
    for _ in range(8):
        if not isinstance(stage, IterV):
            return [soft(f'{what}: write_many is given {arg!r}, which could not be followed back to the reader')]
        if stage.filtered:
            return [definite(f'{what}: a stage between the reader and the writer drops records ({stage!r})')]
        chain.append(stage)
        stage = it.resolve(stage.src) if stage.src is not None else None
        if stage is ro:
            break
    else:
        return [soft(f'{what}: write_many is given {arg!r}, which could not be followed back to the reader')]

    def elems(v, depth=0):
        v = it.resolve(v)
        if isinstance(v, SymV) and v.kind == 'elem':
            return [v]
        if isinstance(v, TupleV) and depth < 3:
            return [x for i in v.items for x in elems(i, depth + 1)]
        return []
    base = elems(chain[-1].elem)
    final = it.resolve(arg.elem)
    if not any(final is b for b in base):
        return [soft(f'the record written is {final!r}, which could not be identified with the record taken from the reader')]
    for e in p.events:
        if e.kind in ('setitem', 'delitem') and any(it.resolve(e.data['obj']) is b for b in base):
            return [definite(f'a stage between the reader and the writer alters the record it passes on '
                             f'({"del " if e.kind == "delitem" else ""}record[{e.data["key"]!r}]'
                             f'{" = ..." if e.kind == "setitem" else ""}): the record written is not the record read', e.node, firm=True)]
        if e.kind == 'method' and e.data['name'] in MUTATORS and any(it.resolve(e.data['recv']) is b for b in base):
            return [definite(f'a stage between the reader and the writer alters the record it passes on (record.{e.data["name"]}(...)): '
                             f'the record written is not the record read', e.node, firm=True)]
    return []


def truthy(it, name, kind='any', choices=None):
    v = SymV(name, kind, choices)
    it.binds[('truth', name)] = True
    return v


def cli_glue_ob(prog, res, oid, mod, tool, in_param, out_param, in_mode, out_mode, passthrough=(), formats_switch=False,
                extra_kwargs=None, text_encoding=None):
    """The cli_run glue of a tool: the named files are opened with the right modes and handed to the tool function together
    with the options chosen on the command line; with formats_switch, --no1014blocking turns both formats into 'vbs'."""
    from ..report import func_where
    if not (prog.has_func(f'{mod}.cli_run') and prog.has_func(f'{mod}.{tool}')):
        return None
    cfi = prog.func(f'{mod}.cli_run')
    tfi = prog.func(f'{mod}.{tool}')

    def tool_summary(it, f, args, kwargs, node, self_obj):
        names = [a.arg for a in f.node.args.args]
        b = dict(zip(names, args))
        b.update({k: v for k, v in kwargs.items() if k != '**'})
        it.user.setdefault('tool_calls', []).append((b, kwargs.get('**')))
        return ConstV(None)

    def entry_c(it):
        nb = SymV('no1014blocking', 'bool')
        # both settings of the switch are explored whether or not the code tests it
        it.binds[('truth', 'no1014blocking')] = it.choose(2, '--no1014blocking given / not given') in (0, None)
        inn, outn = it.sym_str('in_filename', lo=1), it.sym_str('out_filename', lo=1)
        kw = {'in_filename': inn, 'out_filename': outn, 'no1014blocking': nb, 'debug': ConstV(False)}
        u = dict(nb=nb, inn=inn, outn=outn, opts={})
        for name in passthrough:
            u['opts'][name] = kw[name] = truthy(it, name)
        if formats_switch:
            u['inf'] = kw['in_format'] = SymV('in_format', 'str', choices=('vbs', '1014'))
            u['outf'] = kw['out_format'] = SymV('out_format', 'str', choices=('vbs', '1014'))
        for k, v in (extra_kwargs or {}).items():
            kw[k] = v(it)
        if text_encoding:
            # the encoding option of the text (csv) file: given on the command line, or left out (argparse hands over None)
            role, opt, _sink = text_encoding
            given = it.choose(2, f'--{opt.replace("_", "-")} given / not given') in (0, None)
            kw[opt] = truthy(it, opt) if given else ConstV(None)
            u['text_enc'] = (given, kw[opt])
        it.user.update(u)
        return it.call_function(cfi, [], kw)
    summ_c = {tfi.short: tool_summary}
    for helper in ('cli.print_banner', 'cli.get_config', f'{mod}.print_check_details'):
        if prog.has_func(helper):
            # prints / reads the configuration files: no part in what reaches the tool function
            def helper_summary(it, f, args, kwargs, node, self_obj, helper=helper):
                return DictV(open_=True, desc='get_config()') if helper.endswith('get_config') else ConstV(None)
            summ_c[prog.func(helper).short] = helper_summary
    if prog.has_func('mciipm.ipm_info'):
        summ_c[prog.func('mciipm.ipm_info').short] = lambda it, f, args, kwargs, node, self_obj: DictV(open_=True, desc='ipm_info()')
    runs_c = Runs(prog, entry_c, summaries=summ_c, res=res)

    def chk_c(p, mode):
        if p.outcome != 'return':
            return [definite(f'cli_run raises {p.value!r}')] if p.outcome == 'raise' else []
        it = p.interp
        u = it.user
        calls = u.get('tool_calls', [])
        if len(calls) != 1:
            return [definite(f'{tool} is called {len(calls)} times by cli_run')]
        b, extra = calls[0]

        NOT_FOLLOWED = object()

        def arg(name):
            if name in b:
                return it.resolve(b[name])
            if isinstance(extra, DictV) and name in extra.items:
                return it.resolve(extra.items[name])
            if extra is not None and not (isinstance(extra, DictV) and not extra.open and not extra.sym_stores
                                          and getattr(extra, 'comp', None) is None and extra.default is None):
                return NOT_FOLLOWED      # options travel in a dictionary whose entries are not all known (a comprehension ...)
            return None
        fails = []
        for name in [in_param, out_param, 'no1014blocking', 'in_format', 'out_format'] + list(u['opts']):
            if arg(name) is NOT_FOLLOWED:
                return [soft(f'{name} reaches {tool} through a dictionary whose entries are not individually known')]
        opens = {e.data['file']: e for e in p.evs('open')}
        for role, name, fname, mode_ in (('input', in_param, u['inn'], in_mode), ('output', out_param, u['outn'], out_mode)):
            f = arg(name)
            e = opens.get(f)
            if e is None:
                fails.append(soft(f'the {role} file handed to {tool} is not a file opened by cli_run: {f!r}'))
                continue
            a = e.data['args']
            if not (a and it.resolve(a[0]) is fname):
                fails.append(definite(f'the {role} file is opened from {a[0] if a else None!r}, not from the {role} file name', e.node))
            if f.mode != mode_:
                fails.append(definite(f'the {role} file is opened with mode {f.mode!r}, not {mode_!r}', e.node))
            if text_encoding and text_encoding[0] == role:
                _r, opt, sink = text_encoding
                given, sym = u['text_enc']
                enc = e.data['kwargs'].get('encoding', a[3] if len(a) > 3 else None)
                if enc is None and '**' in e.data['kwargs']:
                    ex_ = it.resolve(e.data['kwargs']['**'])
                    enc = ex_.items.get('encoding') if isinstance(ex_, DictV) and not ex_.open else UnkV('**')
                enc = it.resolve(enc) if enc is not None else None
                if given:
                    if enc is not sym:
                        fails.append(definite(f'--{opt.replace("_", "-")} is given but the {role} text file is opened with encoding '
                                              f'{enc!r}, not with the value of that option', e.node, firm=isinstance(enc, SymV)))
                elif mode == 'inv':
                    k = None if enc is None or isinstance(enc, ConstV) and enc.value is None else it.py_key(enc)
                    if isinstance(k, str):
                        import codecs
                        try:
                            k = codecs.lookup(k).name        # 'latin_1', 'latin1', 'iso-8859-1' name one codec
                        except LookupError:
                            pass
                    sink.setdefault(mod, set()).add(k if (k is None or isinstance(k, str)) else '?')
        nb = it.binds.get(('truth', 'no1014blocking'))
        if formats_switch:
            for name, sym in (('in_format', u['inf']), ('out_format', u['outf'])):
                v = arg(name)
                if nb:
                    if not (isinstance(v, SeqV) and v.is_lit() and v.lit_value() == 'vbs'):
                        fails.append(definite(f'--no1014blocking is given but {name} reaches {tool} as {v!r}, not "vbs"'))
                elif v is not sym:
                    fails.append(definite(f'{name} reaches {tool} as {v!r}, not the value chosen on the command line'))
        elif arg('no1014blocking') is not u['nb']:
            fails.append(definite(f'no1014blocking reaches {tool} as {arg("no1014blocking")!r}, not the switch given on the command line'))
        for name, sym in u['opts'].items():
            if arg(name) is not sym:
                fails.append(definite(f'{name} reaches {tool} as {arg(name)!r}, not the value chosen on the command line'))
        return fails
    return runs_c.judge(oid, f'{mod}.cli_run: the named files are opened {in_mode!r} / {out_mode!r} and handed to {tool} with the options '
                             f'chosen on the command line' + ('; --no1014blocking makes both formats vbs' if formats_switch else ''),
                        func_where(cfi), f"with open(kwargs['in_filename'], {in_mode!r}) ...: {tool}(...)", chk_c,
                        rule=f'{oid}.cli.{tool}', unknown_ok=benign_unknown)


CLI_ERROR_TOOLS = (('cli.mci_ipm_to_csv', ('cli.mci_ipm_to_csv.mci_ipm_to_csv',), None),
                   ('cli.mideu', ('cli.mideu.extract', 'cli.mideu.convert'), 'func'),
                   ('cli.paramconv', ('cli.paramconv.mci_ipm_param_encode',), None))


def cli_error_runs(prog, res, mod, tools, func_key, deep=False):
    """cli_run of a tool interpreted with the conversion function summarised as "returns, or raises the library data error":
    -> Runs whose paths record the raised error (user['raised']) and what was handed to print_exception_details (user['reported'])"""
    from ..signals import Raised
    cfi = prog.func(f'{mod}.cli_run')
    ecls = prog.cls('mciipm.MciIpmDataError')

    def tool_summary(it, f, args, kwargs, node, self_obj):
        it.user['tool_called'] = it.user.get('tool_called', 0) + 1
        if it.choose(2, 'conversion succeeds / raises the library data error') == 1:
            exc = it.instantiate_exc(ecls, [it.sym_str('message')], {'record_number': it.sym_int('k', 1, None),
                                                                   'binary_context_data': it.sym_bytes('record', lo=1)}, node)
            it.user['raised'] = exc
            raise Raised(exc)
        return ConstV(None)

    def report_summary(it, f, args, kwargs, node, self_obj):
        it.user.setdefault('reported', []).append(it.resolve(args[0]) if args else None)
        return ConstV(None)
    summ = {prog.func(t).short: tool_summary for t in tools if prog.has_func(t)}
    if prog.has_func('cli.print_exception_details'):
        summ[prog.func('cli.print_exception_details').short] = report_summary
    for helper in ('cli.print_banner', 'cli.get_config', f'{mod}.print_check_details'):
        if deep and helper.endswith('print_check_details'):
            continue           # what the handler does after the report is part of the question
        if prog.has_func(helper):
            def helper_summary(it, f, args, kwargs, node, self_obj, helper=helper):
                return DictV(open_=True, desc='get_config()') if helper.endswith('get_config') else ConstV(None)
            summ[prog.func(helper).short] = helper_summary
    if deep:
        # the file inspection is interpreted; its two table-driven helpers (decided by C17) are replaced by their return shapes
        def bm_summary(it, fi, args, kwargs, node, self_obj):
            if it.choose(2, 'bitmap ok') in (0, None):
                return TupleV([ConstV(True), ConstV(None)])
            return TupleV([ConstV(False), it.sym_str('bitmap_reason', lo=1)])
        for helper, sm in (('mciipm.bitmap_check', bm_summary),
                           ('mciipm.block_1014_check', lambda it, fi, args, kwargs, node, self_obj: SymV('is_blocked', 'bool'))):
            if prog.has_func(helper):
                summ[prog.func(helper).short] = sm
    if prog.has_func('mciipm.ipm_info') and not deep:
        summ[prog.func('mciipm.ipm_info').short] = lambda it, f, args, kwargs, node, self_obj: DictV(open_=True, desc='ipm_info()')

    def entry(it):
        kw = {'in_filename': it.sym_str('in_filename', lo=1), 'out_filename': it.sym_str('out_filename', lo=1),
              'input': it.sym_str('input', lo=1), 'output': it.sym_str('output', lo=1), 'debug': ConstV(False),
              'no1014blocking': SymV('no1014blocking', 'bool'), 'sourceformat': SymV('sourceformat', 'str', choices=('ebcdic', 'ascii')),
              'loglevel': ConstV(None), 'config_file': ConstV(None)}
        if func_key:
            fis = [prog.func(t) for t in tools if prog.has_func(t)]
            kw[func_key] = FuncV(fis[it.choose(len(fis), 'sub-command') or 0])
        return it.call_function(cfi, [], kw)
    return Runs(prog, entry, summaries=summ, res=res, raise_ops=deep), cfi


def cli_error_obs(prog, res, which):
    """which='escape' (C07.b): the library data error raised by the conversion never leaves cli_run;
    which='report' (C10.d): whenever it is caught, that very error object was handed to print_exception_details."""
    from ..report import func_where, Ob, PROVED, REFUTED, UNDECIDED
    from ..units import exc_key
    out = []
    base = prog.cls('CardutilError')
    for mod, tools, func_key in CLI_ERROR_TOOLS:
        if not prog.has_func(f'{mod}.cli_run'):
            continue
        runs, cfi = cli_error_runs(prog, res, mod, tools, func_key)
        seen = {'raised': 0}

        def chk(p, mode, which=which):
            exc = p.interp.user.get('raised')
            if exc is None:
                return []
            seen['raised'] += mode == 'inv'
            if which == 'escape':
                if p.outcome == 'raise' and getattr(p.value, 'cls', None) is not None and not isinstance(p.value.cls, type) \
                        and (p.value.cls is base or p.value.cls.is_subclass_of(base)):
                    return [definite('the library data error raised by the conversion leaves cli_run: the operator gets a traceback '
                                     'instead of the report', getattr(p.value, 'raise_node', None), firm=True)]
                return []
            if p.outcome == 'return' and not any(r is exc for r in p.interp.user.get('reported', [])):
                return [definite('the library data error of the conversion is caught but not handed to print_exception_details: the '
                                 'operator never sees the record number', firm=True)]
            return []
        chk.no_return_ok = True
        if which == 'escape':
            ob = runs.judge('C07.b', f'{mod}.cli_run: the library data error of the conversion never leaves the tool entry point',
                            func_where(cfi), 'except MciIpmDataError', chk, rule=f'C07.b.{mod}', unknown_ok=benign_unknown)
        else:
            ob = runs.judge('C10.d', f'{mod}.cli_run: a library data error that is caught is reported through print_exception_details(err)',
                            func_where(cfi), 'except MciIpmDataError as err: print_exception_details(err)', chk, rule=f'C10.d.cli.{mod}',
                            unknown_ok=benign_unknown)
        if ob.verdict == PROVED and not seen['raised']:
            ob.verdict, ob.detail = UNDECIDED, 'the conversion function is not called by cli_run on any explored path: nothing was judged'
        out.append(ob)
        if which == 'escape':
            # ... and nothing else leaves it while the error is being reported: the handler is interpreted with its own helpers
            # and the file inspection it consults (ipm_info), operations that can fail are allowed to fail
            runs_h, _ = cli_error_runs(prog, res, mod, tools, func_key, deep=True)
            seen_h = {'raised': 0}

            def chk_h(p, mode):
                if p.interp.user.get('raised') is None:
                    return []
                seen_h['raised'] += mode == 'inv'
                if p.outcome != 'raise' or p.value is p.interp.user['raised']:
                    return []
                exc = p.value
                what = f'{exc!r}' + (f' ({exc.op})' if getattr(exc, 'op', None) else '')
                msg = (f'while the library data error of the conversion is being reported, {what} leaves cli_run: the operator gets '
                       f'a traceback instead of the diagnostic')
                node = getattr(exc, 'raise_node', None) or getattr(exc, 'node', None)
                if getattr(exc, 'definite', False) or getattr(exc, 'op', None) is None:
                    return [definite(msg, node, firm=True)]
                return [soft(msg, node)]
            chk_h.no_return_ok = True
            obh = runs_h.judge('C07.b', f'{mod}.cli_run: no other exception leaves the tool entry point while the library data error '
                                        f'is reported', func_where(cfi), 'except MciIpmDataError: <report>; return -1', chk_h,
                               rule=f'C07.b.handler.{mod}', unknown_ok=benign_unknown)
            if obh.verdict == PROVED and not seen_h['raised']:
                obh.verdict, obh.detail = UNDECIDED, 'the conversion function is not called by cli_run on any explored path: nothing was judged'
            out.append(obh)
    return out
