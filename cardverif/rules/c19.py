"""C19 - conversion tools: wiring, raw PDS carriers, ICC pass-through, parameter-file pipeline."""
from __future__ import annotations

import ast

from ..lin import Lin
from ..avals import *   # noqa
from ..decide import benign_unknown, Runs, need_ge0, need_eq0, definite, soft
from ..report import Ob, PROVED, REFUTED, UNDECIDED, func_where, ASSUMPTIONS, Failure
from ..model import norm_text, AnalysisError
from . import common
from .decode import DecodeUnits
from .tools import io_summaries, truthy, records_flow


def ctor_of(it, name):
    return [(o, b) for n, o, b in it.user.get('io', []) if n == name]


def check(prog, res, tier):
    res.assumptions = [ASSUMPTIONS['A1'], ASSUMPTIONS['A3'], ASSUMPTIONS['A4']]
    res.explanation = (
        'The four conversion entry points are interpreted with the reader/writer classes replaced by recording summaries: '
        'the input file and input encoding/format must reach the reader, the output file and output encoding/format the '
        'writer, 1014 must map to blocked=True with the same polarity on both sides, all records must flow reader -> '
        'write_many unfiltered and the writer must be finalised on every path.  get_config must return a private copy with '
        'exactly the PDS processors removed; under the ICC processor the element value stays raw bytes.')
    summ = io_summaries(prog)

    # ---- C19.a mci_ipm_encode
    if prog.has_func('cli.mci_ipm_encode.mci_ipm_encode'):
        fi = prog.func('cli.mci_ipm_encode.mci_ipm_encode')

        def cfg_summary(it, f, args, kwargs, node, self_obj):
            v = DictV(desc='get_config()')
            it.user['get_config'] = v
            return v
        summ_e = dict(summ)
        summ_e['cli.mci_ipm_encode.get_config'] = cfg_summary

        def entry(it):
            fin, fout = it.new_file('in_file'), it.new_file('out_file')
            ie, oe = truthy(it, 'in_encoding'), truthy(it, 'out_encoding')
            inf = SymV('in_format', 'str', choices=('vbs', '1014'))
            outf = SymV('out_format', 'str', choices=('vbs', '1014'))
            it.user.update(fin=fin, fout=fout, ie=ie, oe=oe, inf=inf, outf=outf)
            # the command line hands over every option of its parser: the ones the function does not name land in **_
            extra = {k: v for k, v in (('debug', SymV('debug', 'bool')), ('no1014blocking', SymV('no1014blocking', 'bool')),
                                       ('in_filename', it.sym_str('in_filename', lo=1)), ('out_filename', it.sym_str('out_filename', lo=1)))}
            return it.call_function(fi, [fin], {'out_file': fout, 'in_encoding': ie, 'out_encoding': oe, 'in_format': inf, 'out_format': outf,
                                                **extra})
        runs = Runs(prog, entry, summaries=summ_e, res=res)

        def chk(p, mode):
            if p.outcome != 'return':
                return [definite(f'conversion raises {p.value!r}')] if p.outcome == 'raise' else []
            it = p.interp
            u = it.user
            r, w = ctor_of(it, 'IpmReader'), ctor_of(it, 'IpmWriter')
            if len(r) != 1 or len(w) != 1:
                return [definite(f'{len(r)} readers and {len(w)} writers are created')]
            (ro, rb), (wo, wb) = r[0], w[0]
            fails = []
            if rb.get('ipm_file') is not u['fin']:
                fails.append(definite('the reader is not given the input file'))
            if wb.get('file_obj') is not u['fout']:
                fails.append(definite('the writer is not given the output file'))
            if rb.get('encoding') is not u['ie']:
                fails.append(definite(f'the reader decodes with {rb.get("encoding")!r}, not the input encoding'))
            if wb.get('encoding') is not u['oe']:
                fails.append(definite(f'the writer encodes with {wb.get("encoding")!r}, not the output encoding'))
            for side, b, fmt in (('input', rb, u['inf']), ('output', wb, u['outf'])):
                want = it.binds.get(fmt.name) == '1014'
                got = it.resolve(b.get('blocked', ConstV(False)))
                if not (isinstance(got, ConstV) and got.value is want):
                    fails.append(definite(f'{side} format {it.binds.get(fmt.name)!r} gives blocked={got!r}'))
            if rb.get('iso_config') is not u.get('get_config'):
                fails.append(definite('the reader does not use the carrier-preserving configuration from get_config()'))
            if wb.get('iso_config') is not None and not (isinstance(wb.get('iso_config'), ConstV) and wb['iso_config'].value is None):
                pass
            wm = u.get('write_many', [])
            if not (len(wm) == 1 and wm[0][0] is wo):
                fails.append(definite('the records of the reader are not all handed to the writer (write_many(reader))'))
            else:
                fails += records_flow(p, wm[0][1], ro)
            if wo not in u.get('closed', []):
                fails.append(definite('the writer is not finalised'))
            return fails
        res.add(runs.judge('C19.a', 'mci_ipm_encode: input file/encoding/format reach the reader, output file/encoding/format the writer; all records flow through; writer finalised',
                           func_where(fi), 'IpmWriter(out_file, encoding=out_encoding, blocked=...) / IpmReader(in_file, encoding=in_encoding, ...)', chk,
                           rule='C19.a.mci_ipm_encode', unknown_ok=benign_unknown))

    # ---- C19.a the command-line glue of the two encoders: file names -> binary files, --no1014blocking -> both formats vbs
    from .tools import cli_glue_ob, cli_argv_ob
    for mod, tool in (('cli.mci_ipm_encode', 'mci_ipm_encode'), ('cli.mci_ipm_param_encode', 'mci_ipm_param_encode')):
        ob = cli_glue_ob(prog, res, 'C19.a', mod, tool, 'in_file', 'out_file', 'rb', 'wb',
                         passthrough=('in_encoding', 'out_encoding'), formats_switch=True)
        if ob is not None:
            res.add(ob)
        ob = cli_argv_ob(prog, res, 'C19.a', mod, tool, 'in_file', 'out_file', 'rb', 'wb',
                         passthrough=('in_encoding', 'out_encoding'), formats_switch=True)
        if ob is not None:
            res.add(ob)

    # ---- C19.a mideu convert and paramconv through their real command line
    from .tools import cli_argv_io_ob
    for mod, cmd, outs in (('cli.mideu', 'convert', ()), ('cli.paramconv', None, ('--output',))):
        ob = cli_argv_io_ob(prog, res, 'C19.a', mod, command=cmd, out_flags=outs)
        if ob is not None:
            res.add(ob)

    # ---- C19.a mideu.convert
    if prog.has_func('cli.mideu.convert'):
        fi = prog.func('cli.mideu.convert')

        def entry_m(it):
            kw = DictV(desc='kwargs')
            inp = it.sym_str('input', lo=1)
            sf = SymV('sourceformat', 'str', choices=('ebcdic', 'ascii'))
            nb = SymV('no1014blocking', 'bool')
            kw.items.update(input=inp, sourceformat=sf, no1014blocking=nb)
            it.user.update(inp=inp, sf=sf, nb=nb)
            return it.call_function(fi, [DictV(desc='config', open_=True)], {'**': kw, 'input': inp, 'sourceformat': sf, 'no1014blocking': nb})
        runs_m = Runs(prog, entry_m, summaries=summ, res=res)

        def chk_m(p, mode):
            if p.outcome != 'return':
                return [definite(f'convert raises {p.value!r}')] if p.outcome == 'raise' else []
            it = p.interp
            u = it.user
            r, w = ctor_of(it, 'IpmReader'), ctor_of(it, 'IpmWriter')
            if len(r) != 1 or len(w) != 1:
                return [definite(f'{len(r)} readers and {len(w)} writers are created')]
            (ro, rb), (wo, wb) = r[0], w[0]
            fails = []
            opens = {e.data['file']: e for e in p.evs('open')}
            rf, wf = rb.get('ipm_file'), wb.get('file_obj')

            def mode_of(f):
                e = opens.get(f)
                if e is None:
                    return None
                a = e.data['args']
                return it.py_key(a[1]) if len(a) > 1 else it.py_key(e.data['kwargs'].get('mode')) if 'mode' in e.data['kwargs'] else 'r'
            for f_, want_, who in ((rf, 'rb', 'reader'), (wf, 'wb', 'writer')):
                m_ = mode_of(f_)
                if m_ is None:
                    # the object handed over is not one this analysis saw being opened (unmodelled plumbing): no verdict
                    fails.append(soft(f'the {who} is given {f_!r}, whose opening was not observed'))
                elif m_ != want_:
                    fails.append(definite(f'the {who} is given a file opened with mode {m_!r}'))
            if rf in opens and opens[rf].data['args'] and opens[rf].data['args'][0] is not u['inp']:
                fails.append(definite('the reader does not read the input file'))
            src = it.binds.get('sourceformat')
            want = ('cp500', 'latin1') if src == 'ebcdic' else ('latin1', 'cp500')
            norm = lambda s: (s or '').replace('_', '').replace('-', '').lower()
            ge, we = it.py_key(it.resolve(rb.get('encoding'))), it.py_key(it.resolve(wb.get('encoding')))
            if (norm(ge), norm(we)) != want:
                fails.append(definite(f'sourceformat {src!r} converts {ge!r} -> {we!r}, expected {want[0]} -> {want[1]}'))
            nb = it.binds.get(('truth', 'no1014blocking'))
            for side, b in (('reader', rb), ('writer', wb)):
                got = it.resolve(b.get('blocked', ConstV(False)))
                if not (isinstance(got, ConstV) and got.value is (not nb)):
                    fails.append(definite(f'{side}: no1014blocking={nb} gives blocked={got!r}'))
            wm = u.get('write_many', [])
            if not (len(wm) == 1 and wm[0][0] is wo):
                fails.append(definite('the records of the reader are not all handed to the writer'))
            else:
                fails += records_flow(p, wm[0][1], ro)
            if wo not in u.get('closed', []):
                fails.append(definite('the writer is not finalised'))
            return fails
        res.add(runs_m.judge('C19.a', 'mideu convert: ebcdic -> (cp500 to latin1), ascii -> (latin1 to cp500); blocking polarity equal on both sides; all records flow through',
                             func_where(fi), 'IpmWriter(out_file, encoding=out_encoding, blocked=...) / IpmReader(in_file, encoding=in_encoding, ...)',
                             chk_m, rule='C19.a.mideu', unknown_ok=benign_unknown))

    # ---- C19.d parameter file tools
    for q, style in (('cli.mci_ipm_param_encode.mci_ipm_param_encode', 'formats'), ('cli.paramconv.mci_ipm_param_encode', 'blocked')):
        if not prog.has_func(q):
            continue
        fi = prog.func(q)

        def entry_p(it, fi=fi, style=style):
            fin, fout = it.new_file('in_file'), it.new_file('out_file')
            ie, oe = truthy(it, 'in_encoding'), truthy(it, 'out_encoding')
            it.user.update(fin=fin, fout=fout, ie=ie, oe=oe)
            kw = {'in_encoding': ie, 'out_encoding': oe}
            if style == 'formats':
                inf = SymV('in_format', 'str', choices=('vbs', '1014'))
                outf = SymV('out_format', 'str', choices=('vbs', '1014'))
                it.user.update(inf=inf, outf=outf)
                kw.update(in_format=inf, out_format=outf)
            else:
                bl = SymV('blocked', 'bool')
                it.user['bl'] = bl
                kw['blocked'] = bl
            return it.call_function(fi, [fin], {'out_file': fout, **kw})
        runs_p = Runs(prog, entry_p, summaries=summ, res=res)

        def chk_p(p, mode, style=style):
            if p.outcome != 'return':
                return [definite(f'conversion raises {p.value!r}')] if p.outcome == 'raise' else []
            it = p.interp
            u = it.user
            r, w = ctor_of(it, 'VbsReader'), ctor_of(it, 'VbsWriter')
            if len(r) != 1 or len(w) != 1:
                return [definite(f'{len(r)} readers and {len(w)} writers are created')]
            (ro, rb), (wo, wb) = r[0], w[0]
            fails = []
            if rb.get('vbs_file') is not u['fin']:
                fails.append(definite('the reader is not given the input file'))
            if wb.get('out_file') is not u['fout']:
                fails.append(definite('the writer is not given the output file'))
            if style == 'formats':
                for side, b, fmt in (('input', rb, u['inf']), ('output', wb, u['outf'])):
                    want = it.binds.get(fmt.name) == '1014'
                    got = it.resolve(b.get('blocked', ConstV(False)))
                    if not (isinstance(got, ConstV) and got.value is want):
                        fails.append(definite(f'{side} format {it.binds.get(fmt.name)!r} gives blocked={got!r}'))
            else:
                for side, b in (('reader', rb), ('writer', wb)):
                    if b.get('blocked') is not u['bl']:
                        fails.append(definite(f'{side} does not receive the blocked option'))
            codecs = [(e.data['op'], e.data['codec']) for e in p.evs('codec') if e.under(fi.short)]
            regenerated = any(getattr(w[1], 'regenerated', False) for w in u.get('write_many', []))
            if regenerated:
                pass      # a late-bound pipeline was re-evaluated where it is consumed: the data-flow check below decides
            elif [c[0] for c in codecs] != ['decode', 'encode'] or codecs[0][1] is not u['ie'] or codecs[1][1] is not u['oe']:
                fails.append(definite(f'records are not decoded with the input encoding then encoded with the output encoding: {codecs}'))
            wm = u.get('write_many', [])
            if len(wm) != 1 or wm[0][0] is not wo or not isinstance(wm[0][1], IterV):
                fails.append(definite('the converted records are not handed to the writer'))
            else:
                gen = wm[0][1]
                # any number of unfiltered stages between the reader and the writer
                stage, ok_chain = gen, True
                for _ in range(6):
                    if not isinstance(stage, IterV) or stage.filtered:
                        ok_chain = False
                        break
                    if stage.src is ro:
                        break
                    stage = stage.src
                else:
                    ok_chain = False
                if not ok_chain:
                    fails.append(definite('records are filtered or do not come one-to-one from the reader'))
                else:
                    # data flow: written record == encode(decode(record read)), nothing in between
                    w_el = it.resolve(gen.elem)
                    o1 = getattr(w_el, 'origin', None)
                    mid = it.resolve(o1[1]) if isinstance(o1, tuple) and len(o1) == 3 and o1[0] == 'encode' else None
                    o2 = getattr(mid, 'origin', None)
                    if not (isinstance(o1, tuple) and len(o1) == 3 and o1[0] == 'encode' and o1[2] is u['oe']):
                        fails.append(definite(f'the record written is {w_el!r} ({o1 and o1[0]!r}), not the text encoded with the output encoding'))
                    elif isinstance(o2, tuple) and len(o2) == 3 and o2[0] == 'decode' and it.resolve(o2[2]) is u['oe'] and u['oe'] is not u['ie'] \
                            and getattr(it.resolve(o2[1]), 'kind', None) == 'elem':
                        fails.append(definite('the records are decoded with the OUTPUT encoding (the name the decoding stage reads is rebound '
                                              'before the pipeline runs): nothing is transcoded', firm=True))
                    elif not (isinstance(o2, tuple) and len(o2) == 3 and o2[0] == 'decode' and o2[2] is u['ie']):
                        # recognised modification: decoded_text.replace(a, b) with two different literals changes every record
                        # that contains a (records are arbitrary bytes); anything else opaque is "not recognised"
                        changed = False
                        if isinstance(o2, tuple) and len(o2) >= 4 and o2[0] == 'method' and o2[2] == 'replace' and len(o2[3]) >= 2:
                            a_, b_ = it.py_key(it.resolve(o2[3][0])), it.py_key(it.resolve(o2[3][1]))
                            base_o = getattr(it.resolve(o2[1]), 'origin', None)
                            changed = isinstance(a_, str) and isinstance(b_, str) and a_ != b_ and a_ != '' and \
                                isinstance(base_o, tuple) and len(base_o) == 3 and base_o[0] == 'decode'
                        fails.append(definite(f'the text that is encoded is {mid!r} ({(o2 and o2[0])!r} of the decoded record), not the '
                                              f'record decoded with the input encoding: the conversion is no longer a pure transcoding'
                                              + (f' (every record containing {a_!r} is altered)' if changed else ''), firm=changed))
                    elif getattr(it.resolve(o2[1]), 'kind', None) != 'elem':
                        fails.append(definite(f'the value that is decoded is {o2[1]!r}, not the record read'))
            if wo not in u.get('closed', []):
                fails.append(definite('the writer is not finalised'))
            return fails
        res.add(runs_p.judge('C19.d', f'{fi.short}: every record is decoded with the input encoding, encoded with the output encoding and written, one-to-one and in order',
                             func_where(fi), '(record.decode(in_encoding) ...), (record.encode(out_encoding) ...), write_many', chk_p,
                             rule=f'C19.d.{fi.short}', unknown_ok=benign_unknown))

    # ---- C19.a paramconv command: sourceformat -> codec pair, blocking option
    if prog.has_func('cli.paramconv.cli_run'):
        pfi = prog.func('cli.paramconv.cli_run')

        def cap(it, fi, args, kwargs, node, self_obj):
            names = [a.arg for a in fi.node.args.args]
            b = dict(zip(names, args))
            b.update({k: v for k, v in kwargs.items() if k != '**'})
            it.user['conv_call'] = b
            return ConstV(None)

        def noop(it, fi, args, kwargs, node, self_obj):
            return ConstV(None)

        def entry_pc(it):
            inp = it.sym_str('input', lo=1)
            sf = SymV('sourceformat', 'str', choices=('ebcdic', 'ascii'))
            nb = SymV('no1014blocking', 'bool')
            it.user.update(inp=inp, sf=sf, nb=nb)
            return it.call_function(pfi, [], {'input': inp, 'sourceformat': sf, 'no1014blocking': nb, 'loglevel': IntV(30)})
        summ_pc = {'cli.paramconv.mci_ipm_param_encode': cap, 'cli.print_banner': noop}
        runs_pc = Runs(prog, entry_pc, summaries=summ_pc, res=res)

        def chk_pc(p, mode):
            if p.outcome != 'return':
                return [definite(f'paramconv raises {p.value!r}')] if p.outcome == 'raise' else []
            it = p.interp
            b = it.user.get('conv_call')
            if b is None:
                return [definite('paramconv does not call the parameter file converter')]
            src = it.binds.get('sourceformat')
            want = ('cp500', 'latin1') if src == 'ebcdic' else ('latin1', 'cp500')
            norm = lambda s_: (s_ or '').replace('_', '').replace('-', '').lower()
            ge, we = it.py_key(it.resolve(b.get('in_encoding'))), it.py_key(it.resolve(b.get('out_encoding')))
            fails = []
            if (norm(ge), norm(we)) != want:
                fails.append(definite(f'sourceformat {src!r} converts {ge!r} -> {we!r}, expected {want[0]} -> {want[1]} (the two directions must '
                                      f'use the same pair of code pages to be reversible)'))
            nb = it.binds.get(('truth', 'no1014blocking'))
            got = it.resolve(b.get('blocked', ConstV(None)))
            if not (isinstance(got, ConstV) and got.value is (not nb)):
                fails.append(definite(f'no1014blocking={nb} gives blocked={got!r}'))
            opens = {e.data['file']: e for e in p.evs('open')}
            fin, fout = b.get('in_file'), b.get('out_file')
            for f_, m_, what in ((fin, 'rb', 'input'), (fout, 'wb', 'output')):
                e = opens.get(f_)
                if e is None:
                    fails.append(definite(f'the {what} file is not opened by the command') if isinstance(f_, FileV) and not p.unknowns
                                 else soft(f'the {what} file {f_!r} was not seen being opened'))
                    continue
                a = e.data['args']
                md = it.py_key(a[1]) if len(a) > 1 else it.py_key(e.data['kwargs'].get('mode')) if 'mode' in e.data['kwargs'] else 'r'
                if md != m_:
                    fails.append(definite(f'the {what} file is opened with mode {md!r}'))
            if fin in opens and opens[fin].data['args'] and opens[fin].data['args'][0] is not it.user['inp']:
                fails.append(definite('the converter does not read the input file named on the command line'))
            return fails
        res.add(runs_pc.judge('C19.a', 'paramconv: ebcdic -> (cp500 to latin1), ascii -> (latin1 to cp500); blocked = not no1014blocking; files opened binary',
                              func_where(pfi), "in_encoding = 'cp500'; out_encoding = 'latin1' / reverse", chk_pc, rule='C19.a.paramconv',
                              unknown_ok=benign_unknown))

    # ---- C19.b get_config
    if prog.has_func('cli.mci_ipm_encode.get_config'):
        gfi = prog.func('cli.mci_ipm_encode.get_config')

        def entry_g(it):
            return it.call_function(gfi, [], {})
        runs_g = Runs(prog, entry_g, res=res)
        from ..ext import MutCopy, GenericChild

        folded = {'ok': False}

        def chk_g(p, mode):
            fails = []
            it = p.interp
            for e in p.events:
                if e.kind == 'mutate-shared':
                    fails.append(definite('the packaged configuration itself is modified', e.node))
                if folded.get('concrete'):
                    continue        # folded run: the returned dictionary of constants is compared as a whole below
                if e.kind == 'delitem' or (e.kind == 'dict-pop' and isinstance(e.data['obj'], GenericChild)):
                    obj = e.data['obj']
                    key = it.py_key(e.data['key'])
                    if not isinstance(obj, GenericChild):
                        fails.append(definite(f'{key!r} is deleted from {obj!r}, not from an element entry of the copy', e.node))
                        continue
                    if key != 'field_processor':
                        fails.append(definite(f'key {key!r} is removed from the copied element configuration', e.node))
                    # which processor value is being removed on this path?
                    procs = [it.binds.get(s.name) for s in _syms_of(obj) if s.name.startswith('elem.field_processor')]
                    if not procs or any(pv is None for pv in procs):
                        # the entries were selected in an earlier pass: which processor they carry is not tracked here
                        fails.append(soft('a processor is removed from entries selected elsewhere: which ones is not decided', e.node))
                    elif any(pv != 'PDS' for pv in procs):
                        fails.append(definite(f'the {procs} processor is removed from the conversion configuration: only PDS carriers '
                                              f'must stay raw, other processors (ICC ...) must keep working', e.node))
            if p.outcome == 'return':
                v = p.value
                if isinstance(v, PyLit) and 'global' in v.tags or isinstance(v, MutCopy) and 'global' in v.base.tags:
                    fails.append(definite(f'get_config returns the packaged configuration itself ({v!r}), not a private copy'))
                elif isinstance(v, DictV) and not v.open and not v.sym_stores and v.default is None and v.items:
                    # built entry by entry from the packaged literal (comprehensions are folded over its constants): compare
                    # with what the documented loop produces
                    def to_py(x, depth=0):
                        x = it.resolve(x)
                        if isinstance(x, PyLit):
                            return x.value
                        if isinstance(x, DictV):
                            if x.open or x.sym_stores or x.default is not None or depth > 4:
                                raise ValueError('open')
                            return {k: to_py(val, depth + 1) for k, val in x.items.items()}
                        if isinstance(x, (ListV, TupleV)) and x.items is not None:
                            return [to_py(y, depth + 1) for y in x.items]
                        k = it.py_key(x)
                        if k is None and not (isinstance(x, ConstV) and x.value is None):
                            raise ValueError('symbolic')
                        return k
                    try:
                        got = to_py(v)
                    except ValueError:
                        got = None
                    packaged = prog.config_literal()['bit_config']
                    want = {bit: {k: val for k, val in e.items() if not (k == 'field_processor' and val == 'PDS')}
                            for bit, e in packaged.items()}
                    if got is None:
                        fails.append(soft(f'get_config returns {v!r}: its entries are not all constants'))
                    elif got != want:
                        bad = next((b for b in want if got.get(b) != want[b]), None) or next(iter(set(got) - set(want)), None)
                        fails.append(definite(f'the conversion configuration differs from the packaged one with the PDS processors '
                                              f'removed: element {bad!r} is {got.get(bad)!r}, expected {want.get(bad)!r}', firm=True))
                    elif any(isinstance(it.resolve(x), PyLit) and 'global' in it.resolve(x).tags and
                             any(k == 'field_processor' and val == 'PDS' for k, val in it.resolve(x).value.items())
                             for x in v.items.values()):
                        fails.append(definite('a PDS carrier entry of the packaged configuration is returned itself'))
                    else:
                        folded['ok'] = True
                elif not (isinstance(v, MutCopy) and v.base.path.endswith("['bit_config']")):
                    # built in another way (comprehensions, dict(...)): not followed by this rule
                    fails.append(soft(f'get_config returns {v!r}: not recognised as the bit configuration of a private copy'))
            return fails
        # first: fold the function over the constants of the packaged literal (deepcopy materialised, loops over its entries
        # run entry by entry); when that yields a dictionary of constants the comparison in chk_g decides, whatever the
        # style (del / pop loops, comprehensions, two passes)
        runs_k = Runs(prog, entry_g, res=res, hooks={'concrete_deepcopy': True})
        concrete = None
        kpaths = [p for p in runs_k.inv]
        if len(kpaths) == 1 and kpaths[0].outcome == 'return' and not kpaths[0].unknowns and not kpaths[0].tainted and \
                isinstance(kpaths[0].value, DictV) and not isinstance(kpaths[0].value, MutCopy):
            folded['concrete'] = True
            fs = chk_g(kpaths[0], 'inv')
            folded['concrete'] = False
            if folded['ok'] and not fs:
                concrete = ('ok', None)
            elif fs and not any(f.soft for f in fs):
                concrete = ('bad', fs[0])
        folded['ok'] = False
        ob = runs_g.judge('C19.b', 'get_config returns a private copy of the packaged bit configuration with exactly the PDS processors removed',
                          func_where(gfi), "if field_config.get('field_processor') == 'PDS': del field_config['field_processor']", chk_g)
        removed = any(e.kind == 'delitem' or (e.kind == 'dict-pop' and isinstance(e.data['obj'], GenericChild))
                      for p in runs_g.inv for e in p.events)
        if concrete is not None:
            from ..report import PROVED as _P, REFUTED as _R
            if concrete[0] == 'ok':
                ob.verdict, ob.detail = _P, 'folded over the packaged literal: every entry equals the packaged one with the PDS processor removed; no packaged object is modified'
            else:
                ob.verdict, ob.detail, ob.witness = _R, concrete[1].desc, {'folded': 'packaged bit configuration'}
            removed = True
        plain_copy = all(isinstance(p.value, MutCopy) for p in runs_g.inv if p.outcome == 'return') and not folded['ok'] and concrete is None
        if ob.verdict == PROVED and not removed and plain_copy:
            ob.verdict, ob.detail, ob.witness = REFUTED, 'no processor is removed: PDS carriers would be expanded and re-packed during conversion', {'deletes': 0}
        res.add(ob)

    # ---- C19.c ICC pass-through
    du = DecodeUnits(prog, res)
    if 'field' in du.units:
        uf = du.units['field']

        def chk_icc(p, mode):
            if p.outcome != 'return':
                return []
            it = p.interp
            e = it.user['entry']
            if it.py_key(it.resolve(e.items['field_processor'])) != 'ICC':
                return []
            d = p.value.items[0] if isinstance(p.value, TupleV) else None
            md = it.user['md'].segs[0].src
            fails = []
            if not isinstance(d, DictV):
                return [soft('no dict returned')]
            vals = [v for k, v in list(d.sym_stores) if isinstance(k, SeqV) and k.segs and isinstance(k.segs[0], Lit)
                    and k.segs[0].data.startswith('DE')]
            if not vals:
                fails.append(definite('under the ICC processor no element value is stored'))
            for v in vals:
                if not isinstance(v, SeqV) or v.kind != 'bytes' or getattr(v, 'codec', None) is not None:
                    fails.append(definite(f'under the ICC processor the binary element value passes through a text codec: {v!r}'))
                elif any(not (isinstance(g, Sl) and g.src is md) for g in v.segs):
                    fails.append(definite(f'under the ICC processor the element value is not the raw field bytes: {v!r}'))
            return fails
        res.add(uf.runs.judge('C19.c', 'ICC element values are returned as raw bytes (no text codec), so binary data crosses a conversion untouched',
                              func_where(uf.fi), "if field_processor != 'ICC': field_data = field_data.decode(encoding)", chk_icc))


def _syms_of(child):
    out = []
    for v in child.memo.values():
        if isinstance(v, SymV):
            out.append(v)
    return out
