"""C13 - PIN blocks formats 0 and 4: clear-block layout descriptors, inverse agreement, RNG source, cipher API."""
from __future__ import annotations

import ast

from ..lin import Lin
from ..avals import *   # noqa
from ..avals import value_tags
from ..decide import benign_unknown, Runs, need_ge0, need_eq0, definite, soft
from . import common
from ..report import Ob, PROVED, REFUTED, UNDECIDED, func_where, ASSUMPTIONS, Failure
from ..model import norm_text, AnalysisError
from .. import seqops


def pin_obj(it, prog, cls, with_card=True, random=None):
    ci = prog.cls(cls)
    pin = it.sym_str('pin', lo=4, hi=12, charset='digits')
    card = it.sym_str('card_number', lo=13, hi=19, charset='digits')
    kwargs = {}
    if cls.endswith('Iso0PinBlock') or 'Iso0' in cls:
        kwargs['card_number'] = card
    if random is not None:
        kwargs['random_value'] = random
    obj = it.instantiate(ci, [pin], kwargs, None)
    it.user.update(pin=pin, card=card, obj=obj)
    return obj


def int_calls(p, func):
    """[(event, arg seq, base)] of int(x, base) calls in function `func`."""
    out = []
    for e in p.events:
        if e.kind == 'ext-call' and e.data['callee'] == 'int' and e.under(func):
            a = e.data['args']
            base = 10
            if len(a) > 1:
                base = p.interp.py_key(a[1])
            elif 'base' in e.data['kwargs']:
                base = p.interp.py_key(e.data['kwargs']['base'])
            out.append((e, p.interp.resolve(a[0]) if a else None, base))
    return out


def check_clear_field(p, seq, control, fill, pin_src, node, fmt):
    """seq must be: control ++ Num(len(pin), base16, width 1) ++ pin ++ fill*(16-2-len)."""
    st = p.store
    fails = []
    if not isinstance(seq, SeqV):
        return [definite(f'{fmt}: clear PIN field is not a string: {seq!r}', node)]
    segs = list(seq.segs)
    if not segs or not (isinstance(segs[0], Lit) and segs[0].data[:1] == control):
        return [definite(f'{fmt}: clear PIN field does not start with the control nibble {control!r}: {seq!r}', node)]
    # the literal may have absorbed nothing else
    if len(segs[0].data) != 1:
        return [definite(f'{fmt}: unexpected literal {segs[0].data!r} after the control nibble', node)]
    if len(segs) < 3:
        return [definite(f'{fmt}: clear PIN field is incomplete: {seq!r}', node)]
    num = segs[1]
    if not isinstance(num, Num) or num.val is None or st.decide_eq0(num.val - pin_src.length) is not True:
        return [definite(f'{fmt}: second nibble is not the PIN length: {num!r}', node)]
    if num.base != 16:
        # a base-10 rendering is one character only for lengths 0..9
        fails.append(Failure(f'{fmt}: PIN length is rendered in base {num.base} (width {st.canon(num.width)} in '
                             f'{st.bounds(num.width)}): lengths 10-12 need the single hex digit A-C', node=node,
                             neg=[[num.val - 10]]))
    else:
        fails += need_eq0(st, num.width - 1, f'{fmt}: PIN length nibble is {st.canon(num.width)} characters wide', node)
    pin = segs[2]
    if not (isinstance(pin, Sl) and pin.src is pin_src and st.decide_eq0(pin.lo) is True
            and st.decide_eq0(pin.hi - pin_src.length) is True):
        fails.append(definite(f'{fmt}: the PIN digits do not follow the length nibble unchanged: {pin!r}', node))
    rest = segs[3:]
    for g in rest:
        if not (isinstance(g, Rep) and g.unit == fill):
            fails.append(definite(f'{fmt}: fill is {g!r}, not {fill!r} digits', node))
    total = Lin.const(0)
    for g in segs:
        total = total + g.length()
    fails += need_eq0(st, total - 16, f'{fmt}: clear PIN field is {st.canon(total)} hex digits, not 16', node)
    return fails


def check(prog, res, tier):
    res.assumptions = [ASSUMPTIONS['A4'], ASSUMPTIONS['A5']]
    res.explanation = (
        'String-descriptor abstract interpretation of to_bytes/from_bytes for symbolic PINs (4-12 digits) and PANs (13-19 '
        'digits): the clear field must be control ++ one hex length digit ++ PIN ++ fill to 16; the inverse must parse the '
        'length nibble in the radix it is rendered in and rebuild the same PAN part; the format-4 fill comes from the '
        'secrets module; the mix-ins use encryptor()/decryptor() of the same algorithm in ECB mode. No numeric XOR or '
        'cipher value is decided.')
    # ---------------- C13.a format 0
    c0 = 'pinblock.Iso0PinBlock'
    tb0 = prog.cls(c0).lookup('to_bytes')[1]

    def entry0(it):
        obj = pin_obj(it, prog, c0)
        return it.call_function(tb0, [], {}, self_obj=obj)
    runs0 = Runs(prog, entry0, res=res)

    def chk0(p, mode):
        if p.outcome != 'return':
            return [definite(f'to_bytes raises {p.value!r}')] if p.outcome == 'raise' else []
        pin_src = p.interp.user['pin'].segs[0].src
        card_src = p.interp.user['card'].segs[0].src
        st = p.store
        calls = [(e, a, b) for e, a, b in int_calls(p, tb0.short) if b == 16 and isinstance(a, SeqV)]
        p1 = [x for x in calls if any(isinstance(g, Sl) and g.src is pin_src for g in x[1].segs)]
        p2 = [x for x in calls if any(isinstance(g, Sl) and g.src is card_src for g in x[1].segs)]
        fails = []
        if len(p1) != 1 or len(p2) != 1:
            return [definite('format 0: expected int(P1, 16) and int(P2, 16) operands of the XOR')]
        fails += check_clear_field(p, p1[0][1], '0', 'f', pin_src, p1[0][0].node, 'format 0')
        s2 = p2[0][1]
        n = card_src.length
        ok2 = len(s2.segs) == 2 and isinstance(s2.segs[0], Lit) and s2.segs[0].data == '0000' and isinstance(s2.segs[1], Sl) \
            and s2.segs[1].src is card_src
        if not ok2:
            fails.append(definite(f'format 0: P2 is {s2!r}, not 0000 followed by PAN digits', p2[0][0].node))
        else:
            g = s2.segs[1]
            fails += need_eq0(st, g.hi - (n - 1), 'format 0: P2 does not exclude exactly the check digit', p2[0][0].node)
            fails += need_eq0(st, g.hi - g.lo - 12, f'format 0: P2 holds {st.canon(g.hi - g.lo)} PAN digits, not the 12 rightmost', p2[0][0].node)
        v = p.value
        okv = isinstance(v, SeqV) and len(v.segs) == 1 and isinstance(v.segs[0], Opq) and isinstance(v.segs[0].desc, tuple) \
            and v.segs[0].desc[0] == 'to_bytes' and v.segs[0].desc[2] == 'big' and st.decide_eq0(v.length() - 8) is True
        if not okv:
            fails.append(definite(f'format 0: block is {v!r}, not the 8-byte big-endian rendering of P1 xor P2'))
        else:
            x = v.segs[0].desc[1]
            o = getattr(x, 'origin', None)
            if not (o and o[0] == 'BitXor'):
                fails.append(definite('format 0: block is not P1 XOR P2'))
        return fails
    res.add(runs0.judge('C13.a', 'format 0: P1 = 0, hex length digit, PIN, F fill (16 digits); P2 = 0000 + 12 rightmost PAN digits '
                                 'excluding the check digit; block = (P1 xor P2) as 8 bytes', func_where(tb0),
                        "p1 = f'{\"0\" + <len nibble> + self.pin:f<16}'", chk0,
                        sample=lambda ps: [[repr(a) for _e, a, _b in int_calls(p, tb0.short)] for p in ps][:2]))

    # ---------------- C13.b format 4
    c4 = 'pinblock.Iso4PinBlock'
    tb4 = prog.cls(c4).lookup('to_bytes')[1]

    def entry4(it):
        rv = it.sym_int('random_value', 1, 2 ** 64 - 1)
        obj = pin_obj(it, prog, c4, random=rv)
        it.user['rv'] = rv
        return it.call_function(tb4, [], {}, self_obj=obj)
    runs4 = Runs(prog, entry4, res=res)

    def chk4(p, mode):
        if p.outcome != 'return':
            return [definite(f'to_bytes raises {p.value!r}')] if p.outcome == 'raise' else []
        pin_src = p.interp.user['pin'].segs[0].src
        st = p.store
        v = p.value
        if not (isinstance(v, SeqV) and len(v.segs) == 1 and isinstance(v.segs[0], Opq) and isinstance(v.segs[0].desc, tuple)
                and v.segs[0].desc[0] == 'unhexlify'):
            return [definite(f'format 4: block is {v!r}, not unhexlify of the 32-digit field')]
        seq = v.segs[0].desc[1]
        segs = list(seq.segs)
        # split: last segment must be the 16-digit random numeral
        rnd = segs[-1] if segs else None
        fails = []
        rv = p.interp.user['rv']
        if not (isinstance(rnd, Num) and rnd.base == 16 and rnd.val is not None and st.decide_eq0(rnd.val - rv.lin) is True):
            fails.append(definite(f'format 4: the field does not end with the random value in hex: {rnd!r}'))
        else:
            fails += need_eq0(st, rnd.width - 16, f'format 4: random part is {st.canon(rnd.width)} hex digits wide, not 16')
            if rnd.fill != '0':
                fails.append(definite('format 4: random part is not zero filled'))
        fails += check_clear_field(p, SeqV('str', segs[:-1]), '4', 'a', pin_src, None, 'format 4')
        fails += need_eq0(st, v.length() - 16, f'format 4: block is {st.canon(v.length())} bytes, not 16')
        return fails
    res.add(runs4.judge('C13.b', 'format 4: 4, hex length digit, PIN, A fill to 16 digits, then the 64-bit random value as 16 hex digits',
                        func_where(tb4), "binascii.unhexlify(f'{\"4\" + <len nibble> + self.pin:a<16}{self.random_value:016x}')", chk4))

    for ob in common.state_obs(res, 'C13.a', func_where(tb4), [('Iso0PinBlock.to_bytes', runs0), ('Iso4PinBlock.to_bytes', runs4)],
                               'PIN block construction'):
        res.add(ob)

    # ---------------- C13.c inverse agreement
    for cls, fmtname in ((c0, 'format 0'), (c4, 'format 4')):
        ci = prog.cls(cls)
        fb = ci.lookup('from_bytes')[1]

        def entry_f(it, cls=cls, ci=ci, fb=fb):
            n = 8 if cls == c0 else 16
            blk = it.sym_bytes('pin_block', lo=n, hi=n)
            card = it.sym_str('card_number', lo=13, hi=19, charset='digits')
            it.user.update(blk=blk, card=card)
            kwargs = {'card_number': card} if cls == c0 else {}
            return it.call_function(fb, [blk], kwargs, cls_obj=ClassV(ci))
        runs_f = Runs(prog, entry_f, res=res)

        def chk_f(p, mode, cls=cls, fb=fb, fmtname=fmtname):
            if p.outcome != 'return':
                return [definite(f'{fmtname}: from_bytes raises {p.value!r}')] if p.outcome == 'raise' else []
            st = p.store
            fails = []
            # the length parse: an int() call whose argument is character [1:2] of the 16/32 digit hex field
            cand = []
            for e, a, b in int_calls(p, fb.short):
                if isinstance(a, SeqV) and len(a.segs) == 1 and isinstance(a.segs[0], Opq) and isinstance(a.segs[0].desc, tuple) \
                        and a.segs[0].desc[0] in ('numpart', 'slice'):
                    cand.append((e, a, b))
            if len(cand) != 1:
                return [definite(f'{fmtname}: the PIN length is not parsed from one nibble of the hex field')]
            e, a, b = cand[0]
            d = a.segs[0].desc
            lo, hi = d[-2], d[-1]
            fails += need_eq0(st, Lin.of(lo) - 1, f'{fmtname}: length nibble read at offset {st.canon(Lin.of(lo))}, not 1', e.node)
            fails += need_eq0(st, Lin.of(hi) - 2, f'{fmtname}: length field is not one nibble wide', e.node)
            if b != 16:
                fails.append(definite(f'{fmtname}: the length nibble is parsed in base {b} but rendered as a hex digit: a block '
                                      f'holding a 10-12 digit PIN (nibble A-C) cannot be read back', e.node))
            # the pin slice: [2 : 2+L]
            obj = p.value
            pin = obj.fields.get('_pin') if isinstance(obj, ObjV) else None
            if pin is None:
                fails.append(soft('reconstructed object has no PIN'))
            if cls == c0:
                card_src = p.interp.user['card'].segs[0].src
                n = card_src.length
                p2 = [x for x in int_calls(p, fb.short) if x[2] == 16 and isinstance(x[1], SeqV)
                      and any(isinstance(g, Sl) and g.src is card_src for g in x[1].segs)]
                if len(p2) != 1:
                    fails.append(definite('format 0: from_bytes does not rebuild P2 from the card number'))
                else:
                    s2 = p2[0][1]
                    ok2 = len(s2.segs) == 2 and isinstance(s2.segs[0], Lit) and s2.segs[0].data == '0000' and \
                        isinstance(s2.segs[1], Sl) and st.decide_eq0(s2.segs[1].hi - (n - 1)) is True and \
                        st.decide_eq0(s2.segs[1].hi - s2.segs[1].lo - 12) is True
                    if not ok2:
                        fails.append(definite(f'format 0: from_bytes rebuilds P2 as {s2!r}, not as to_bytes does', p2[0][0].node))
            # pin slice bounds
            sls = [ev for ev in p.events if ev.kind == 'slice' and ev.under(fb.short) and ev.data['lo'] is not None
                   and ev.data['hi'] is not None and st.decide_eq0(Lin.of(ev.data['lo']) - 2) is True]
            if not sls:
                fails.append(definite(f'{fmtname}: the PIN is not taken from offset 2 of the hex field'))
            else:
                ev = sls[-1]
                ext = Lin.of(ev.data['hi']) - 2
                cext = st.canon(ext)
                syms = cext.syms()
                if not (len(syms) == 1 and cext.c == 0 and cext.t[0][1] == 1 and p.interp.origin.get(syms[0], ('',))[0] == 'int'):
                    fails.append(definite(f'{fmtname}: PIN slice length {st.canon(ext)} is not the parsed length nibble', ev.node))
            return fails
        res.add(runs_f.judge('C13.c', f'{fmtname}: from_bytes parses the length nibble at offset 1 in base 16, takes the PIN at '
                                      f'offset 2 and rebuilds the same PAN part', func_where(fb), 'pin_length = int(p1[1:2], 16)',
                             chk_f, rule=f'C13.c.{cls}'))

    # ---------------- C13.d randomness
    ci4 = prog.cls(c4)
    init4 = ci4.lookup('__init__')[1]

    def entry_r(it):
        obj = pin_obj(it, prog, c4)
        return obj
    runs_r = Runs(prog, entry_r, res=res)

    def chk_r(p, mode):
        if p.outcome != 'return':
            return [definite('constructor raises')] if p.outcome == 'raise' else []
        rv = p.value.fields.get('random_value')
        if rv is None:
            r_ = p.value.cls.lookup('random_value')
            if r_ is not None and r_[0] == 'attr':
                return [definite('the random fill is a class attribute: it is drawn once, when the class body runs at import, and every '
                                 'block built without an explicit fill shares the same 64 bits', firm=True)]
            # not an attribute the constructor sets (a property, a lazily drawn value ...): where the fill comes from is not
            # what this rule follows
            return [soft('the constructor does not store the random fill as random_value: how the fill is drawn was not followed')]
        if not isinstance(rv, IntV):
            return [definite(f'random fill is {rv!r}')]
        if 'def-time' in rv.tags:
            return [definite('the random fill is computed in a parameter default, i.e. once at import time: every block built '
                             'without an explicit fill shares the same 64 bits')]
        if 'cached' in rv.tags:
            return [definite('the random fill comes out of a memoised function (functools.lru_cache / cache): it is drawn once and '
                             'every later block built without an explicit fill shares the same 64 bits', firm=True)]
        if 'secrets' not in rv.tags:
            return [definite(f'random fill does not come from the secrets module (origin: '
                             f'{p.interp.origin.get(rv.lin.syms()[0]) if rv.lin.syms() else rv})')]
        lo, hi = p.store.bounds(rv.lin)
        if hi != 2 ** 64 - 1:
            return [definite(f'random fill ranges over [{lo},{hi}], not 64 bits')]
        return []
    res.add(runs_r.judge('C13.d', 'format 4 fill: 64 bits drawn from the secrets module per instance when not supplied',
                         func_where(init4), 'self.random_value = secrets.randbits(64)', chk_r))

    # ---------------- C13.e cipher API table
    for mix, alg in (('pinblock.TdesEncryptedPinBlockMixin', 'TripleDES'), ('pinblock.AESEncryptedPinBlockMixin', 'AES')):
        ci = prog.cls(mix)
        for meth, ctx in (('encrypt', 'encryptor'), ('decrypt', 'decryptor')):
            fi = ci.lookup(meth)[1]
            res.add(cipher_ob(prog, res, fi, alg, ctx, 'C13.e', f'{ci.name}.{meth} uses {alg} in ECB mode with .{ctx}()'))
        # delegation (semantic: what reaches encrypt/decrypt/to_bytes/from_bytes)
        concrete = 'pinblock.Iso0TDESPinBlockWithVisaPVV' if alg == 'TripleDES' else 'pinblock.Iso4AESPinBlockWithVisaPVV'
        cci = prog.cls(concrete)
        te = cci.lookup('to_enc_bytes')[1]
        fe = cci.lookup('from_enc_bytes')[1]

        def mk_summaries():
            def enc(it, fi_, args, kwargs, node, self_obj):
                it.user['encrypt_args'] = list(args)
                r = it.sym_bytes('ciphertext', lo=8)
                it.user['encrypt_ret'] = r
                return r

            def dec(it, fi_, args, kwargs, node, self_obj):
                it.user['decrypt_args'] = list(args)
                r = it.sym_bytes('cleartext', lo=8)
                it.user['decrypt_ret'] = r
                return r

            def tb(it, fi_, args, kwargs, node, self_obj):
                r = it.sym_bytes('clear_block', lo=8)
                it.user['to_bytes_ret'] = r
                return r

            def fb(it, fi_, args, kwargs, node, self_obj):
                it.user['from_bytes_args'] = (list(args), dict(kwargs))
                r = SymV('rebuilt_pinblock', 'obj')
                it.user['from_bytes_ret'] = r
                return r
            return {cci.lookup('encrypt')[1].short: enc, cci.lookup('decrypt')[1].short: dec,
                    cci.lookup('to_bytes')[1].short: tb, cci.lookup('from_bytes')[1].short: fb}

        def entry_te(it, cci=cci, te=te):
            obj = ObjV(cci)
            obj.fields['_pin'] = it.sym_str('pin', lo=4, hi=12, charset='digits')
            obj.fields['card_number'] = it.sym_str('card_number', lo=13, hi=19, charset='digits')
            key = it.sym_str('key', lo=32, hi=32, charset='hex')
            it.user['key'] = key
            return it.call_function(te, [key], {}, self_obj=obj)

        def chk_te(p, mode):
            u = p.interp.user
            if p.outcome != 'return':
                return [definite(f'to_enc_bytes raises {p.value!r}')] if p.outcome == 'raise' else []
            a = u.get('encrypt_args')
            if a is None:
                return [soft('to_enc_bytes does not go through self.encrypt(...): the ciphering is not followed by this rule')]
            if not a or len(a) != 2 or a[0] is not u['key'] or a[1] is not u.get('to_bytes_ret'):
                return [definite(f'to_enc_bytes does not compute encrypt(key, self.to_bytes()): encrypt got {a!r}')]
            if p.value is not u.get('encrypt_ret'):
                return [definite('to_enc_bytes does not return the ciphertext')]
            return []
        res.add(Runs(prog, entry_te, summaries=mk_summaries(), res=res).judge(
            'C13.e', f'{ci.name}: to_enc_bytes(key) == encrypt(key, to_bytes())', func_where(te), 'self.encrypt(key, self.to_bytes())',
            chk_te, rule=f'C13.e.{ci.name}.to_enc'))

        def entry_fe(it, cci=cci, fe=fe):
            enc = it.sym_bytes('enc_pin_block', lo=8)
            key = it.sym_str('key', lo=32, hi=32, charset='hex')
            card = it.sym_str('card_number', lo=13, hi=19, charset='digits')
            it.user.update(enc=enc, key=key, card=card)
            return it.call_function(fe, [enc, key], {'card_number': card}, cls_obj=ClassV(cci))

        def chk_fe(p, mode):
            u = p.interp.user
            if p.outcome != 'return':
                return [definite(f'from_enc_bytes raises {p.value!r}')] if p.outcome == 'raise' else []
            a = u.get('decrypt_args')
            if a is None:
                return [soft('from_enc_bytes does not go through cls.decrypt(...): the deciphering is not followed by this rule')]
            if not a or len(a) != 2 or a[0] is not u['key'] or a[1] is not u['enc']:
                return [definite(f'from_enc_bytes does not compute decrypt(key, enc_pin_block): decrypt got {a!r}')]
            fa = u.get('from_bytes_args')
            if not fa or not fa[0] or fa[0][0] is not u.get('decrypt_ret'):
                return [definite('from_enc_bytes does not rebuild the block from the decrypted bytes')]
            if fa[1].get('card_number') is not u['card'] and not (isinstance(fa[1].get('**'), DictV) and
                                                                   fa[1]['**'].items.get('card_number') is u['card']):
                return [definite('from_enc_bytes does not pass the card number on to from_bytes')]
            if p.value is not u.get('from_bytes_ret'):
                return [definite('from_enc_bytes does not return the rebuilt block')]
            return []
        res.add(Runs(prog, entry_fe, summaries=mk_summaries(), res=res).judge(
            'C13.e', f'{ci.name}: from_enc_bytes(enc, key, ...) == from_bytes(decrypt(key, enc), ...)', func_where(fe),
            'cls.from_bytes(cls.decrypt(key, enc_pin_block), *args, **kwargs)', chk_fe, rule=f'C13.e.{ci.name}.from_enc'))


def cipher_ob(prog, res, fi, alg, ctx, oid, title):
    def entry(it):
        a = fi.node.args
        args = []
        for prm in a.args:
            if prm.arg in ('self', 'cls'):
                continue
            if 'key' in prm.arg:
                args.append(it.sym_str(prm.arg, lo=32, hi=64, charset='hex') if 'binary' not in prm.arg
                            else it.sym_bytes(prm.arg, lo=16, hi=24))
            else:
                args.append(it.sym_bytes(prm.arg, lo=8, hi=16))
        return it.call_function(fi, args, {})
    runs = Runs(prog, entry, res=res)

    def chk(p, mode):
        algs = [e.data['callee'].split('.')[-1] for e in p.evs('ext-call') if e.data['callee'].split('.')[-1] in
                ('TripleDES', 'AES', 'DES', 'Blowfish', 'ARC4', 'CAST5', 'IDEA', 'SEED', 'Camellia', 'ChaCha20', 'SM4')]
        modes_ = [e.data['callee'].split('.')[-1] for e in p.evs('ext-call') if '.modes.' in e.data['callee']]
        meths = [e.data['name'] for e in p.evs('method') if e.data['name'] in ('encryptor', 'decryptor')]
        fails = []
        # nothing observed (the call is made through a table of unbound methods, a helper the analysis does not enter ...):
        # not followed; something else observed: a violation
        if algs != [alg]:
            fails.append(definite(f'cipher algorithm is {algs}, expected {alg}') if algs else soft('no cipher algorithm constructor observed'))
        if modes_ != ['ECB']:
            fails.append(definite(f'cipher mode is {modes_}, expected ECB') if modes_ else soft('no cipher mode constructor observed'))
        if meths != [ctx]:
            fails.append(definite(f'uses {meths}, expected .{ctx}()') if meths else soft(f'no .encryptor() / .decryptor() call observed'))
        # the cipher key must be the caller's key material, whole and unmodified
        for e in p.evs('ext-call'):
            if e.data['callee'].split('.')[-1] in ('TripleDES', 'AES') and e.data['args']:
                k = p.interp.resolve(e.data['args'][0])
                if not _whole_key(p, k):
                    fails.append(definite(f'the cipher is keyed with {k!r}, not the key supplied by the caller', e.node))
        return fails
    return runs.judge(oid, title, func_where(fi), f'Cipher({alg}(key), modes.ECB()).{ctx}()', chk,
                      rule=f'{oid}.{fi.short}', unknown_ok=benign_unknown)


def _whole_key(p, k):
    """k is a whole key parameter (bytes) or unhexlify of a whole hex-string parameter."""
    st = p.store

    def whole_param(x):
        return isinstance(x, SeqV) and len(x.segs) == 1 and isinstance(x.segs[0], Sl) and st.decide_eq0(x.segs[0].lo) is True \
            and st.decide_eq0(x.segs[0].hi - x.segs[0].src.length) is True and 'key' in x.segs[0].src.name
    if whole_param(k):
        return True
    if isinstance(k, SeqV) and len(k.segs) == 1 and isinstance(k.segs[0], Opq) and isinstance(k.segs[0].desc, tuple) \
            and k.segs[0].desc[0] == 'unhexlify':
        return whole_param(k.segs[0].desc[1])
    if isinstance(k, SeqV) and len(k.segs) == 1 and isinstance(k.segs[0], Opq) and k.segs[0].desc == 'unhexlify' and k.segs[0].deps:
        return whole_param(k.segs[0].deps[0])
    return False
