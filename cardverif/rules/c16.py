"""C16 - masking discloses only the first six and last four characters; decoder stores only masked values."""
from __future__ import annotations

from ..lin import Lin, Infeasible
from ..avals import *   # noqa
from ..avals import value_tags
from ..decide import Runs, need_ge0, need_eq0, definite, soft
from ..report import Ob, PROVED, REFUTED, UNDECIDED, func_where, ASSUMPTIONS, Failure
from ..model import norm_text, AnalysisError
from .. import seqops
from .decode import DecodeUnits
from . import common
from .c08 import src_slices


def check(prog, res, tier):
    res.assumptions = [ASSUMPTIONS['A1'], ASSUMPTIONS['A2'], ASSUMPTIONS['A4'], ASSUMPTIONS['A5']]
    res.explanation = (
        'mask() is interpreted for a symbolic card number of length n >= 10 and a symbolic one-character mask: the '
        'descriptor of the result must be x[0:6] ++ mask_char*(n-10) ++ x[n-4:n].  In the element decoder, partitioned '
        'on the configured processor, every value stored in the returned dictionary under PAN / PAN-PREFIX is checked '
        'to expose only the allowed windows of the field bytes (taint by descriptor).')
    mfi = prog.func('card.mask')

    def entry_m(it):
        x = it.sym_str('card_number', lo=10)
        mc = it.sym_str('mask_char', lo=1, hi=1)
        it.user.update(x=x, mc=mc)
        return it.call_function(mfi, [x, mc], {})
    runs_m = Runs(prog, entry_m, res=res)

    def chk_shape(p, mode):
        if p.outcome != 'return':
            return [definite(f'mask raises {p.value!r}')] if p.outcome == 'raise' else []
        v = p.value
        st = p.store
        x = p.interp.user['x'].segs[0].src
        mc = p.interp.user['mc']
        n = x.length
        if not isinstance(v, SeqV):
            return [definite(f'mask returns {v!r}')]
        fails = []
        fails += need_eq0(st, v.length() - n, f'masked value has length {st.canon(v.length())}, input has {st.canon(n)}')
        segs = list(v.segs)
        if not segs or not (isinstance(segs[0], Sl) and segs[0].src is x):
            return fails + [definite(f'masked value does not begin with a slice of the input: {v!r}')]
        fails += need_eq0(st, segs[0].lo, 'masked value does not start with the first character of the input')
        fails += need_eq0(st, segs[0].hi - 6, f'clear prefix is input[0:{st.canon(segs[0].hi)}], not the first six characters')
        last = segs[-1]
        if not (isinstance(last, Sl) and last.src is x) or len(segs) < 2:
            return fails + [definite(f'masked value does not end with a slice of the input: {v!r}')]
        fails += need_eq0(st, last.hi - n, 'masked value does not end with the last character of the input')
        fails += need_eq0(st, last.lo - n + 4, f'clear suffix is input[{st.canon(last.lo)}:], not the last four characters')
        for g in segs[1:-1]:
            ok = isinstance(g, Rep) and (g.unit is mc or (isinstance(g.unit, SeqV) and seqops.seq_eq_structural(p.interp, g.unit, mc)))
            if not ok:
                if isinstance(g, Sl) and g.src is x:
                    fails.append(Failure(f'middle characters of the input survive in the masked value: {g!r}', neg=[[g.hi - g.lo - 1]]))
                else:
                    fails.append(Failure(f'a position between prefix and suffix does not hold the mask character: {g!r}',
                                         neg=[[g.length() - 1]]))
        return fails
    res.add(runs_m.judge('C16.a', 'mask(x) == x[0:6] ++ mask_char*(len(x)-10) ++ x[-4:] for every len(x) >= 10',
                         func_where(mfi), 'card_number[0:6] + mask_char * (len(card_number) - 10) + card_number[-4:]',
                         chk_shape, sample=lambda ps: [repr(p.value) for p in ps][:2]))

    # default mask character is one character
    ob = Ob('C16.a', 'the default mask character is a single character', func_where(mfi), 'mask_char default', rule='C16.a.default')
    dflt = mfi.node.args.defaults
    import ast
    if dflt and isinstance(dflt[-1], ast.Constant) and isinstance(dflt[-1].value, str):
        if len(dflt[-1].value) == 1:
            ob.verdict, ob.detail = PROVED, f'default {dflt[-1].value!r}'
        else:
            ob.verdict, ob.detail, ob.witness = REFUTED, f'default mask {dflt[-1].value!r} is not one character (length changes)', {'default': dflt[-1].value}
    else:
        ob.verdict, ob.detail = UNDECIDED, 'no literal default'
    res.add(ob)

    # ---- C16.b decoder taint
    du = DecodeUnits(prog, res)
    if 'field' not in du.units:
        raise AnalysisError('anchor iso8583._iso8583_to_field not found')
    uf = du.units['field']
    fname = uf.fi.short

    def chk_taint(p, mode):
        if p.outcome != 'return':
            return []
        entry = p.interp.user['entry']
        proc = p.interp.resolve(entry.items['field_processor'])
        pk = p.interp.py_key(proc)
        if pk is None and isinstance(proc, SymV):
            # the processor was never tested on this path: the path is the same for every value it may still have
            ch = p.interp.sym_choices(proc) if hasattr(p.interp, 'sym_choices') else proc.choices
            pans = [c for c in (ch or ()) if c in ('PAN', 'PAN-PREFIX')]
            out = []
            for c in pans:
                out += chk_taint_for(p, mode, c)
            return out
        if pk not in ('PAN', 'PAN-PREFIX'):
            return []
        return chk_taint_for(p, mode, pk)

    def chk_taint_for(p, mode, pk):
        entry = p.interp.user['entry']
        md = p.interp.user['md'].segs[0].src
        st = p.store
        # field region = the value slice (last closed slice of md in the unit frame)
        sl = [x for x in src_slices(p, md, func=fname) if not x[3]]
        if not sl:
            return [soft('value slice not found')]
        e, a, b_req, _ = sl[-1]
        res_v = e.data['result']
        if not (isinstance(res_v, SeqV) and len(res_v.segs) <= 1):
            return [soft('value slice has an unexpected shape')]
        if not res_v.segs:
            return []
        a, b = res_v.segs[0].lo, res_v.segs[0].hi
        trial = st.copy()
        if pk == 'PAN':
            try:
                trial.assume_ge0(b - a - 10)      # A5: card numbers of 10 or more characters
            except Infeasible:
                return []
        v = p.value
        if not (isinstance(v, TupleV) and isinstance(v.items[0], DictV)):
            return [soft('return value is not (dict, increment)')]
        d = v.items[0]
        fails = []
        vals = list(d.items.items()) + [(k, x) for k, x in d.sym_stores]
        for key, val in vals:
            val = p.interp.resolve(val)
            segs = val.segs if isinstance(val, SeqV) else ()
            if isinstance(val, IntV):
                o = p.interp.origin.get(val.lin.syms()[0]) if val.lin.syms() else None
                if o and o[0] == 'int' and isinstance(o[1], SeqV):
                    segs = o[1].segs
            for g in segs:
                if not (isinstance(g, Sl) and g.src is md):
                    continue
                if pk == 'PAN':
                    ok = (trial.prove_ge0(g.lo - a) and trial.prove_ge0(a + 6 - g.hi)) or \
                         (trial.prove_ge0(g.lo - (b - 4)) and trial.prove_ge0(b - g.hi))
                    if not ok:
                        fails.append(Failure(f'clear PAN characters {g!r} of field [{st.canon(a)}:{st.canon(b)}] are stored in the '
                                             f'returned dictionary under a PAN-masked element', neg=[[b - a - 10]]))
                else:
                    ok = trial.prove_ge0(g.lo - a) and trial.prove_ge0(a + 9 - g.hi)
                    if not ok:
                        fails.append(Failure(f'more than the first nine characters ({g!r}) are stored for a PAN-PREFIX element',
                                             neg=[[b - a - 10]]))
        return fails
    res.add(uf.runs.judge('C16.b', 'under the PAN / PAN-PREFIX processor only the masked value / first nine characters reach the '
                                   'returned dictionary', func_where(uf.fi), "return_values['DE' + str(bit)] = field_data", chk_taint))

    # the same, for PAN processors configured on a typed (int / long / decimal / datetime) element: outside A1, but the
    # processor must still win over the type conversion (the pinned code masks first; the conversion of a masked value fails)
    def entry_typed(it):
        from . import common as _c
        bit = it.sym_int('bit', 2, 127)
        e = _c.generic_entry(it)
        e.items['field_processor'] = SymV(f'{e.entry_name}.field_processor', 'str', choices=('PAN', 'PAN-PREFIX'))
        e.items['field_python_type'] = SymV(f'{e.entry_name}.field_python_type', 'str', choices=tuple(t for t in _c.PYTYPES if t))
        md = it.sym_bytes('message_data', tags=frozenset(['wire']))
        it.user['md'] = md
        it.user['entry'] = e
        from .decode import codec as _codec
        return it.call_function(uf.fi, [bit, e, md, _codec(it)], {})
    runs_typed = Runs(prog, entry_typed, summaries=du.leaf_summaries, hooks=__import__('cardverif.rules.common', fromlist=['HOOKS']).HOOKS, res=res)
    res.add(runs_typed.judge('C16.b', 'a PAN / PAN-PREFIX processor on a typed element (int, long, decimal, datetime) still never stores '
                                      'the clear value: the processor is applied before any type conversion', func_where(uf.fi),
                             "if field_processor == 'PAN': field_data = mask(field_data)  (before _string_to_pytype)", chk_taint,
                             rule='C16.b.typed'))

    # ---- C16.c no other channel
    dfi = prog.func('iso8583._iso8583_to_dict') if prog.has_func('iso8583._iso8583_to_dict') else prog.func('iso8583.loads')

    def chk_chan(p, mode):
        if p.outcome != 'return':
            return []
        v = p.value
        if not isinstance(v, DictV):
            return [soft('loads does not return a dict')]
        msg = p.interp.user['message'].segs[0].src
        fails = []
        for key, val in list(v.items.items()) + list(v.sym_stores):
            if isinstance(val, SeqV):
                for g in val.segs:
                    if isinstance(g, Sl) and g.src is msg:
                        # only the 4 MTI bytes may be stored by the message parser itself
                        if not (p.store.prove_ge0(Lin.const(4) - g.hi)):
                            fails.append(definite(f'raw message bytes {g!r} are stored under {key!r} by the message parser'))
        for m in getattr(v, 'merged', []):
            if not (isinstance(m, DictV) and m.desc == 'field values'):
                fails.append(definite(f'the message parser merges {m!r}, not the element parser result'))
        return fails
    for ob in common.state_obs(res, 'C16.a', func_where(mfi), [('mask', runs_m)], 'masking'):
        res.add(ob)

    # ---- C16.c which configuration decides about masking when the caller passes none
    lfi = prog.func('iso8583.loads')

    def cfg_capture(it, fi_, args, kwargs, node, self_obj):
        names = [a.arg for a in fi_.node.args.args]
        b = dict(zip(names, args))
        b.update({k: v for k, v in kwargs.items() if k != '**'})
        it.user['parser_config'] = it.resolve(b.get('bit_config'))
        return DictV(open_=True, desc='message')
    runs_dc = Runs(prog, lambda it: it.call_function(lfi, [it.sym_bytes('message', tags=frozenset(['wire']))], {}),
                   summaries={'iso8583._iso8583_to_dict': cfg_capture}, res=res)

    def chk_dc(p, mode):
        if p.outcome != 'return':
            return []
        c = p.interp.user.get('parser_config')
        if c is None:
            return [soft('the configuration handed to the message parser was not observed')]
        if not (isinstance(c, PyLit) and c.path.endswith("['bit_config']")):
            return [soft(f'without iso_config the message parser works with {c!r}')]
        if 'import-time' in c.tags:
            return [definite("without iso_config the message parser works with a module-level name bound to config['bit_config'] when "
                             "the module was imported: a configuration installed afterwards (with its PAN masking) is ignored", firm=True)]
        return []
    res.add(runs_dc.judge('C16.c', "loads() without iso_config takes config['bit_config'] as it is when loads is called", func_where(lfi),
                          "if not iso_config: iso_config = config['bit_config']", chk_dc, rule='C16.c.default-config'))

    res.add(du.loads.judge('C16.c', 'the message parser stores only the MTI and the dictionaries returned by the element parser',
                           func_where(dfi), 'return_values.update(return_message)', chk_chan))
