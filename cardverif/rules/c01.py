"""C01 - ISO8583 round trip: encoder/decoder agreement clauses (value equality itself is not decided)."""
from __future__ import annotations

import ast

from ..lin import Lin, Infeasible
from ..avals import *   # noqa
from ..avals import value_tags
from ..decide import Runs, need_ge0, need_eq0, definite, soft, iterations, benign_unknown
from ..report import Ob, PROVED, REFUTED, UNDECIDED, func_where, ASSUMPTIONS, Failure
from ..model import norm_text, AnalysisError
from .. import seqops
from . import common
from .decode import DecodeUnits, codec
from .c02 import field_entry, partition, FIELD
from .c08 import src_slices

DOC_TAGS = {'int', 'long', 'decimal', 'datetime'}
DOC_PROCS = {'PAN', 'PAN-PREFIX', 'ICC', 'PDS', 'DE43'}



def decoder_iterations(du, dfi):
    """Per generic iteration of the decoder's element loop: the element number handed on / looked up, the position of
    the tested bitmap flag in the unpacked bit list, whether the flag was set and whether the element was parsed."""
    out = []
    uf = du.units.get('field')
    for p in du.loads.inv:
        for first, last, s0, s1, head in iterations(p, func=dfi.short):
            if not isinstance(head.node, ast.For):
                continue
            it = p.interp
            st = p.store
            calls = [e for e in p.events if e.kind == 'unit-call' and uf is not None and e.data['unit'] == uf.name and first < e.seq < last]
            fi_ev = [e for e in p.events if e.kind == 'for-iter' and e.node is head.node]
            li = [e for e in p.events if e.kind == 'loop-iter' and e.node is head.node and first <= e.seq < last]
            itv = fi_ev[-1].data['iterable'] if fi_ev else None
            elem = li[-1].data.get('elem') if li else None
            rec = {'path': p, 'parsed': bool(calls), 'bit': None, 'pos': None, 'flag': None, 'k': None, 'node': head.node}
            # the flag: a truth fact on an element of the bit list inside this iteration
            for kind, truth, data in p.facts:
                if kind != 'truth':
                    continue
                sym = data['sym']
                o = getattr(sym, 'origin', None)
                if isinstance(o, tuple) and o and o[0] == 'item' and isinstance(o[1], ListV):
                    lst, idx = o[1], Lin.of(o[2])
                    par = getattr(lst, 'parent', None)
                    if par is not None and par[1] is not None:
                        idx = idx + Lin.of(par[1])
                        lst = par[0]
                    # only the test that depends on the loop variable identifies the element flag
                    eint = elem if isinstance(elem, IntV) else elem.items[0] if isinstance(elem, TupleV) and elem.items and \
                        isinstance(elem.items[0], IntV) else None      # (element number, its configuration) pairs
                    dep = eint is not None and any(sy in st.canon(idx).syms() for sy in st.canon(eint.lin).syms())
                    if dep:
                        rec.update(flag=truth, pos=idx, root=lst)
                    else:
                        rec.setdefault('other_tests', []).append((idx, truth))
                elif isinstance(itv, IterV) and isinstance(itv.elem, TupleV) and len(itv.elem.items) == 2 and sym is itv.elem.items[1] \
                        and isinstance(elem, TupleV) and isinstance(elem.items[0], IntV):
                    pos = elem.items[0].lin - getattr(itv, 'enum_start', Lin.const(0))
                    lst = itv.src
                    if getattr(itv, 'desc', None) == 'zip' and isinstance(lst, (list, tuple)) and len(lst) == 2:
                        # zip(range(a, b), flags): the j-th pair holds element a + j and flags[j]
                        first_, second_ = it.resolve(lst[0]), it.resolve(lst[1])
                        if isinstance(first_, RangeV) and first_.step == 1:
                            pos = elem.items[0].lin - Lin.of(first_.lo)
                            lst = second_
                        else:
                            continue
                    par = getattr(lst, 'parent', None)
                    if par is not None:
                        if par[1] is not None:
                            pos = pos + Lin.of(par[1])
                        lst = par[0]
                    rec.update(flag=truth, pos=pos, root=lst)
            if rec['flag'] is None and isinstance(elem, IntV):
                # the loop runs over a list of element numbers built beforehand:  [n for n, flag in enumerate(bits[a:b], start=s) if flag]
                for sy in st.canon(elem.lin).syms():
                    o = it.origin.get(sy)
                    if not (isinstance(o, tuple) and len(o) == 4 and o[0] == 'enumerate'):
                        continue
                    _, start, src, el = o
                    tested = [t for k, t, d in p.facts if k == 'truth' and d.get('sym') is el]
                    if tested and all(tested):
                        pos = Lin.sym(sy) - Lin.of(start)
                        lst = src
                        par = getattr(lst, 'parent', None)
                        if par is not None:
                            if par[1] is not None:
                                pos = pos + Lin.of(par[1])
                            lst = par[0]
                        rec.update(flag=True, pos=pos, root=lst)
            # filters of comprehensions that ran before the loop (the collection the loop runs over): anything but the
            # test of the element's own flag can drop a flagged element without an error
            for e in p.events:
                if e.kind != 'comp-filter' or e.seq >= first or not e.under(dfi.short):
                    continue
                cv = e.data.get('value')
                o = getattr(cv, 'origin', None)
                is_flag = isinstance(cv, SymV) and (
                    isinstance(o, tuple) and o and o[0] == 'item' and isinstance(o[1], ListV)
                    or any(isinstance(oo, tuple) and len(oo) == 4 and oo[0] == 'enumerate' and oo[3] is cv for oo in it.origin.values()))
                if not is_flag:
                    rec.setdefault('extra_filters', []).append(e)
            if isinstance(elem, IntV):
                rec['bit'] = elem
            elif isinstance(elem, TupleV) and elem.items and isinstance(elem.items[0], IntV):
                rec['bit'] = elem.items[0]
            if calls and isinstance(calls[-1].data['args'][0], IntV):
                rec['bit'] = calls[-1].data['args'][0]
            root = rec.get('root')
            if isinstance(root, ListV):
                parts = getattr(root, 'parts', None)
                if parts and parts[0][0] == 'items':
                    rec['k'] = len(parts[0][1])
                elif root.items is not None or getattr(root, 'prev_items', None) is not None or not parts:
                    rec['k'] = 0      # one homogeneous list (not a concatenation): no prefix entries
            out.append(rec)
    return out


UNKNOWN_RUNS = []


def _unknown_constructs():
    for runs in UNKNOWN_RUNS:
        for p in runs.inv:
            for u in p.unknowns:
                return u[0]
    return None


def simple(ob, ok, good, bad, witness=None, undecided=None):
    if not undecided and not ok:
        u = _unknown_constructs()
        if u:
            undecided = f'construct outside the interpreted fragment: {u}'
    if undecided:
        ob.verdict, ob.detail = UNDECIDED, undecided
    elif ok:
        ob.verdict, ob.detail = PROVED, good
    else:
        ob.verdict, ob.detail, ob.witness = REFUTED, bad, witness or {'mismatch': bad[:80]}
    return ob


def check(prog, res, tier):
    res.assumptions = [ASSUMPTIONS['A1'], ASSUMPTIONS['A2'], ASSUMPTIONS['A4']]
    res.explanation = (
        'Round-trip equality of values is a run-time property; what is decided here are its structural necessary '
        'conditions, each read off the abstract paths of both directions: same element range, same bitmap position for '
        'element n, same prefix width per field type, same type tags and date-format key/default, every documented field '
        'processor handled, big-endian bit order on both sides, and the caller\'s encoding reaching every encode/decode.')
    du = DecodeUnits(prog, res)
    efi = prog.func('iso8583._dict_to_iso8583')
    dfi = prog.func('iso8583._iso8583_to_dict')

    # encoder assembler run (same shape as C02.c)
    def field_summary(it, fi_, args, kwargs, node, self_obj):
        return it.sym_bytes('element')

    def pds_summary(it, fi_, args, kwargs, node, self_obj):
        return ListV(items=[], desc='pds strings')

    def entry_e(it):
        msg = DictV(open_=True, desc='message')
        msg.default = lambda it2, key, n, strict: SymV(it2.fresh('message[..]'), 'any')
        msg.items['MTI'] = it.sym_str('MTI', lo=4, hi=4, charset='digits')
        return it.call_function(efi, [msg, common.generic_bit_config(it), codec(it), SymV('hex_bitmap', 'bool')], {})
    runs_e = Runs(prog, entry_e, summaries={FIELD: field_summary, 'iso8583._pds_to_de': pds_summary}, hooks=common.HOOKS, res=res)
    del UNKNOWN_RUNS[:]
    UNKNOWN_RUNS.extend([runs_e, du.loads] + [u.runs for u in du.units.values()])

    # ---- C01.a bit range agreement
    def ranges(runs, fname):
        out = set()
        for p in runs.inv:
            for e in p.events:
                if e.kind == 'for-iter' and e.under(fname) and isinstance(e.data['iterable'], RangeV):
                    r = e.data['iterable']
                    lo, hi = p.store.canon(Lin.of(r.lo)), p.store.canon(Lin.of(r.hi))
                    out.add((lo.c if lo.is_const() else str(lo), hi.c if hi.is_const() else str(hi)))
        return out
    def element_of_key(p, key):
        """message key 'DE' ++ decimal numeral of n -> the Lin n, else None"""
        key = p.interp.resolve(key)
        if isinstance(key, SeqV) and len(key.segs) == 2 and isinstance(key.segs[0], Lit) and key.segs[0].data == 'DE' and \
                isinstance(key.segs[1], Num) and key.segs[1].base == 10 and key.segs[1].val is not None and key.segs[1].minw <= 1:
            return key.segs[1].val
        return None

    def looked_up_elements(p, first=None, last=None):
        """element numbers whose message entry is read (message.get / message[...]) on this path"""
        out = []
        for e in p.events:
            if first is not None and not (first < e.seq < last):
                continue
            if not e.under(efi.short):
                continue
            key = None
            if e.kind == 'method' and e.data['name'] == 'get' and isinstance(e.data.get('recv'), DictV) and \
                    e.data['recv'].desc == 'message' and e.data['args']:
                key = e.data['args'][0]
            elif e.kind == 'getitem' and isinstance(e.data.get('obj'), DictV) and e.data['obj'].desc == 'message':
                key = e.data.get('key')
            n = element_of_key(p, key) if key is not None else None
            if n is not None:
                out.append(n)
        return out
    re_ = ranges(runs_e, efi.short)
    if not re_:
        # the encoder is not driven by a range(): take the elements from the message keys it looks up
        for p in runs_e.inv:
            for n in looked_up_elements(p):
                lo, hi = p.store.bounds(n)
                re_.add((lo, hi + 1 if hi is not None else None))
    dits = decoder_iterations(du, dfi)
    rd = set()
    for p in du.loads.inv:
        for e in p.events:
            if e.kind == 'for-iter' and e.under(dfi.short):
                itv = e.data['iterable']
                if isinstance(itv, RangeV):
                    lo, hi = p.store.canon(Lin.of(itv.lo)), p.store.canon(Lin.of(itv.hi))
                    rd.add((lo.c if lo.is_const() else str(lo), hi.c if hi.is_const() else str(hi)))
    for r in dits:
        p = r['path']
        fi_ev = [e for e in p.events if e.kind == 'for-iter' and e.under(dfi.short)]
        if fi_ev and isinstance(fi_ev[-1].data['iterable'], RangeV):
            continue
        if r['bit'] is not None:
            lo, hi = p.store.bounds(r['bit'].lin)
            rd.add((lo, hi + 1 if hi is not None else None))
    ob = Ob('C01.a', 'encoder and decoder iterate the same elements 2..127', func_where(dfi), 'for bit in range(2, 128)')
    simple(ob, re_ == rd == {(2, 128)}, f'both loops range over {sorted(re_)}',
           f'encoder visits {sorted(re_)}, decoder visits {sorted(rd)} (expected elements 2..127, i.e. range(2, 128), on both sides)',
           {'encoder': str(sorted(re_)), 'decoder': str(sorted(rd))},
           undecided=None if re_ and rd and not any(x is None for r in (re_ | rd) for x in r)
           else 'element loops not recognised (no bounds for the element number were derived)')
    res.add(ob)

    # ---- C01.b bitmap position agreement
    enc_off = set()
    for p in runs_e.inv:
        for first, last, s0, s1, head in iterations(p, func=efi.short):
            li = [e for e in p.events if e.kind == 'loop-iter' and first <= e.seq < last and e.node is head.node]
            bit = li[-1].data.get('elem') if li else None
            if not isinstance(bit, IntV):
                ns = looked_up_elements(p, first, last)
                bit = IntV(ns[0]) if ns and all(p.store.decide_eq0(x - ns[0]) is True for x in ns) else bit
            for e in p.events:
                if first < e.seq < last and e.kind == 'setitem' and isinstance(e.data['obj'], ListV) and isinstance(e.data['key'], IntV) \
                        and isinstance(bit, IntV):
                    d = p.store.canon(e.data['key'].lin - bit.lin)
                    enc_off.add(d.c if d.is_const() else str(d))
    dec_off = set()
    for r in dits:
        if r['pos'] is None or r['bit'] is None:
            continue
        if r['k'] is None:
            dec_off.add('unknown list shape')
            continue
        d = r['path'].store.canon(r['pos'] - r['bit'].lin - r['k'])
        dec_off.add(d.c if d.is_const() else str(d))
    ob = Ob('C01.b', 'element n uses the same bitmap position when written (index n-1) and when read (prefix + tolist index n)',
            func_where(dfi), 'bitmap_values[bit - 1] = True  vs  bitmap_list[bit]')
    simple(ob, enc_off == {-1} and dec_off == {-1},
           'encoder sets position bit-1, decoder tests position bit-1 of the unpacked bits',
           f'encoder offset {sorted(map(str, enc_off))}, decoder offset {sorted(map(str, dec_off))} relative to the element number '
           f'(both must be -1)', {'encoder': str(sorted(map(str, enc_off))), 'decoder': str(sorted(map(str, dec_off)))},
           undecided=None if enc_off and dec_off and 'unknown list shape' not in dec_off else 'bitmap accesses not recognised')
    res.add(ob)

    # ---- C01.c prefix width agreement
    runs_f = Runs(prog, field_entry(prog), hooks=common.HOOKS, res=res)
    enc_w = {}
    for p in runs_f.inv:
        if p.outcome != 'return':
            continue
        ft, pt, vk = partition(p)
        v = p.value
        w = 0
        if isinstance(v, SeqV) and v.segs and isinstance(v.segs[0], Num) and v.segs[0].val is not None and ft != 'FIXED':
            w = v.segs[0].minw
        elif ft != 'FIXED':
            w = '?'
        enc_w.setdefault(ft, set()).add(w)
    dec_w = {}
    if 'field' in du.units:
        uf = du.units['field']
        for p in uf.runs.inv:
            if p.outcome != 'return':
                continue
            e = p.interp.user['entry']
            ft = p.interp.py_key(p.interp.resolve(e.items['field_type']))
            md = p.interp.user['md'].segs[0].src
            sl = [x for x in src_slices(p, md, func=uf.name) if not x[3]]
            if len(sl) >= 2:
                w = p.store.canon(sl[0][2] - sl[0][1])
                w = w.c if w.is_const() else str(w)
            else:
                w = 0
            dec_w.setdefault(ft, set()).add(w)
    want = {'FIXED': {0}, 'LLVAR': {2}, 'LLLVAR': {3}}
    ob = Ob('C01.c', 'the length-prefix width per field type is the same when writing and reading: FIXED 0, LLVAR 2, LLLVAR 3',
            func_where(prog.func(FIELD)), '_get_field_length(bit_config) on both sides')
    simple(ob, enc_w == want and dec_w == want, 'encoder and decoder widths {FIXED:0, LLVAR:2, LLLVAR:3}',
           f'encoder widths {enc_w}, decoder widths {dec_w}', {'encoder': str(enc_w), 'decoder': str(dec_w)},
           undecided=None if enc_w and dec_w else 'widths not observed')
    res.add(ob)

    # ---- C01.d type tags
    def tags_of(q):
        fi = prog.func(q)

        def entry(it):
            e = common.generic_entry(it)
            e.items['field_python_type'] = SymV('pytype', 'str')
            e.items['field_processor'] = ConstV(None)
            v = it.sym_str('value', tags=frozenset(['wire']))
            return it.call_function(fi, [v, e], {})
        runs = Runs(prog, entry, res=res)
        tags, dfmt = set(), set()
        for p in runs.inv:
            for kind, truth, data in p.facts:
                if kind == 'sym-eq' and data['sym'].name == 'pytype':
                    tags.add(data['const'])
            for e in p.events:
                if e.kind == 'method' and e.data['name'] == 'get' and e.under(fi.short) and e.data['args']:
                    k = p.interp.py_key(e.data['args'][0])
                    if k == 'field_date_format':
                        d = p.interp.py_key(e.data['args'][1]) if len(e.data['args']) > 1 else None
                        dfmt.add(d)
        return tags, dfmt
    t_enc, f_enc = tags_of('iso8583._pytype_to_string')
    t_dec, f_dec = tags_of('iso8583._string_to_pytype')
    cfg = prog.config_literal()['bit_config']
    used = {v.get('field_python_type') for v in cfg.values() if v.get('field_python_type')} - {'string'}
    ob = Ob('C01.d', 'both directions dispatch on the same python type tags (incl. every tag the configuration uses) and share the date format key/default',
            func_where(prog.func('iso8583._string_to_pytype')), "field_python_type in ('int', 'long') / 'decimal' / 'datetime'")
    ok = t_enc == t_dec and t_enc >= (DOC_TAGS | used) and f_enc == f_dec and len(f_enc) == 1
    simple(ob, ok, f'tags {sorted(t_enc)} on both sides; date format default {sorted(map(str, f_enc))}',
           f'encoder handles {sorted(map(str, t_enc))} (date default {sorted(map(str, f_enc))}), decoder handles {sorted(map(str, t_dec))} '
           f'(date default {sorted(map(str, f_dec))}); required {sorted(DOC_TAGS | used)}',
           {'encoder': str(sorted(map(str, t_enc))), 'decoder': str(sorted(map(str, t_dec)))},
           undecided=None if t_enc and t_dec and (f_enc or not f_dec) and (f_dec or not f_enc) else
           'the type dispatch or the date format look-up of one direction was not observed')
    res.add(ob)

    # ---- C01.d the public entry points work with the configuration, encoding and bitmap rendering their caller gives them
    # (both directions: what dumps writes under a custom configuration, loads must read under the same one)
    for pub, inner in (('iso8583.dumps', 'iso8583._dict_to_iso8583'), ('iso8583.loads', 'iso8583._iso8583_to_dict')):
        if not (prog.has_func(pub) and prog.has_func(inner)):
            continue
        pfi_, ifi_ = prog.func(pub), prog.func(inner)

        def inner_cap(it, fi_, args, kwargs, node, self_obj):
            names = [a.arg for a in fi_.node.args.args]
            b = dict(zip(names, args))
            b.update({k: v for k, v in kwargs.items() if k != '**'})
            it.user.setdefault('inner', []).append(b)
            return it.sym_bytes('encoded') if 'dict_to' in fi_.name else DictV(open_=True, desc='message')

        def entry_pub(it, pfi_=pfi_):
            cfg = common.generic_bit_config(it)
            it.binds[('dict', cfg.id)] = True        # a configuration that is given (non-empty)
            enc, hb = codec(it), SymV('hex_bitmap', 'bool')
            arg = DictV(open_=True, desc='message') if pfi_.name == 'dumps' else it.sym_bytes('message')
            it.user.update(cfg=cfg, enc=enc, hb=hb)
            return it.call_function(pfi_, [arg], {'encoding': enc, 'iso_config': cfg, 'hex_bitmap': hb})
        runs_pub = Runs(prog, entry_pub, summaries={ifi_.short: inner_cap}, res=res)
        seen_pub = {'n': 0}

        def chk_pub(p, mode, pfi_=pfi_, ifi_=ifi_):
            if p.outcome != 'return':
                return []
            calls = p.interp.user.get('inner', [])
            if not calls:
                return [soft(f'{pfi_.name} does not reach {ifi_.name}')]
            seen_pub['n'] += mode == 'inv'
            u = p.interp.user
            vals = [p.interp.resolve(v) for b in calls for v in b.values()]
            fails = []
            if not any(v is u['cfg'] for v in vals):
                fails.append(definite(f'{pfi_.name} does not hand the field configuration given by its caller to {ifi_.name}: the message '
                                      f'is encoded / decoded with another configuration (the packaged one) whatever the caller passes',
                                      firm=True))
            if not any(v is u['enc'] for v in vals):
                fails.append(definite(f'{pfi_.name} does not hand the encoding given by its caller to {ifi_.name}', firm=True))
            if not any(v is u['hb'] for v in vals):
                fails.append(definite(f'{pfi_.name} does not hand the hex_bitmap option given by its caller to {ifi_.name}', firm=True))
            return fails
        from ..decide import require_instances
        res.add(require_instances(
            runs_pub.judge('C01.d', f'{pfi_.name} passes the configuration, encoding and bitmap rendering given by its caller on to '
                                    f'{ifi_.name}', func_where(pfi_), f'{ifi_.name}(obj, iso_config, encoding, hex_bitmap)', chk_pub,
                           rule=f'C01.d.options.{pfi_.name}', unknown_ok=benign_unknown),
            seen_pub['n'], f'a call of {ifi_.name} from {pfi_.name}'))

    # ---- C01.e processors
    procs = set()
    if 'field' in du.units:
        fi = du.units['field'].fi

        def entry_p(it):
            e = common.generic_entry(it)
            e.items['field_processor'] = SymV('proc', 'str')
            e.items['field_python_type'] = ConstV(None)
            md = it.sym_bytes('message_data', tags=frozenset(['wire']))
            return it.call_function(fi, [it.sym_int('bit', 2, 127), e, md, codec(it)], {})
        runs_p = Runs(prog, entry_p, summaries=du.leaf_summaries, hooks=common.HOOKS, res=res)
        for p in runs_p.inv:
            for kind, truth, data in p.facts:
                if kind == 'sym-eq' and data['sym'].name == 'proc':
                    procs.add(data['const'])
    used_p = {v.get('field_processor') for v in cfg.values() if v.get('field_processor')}
    enc_pds = set()
    for p in runs_e.inv:
        for kind, truth, data in p.facts:
            if kind in ('sym-eq', 'sym-eq-nofork') and data['sym'].name.endswith('.field_processor'):
                enc_pds.add(data['const'])
    ob = Ob('C01.e', 'every documented / configured field processor is handled by the decoder; the encoder selects carriers by the same PDS tag',
            func_where(prog.func('iso8583._iso8583_to_field')), "field_processor == 'PAN' | 'PAN-PREFIX' | 'ICC' | 'PDS' | 'DE43'")
    need = DOC_PROCS | used_p
    simple(ob, procs >= need and enc_pds == {'PDS'}, f'decoder handles {sorted(procs)}; encoder carrier tag {sorted(enc_pds)}',
           f'decoder handles {sorted(map(str, procs))}, required {sorted(need)}; encoder carrier tag {sorted(enc_pds)}',
           {'missing': str(sorted(need - procs)), 'encoder_tag': str(sorted(enc_pds))},
           undecided=None if procs else 'no processor dispatch observed')
    res.add(ob)

    # ---- C01.f bit order
    endians = []
    for runs in (runs_e, du.loads):
        for p in runs.inv:
            for e in p.events:
                if e.kind == 'enter' and e.data['callee'].startswith('BitArray.BitArray.') and e.data['callee'].split('.')[-1] in ('tolist', 'fromlist'):
                    so = e.data['self_obj']
                    if isinstance(so, ObjV):
                        v = so.fields.get('endian')
                        v = p.interp.resolve(v) if v is not None else None
                        endians.append(p.interp.py_key(v) if v is not None else 'class default')
    if prog.has_func('mciipm.bitmap_check'):
        mfi = prog.func('mciipm.bitmap_check')

        def entry_m(it):
            return it.call_function(mfi, [it.sym_bytes('bitmap', lo=16, hi=16)], {})
        for p in Runs(prog, entry_m, res=res).inv:
            for e in p.events:
                if e.kind == 'enter' and e.data['callee'] == 'BitArray.BitArray.tolist':
                    v = e.data['self_obj'].fields.get('endian')
                    endians.append(p.interp.py_key(p.interp.resolve(v)) if v is not None else 'class default')
    ob = Ob('C01.f', 'every bit array used by the codec and by the inspector is big-endian (MSB first)', 'cardutil/BitArray.py:BitArray.BitArray.__init__',
            "BitArray(endian='big')")
    simple(ob, bool(endians) and set(endians) == {'big'}, f'{len(endians)} bit-array uses, all endian=big',
           f'bit arrays with endianness {sorted(set(map(str, endians)))} are used by the codec', {'endians': str(sorted(set(map(str, endians))))},
           undecided=None if endians else 'no BitArray use observed')
    res.add(ob)

    # ---- C01.f bit order inside BitArray: MSB-first text of the whole byte string, in list order
    bci = prog.cls('BitArray.BitArray')

    def reaches(v, src, depth=0):
        if depth > 8:
            return False
        if isinstance(v, SeqV):
            for g in v.segs:
                if isinstance(g, Sl) and g.src is src:
                    return True
                if isinstance(g, Opq):
                    d = g.desc
                    parts = list(d[1:]) if isinstance(d, tuple) else []
                    parts += list(g.deps)
                    if any(reaches(x, src, depth + 1) for x in parts):
                        return True
                if isinstance(g, Num) and g.val is None and g.vdesc is not None and reaches(g.vdesc, src, depth + 1):
                    return True
        if isinstance(v, ListV):
            return reaches(getattr(v, 'src', None), src, depth + 1) or reaches(v.elem, src, depth + 1)
        if isinstance(v, IntV):
            return False
        return False

    def entry_tl(it):
        obj = it.instantiate(bci, [], {}, None)
        b = it.sym_bytes('bitmap', lo=16, hi=16)
        it.user['b'] = b
        it.call_function(bci.lookup('frombytes')[1], [b], {}, self_obj=obj)
        return it.call_function(bci.lookup('tolist')[1], [], {}, self_obj=obj)
    runs_tl = Runs(prog, entry_tl, res=res)

    def chk_tl(p, mode):
        if p.outcome != 'return':
            return [definite(f'tolist raises {p.value!r}')] if p.outcome == 'raise' else []
        v = p.value
        it = p.interp
        bsrc = it.user['b'].segs[0].src
        if not (isinstance(v, ListV) and v.len is not None and p.store.decide_eq0(v.len - 128) is True):
            return [definite(f'tolist of a 16-byte bitmap yields {v!r}, not 128 flags')]
        src = getattr(v, 'src', None)
        if isinstance(src, SeqV) and len(src.segs) == 1 and isinstance(src.segs[0], Opq) and isinstance(src.segs[0].desc, tuple) \
                and src.segs[0].desc[0] == 'reversed':
            return [definite('the binary digits are reversed before they become flags (bit n and bit 129-n are swapped)')]
        if isinstance(src, IterV) and getattr(src, 'desc', '') == 'reversed' and isinstance(src.src, RangeV) or isinstance(src, RangeV):
            # shift-and-mask form: [bool(value >> position & 1) for position in reversed(range(width))]
            rng = src.src if isinstance(src, IterV) else src
            fails = []
            if isinstance(src, RangeV):
                fails.append(definite('bits are taken from the least significant end first (positions ascend): bit n and bit 129-n are swapped'))
            if not (p.store.decide_eq0(Lin.of(rng.lo)) is True and p.store.decide_eq0(Lin.of(rng.hi) - 128) is True):
                fails.append(definite(f'bit positions range over {rng!r}, not 0..127'))
            shifts = [e for e in p.events if e.kind == 'ext-call' and e.data['callee'] == 'bool' and e.under('BitArray.BitArray.tolist')]
            ok = False
            for e in shifts:
                x = e.data['args'][0] if e.data['args'] else None
                o1 = getattr(x, 'origin', None)
                if o1 and o1[0] == 'BitAnd':
                    y = o1[1] if isinstance(o1[2], IntV) and p.store.canon(o1[2].lin) == Lin.const(1) else o1[2]
                    o2 = getattr(y, 'origin', None)
                    if o2 and o2[0] == 'RShift' and isinstance(o2[1], IntV) and o2[1].lin.syms():
                        o3 = it.origin.get(o2[1].lin.syms()[0])
                        if o3 and o3[0] == 'int' and o3[2] == 16 and reaches(o3[1], bsrc):
                            ok = True
            if not ok:
                fails.append(soft('flags are not (value >> position) & 1 of the big-endian integer value of the bytes'))
            return fails
        if not (isinstance(src, SeqV) and len(src.segs) == 1 and isinstance(src.segs[0], Num)):
            return [soft(f'bit list is not built from the binary numeral of the bytes: {src!r}')]
        n = src.segs[0]
        fails = []
        if n.base != 2 or n.fill != '0' or p.store.decide_eq0(n.width - 128) is not True:
            fails.append(definite(f'bit text is {n!r}, not the zero-filled 128-digit binary numeral'))
        o = it.origin.get(n.val.syms()[0]) if n.val is not None and n.val.syms() else None
        if not (o and o[0] == 'int' and o[2] == 16 and reaches(o[1], bsrc)):
            fails.append(definite('the binary numeral is not the big-endian integer value of the bitmap bytes (int(hexlify(bytes), 16))'))
        elif isinstance(o[1], SeqV) and any(isinstance(g, Opq) and isinstance(g.desc, tuple) and g.desc[0] == 'reversed' for g in o[1].segs):
            fails.append(definite('the bytes are reversed before conversion'))
        if getattr(v, 'desc', '') != 'listcomp' or getattr(v, 'filtered', False):
            fails.append(definite('the flags are not one per binary digit in order'))
        return fails
    res.add(runs_tl.judge('C01.f', 'BitArray.tolist yields the bits of the byte string MSB first, in order', func_where(bci.lookup('tolist')[1]),
                          "'{:0{width}b}'.format(int(hexlify(bytes), 16))", chk_tl, rule='C01.f.tolist'))

    def entry_fl(it):
        obj = it.instantiate(bci, [], {}, None)
        lst = ListV(items=[ConstV(True)] + [SymV(f'flag{i}', 'bool') for i in range(127)])
        it.user['lst'] = lst
        it.call_function(bci.lookup('fromlist')[1], [lst], {}, self_obj=obj)
        return it.call_function(bci.lookup('tobytes')[1], [], {}, self_obj=obj)
    runs_fl = Runs(prog, entry_fl, res=res)

    def chk_fl(p, mode):
        if p.outcome != 'return':
            return [definite(f'fromlist raises {p.value!r}')] if p.outcome == 'raise' else []
        v = p.value
        it = p.interp
        if not (isinstance(v, SeqV) and v.kind == 'bytes' and p.store.decide_eq0(v.length() - 16) is True):
            return [definite(f'128 flags pack into {v!r}, not 16 bytes')]
        g = v.segs[0] if len(v.segs) == 1 else None
        if not (isinstance(g, Opq) and isinstance(g.desc, tuple) and g.desc[0] == 'to_bytes'):
            return [soft(f'packed bitmap has an unexpected shape: {v!r}')]
        fails = []
        if g.desc[2] != 'big':
            fails.append(definite(f'bits are packed {g.desc[2]!r}-endian, not big-endian'))
        x = g.desc[1]
        o = it.origin.get(x.lin.syms()[0]) if isinstance(x, IntV) and x.lin.syms() else None
        ok = o and o[0] == 'int' and o[2] == 2 and isinstance(o[1], SeqV) and len(o[1].segs) == 1 and isinstance(o[1].segs[0], Opq) \
            and isinstance(o[1].segs[0].desc, tuple) and o[1].segs[0].desc[0] == 'join-bits'
        if not ok:
            fails.append(soft('packed value is not int(<0/1 text of the list>, 2)'))
        else:
            lv = o[1].segs[0].desc[1]
            if not (isinstance(lv, (ListV, IterV)) and getattr(lv, 'src', None) is it.user['lst'] and not getattr(lv, 'filtered', False)
                    and getattr(lv, 'desc', '') in ('listcomp', 'genexp')):
                fails.append(definite('the 0/1 text is not built from the flag list in order'))
        return fails
    res.add(runs_fl.judge('C01.f', 'BitArray.fromlist packs the flags MSB first into big-endian bytes', func_where(bci.lookup('fromlist')[1]),
                          "int(binary_value, 2).to_bytes(len(binary_value) // 8, byteorder='big')", chk_fl, rule='C01.f.fromlist'))

    # ---- C01.h element round trip at descriptor level
    res.add(element_roundtrip_ob(prog, res, du))

    # ---- C01.i dates are decoded by the inverse of the call that rendered them
    for ob in date_inverse_obs(prog, res):
        res.add(ob)

    # ---- C01.g codec flow
    bad = []
    n_codec = 0
    all_runs = [runs_f, du.loads] + [u.runs for u in du.units.values()]
    for runs in all_runs:
        for p in runs.inv:
            for e in p.evs('codec'):
                n_codec += 1
                c = e.data['codec']
                v = e.data['value']
                wire_or_value = isinstance(v, SeqV) and not _ascii_internal(v)
                if wire_or_value and not (isinstance(c, SymV) and c.name == 'encoding'):
                    bad.append((prog.loc(e.node), repr(c)))
    ob = Ob('C01.g', 'every encode/decode of message text uses the encoding chosen by the caller', func_where(prog.func(FIELD)),
            '.encode(encoding) / .decode(encoding)')
    simple(ob, not bad, f'{n_codec} codec operations on abstract paths, all with the encoding parameter',
           f'message text is converted with a fixed codec at {sorted(set(bad))[:3]}', {'sites': str(sorted(set(bad))[:3])},
           undecided=None if n_codec else 'no codec operation observed')
    res.add(ob)

    # defaults of loads / dumps agree
    defaults = {}
    for q, inner in (('iso8583.loads', 'iso8583._iso8583_to_dict'), ('iso8583.dumps', 'iso8583._dict_to_iso8583')):
        fi = prog.func(q)
        got = []

        def cap(it, fi_, args, kwargs, node, self_obj, got=got):
            names = [a.arg for a in fi_.node.args.args]
            b = dict(zip(names, args))
            b.update(kwargs)
            got.append(it.py_key(it.resolve(b.get('encoding'))) if b.get('encoding') is not None else None)
            return DictV() if 'to_dict' in fi_.name else it.sym_bytes('out')

        def entry_q(it, fi=fi):
            arg = it.sym_bytes('b') if 'loads' in fi.name else DictV(open_=True)
            return it.call_function(fi, [arg], {})
        list(Runs(prog, entry_q, summaries={inner: cap}, res=res).inv)
        defaults[q] = set(got)
    ob = Ob('C01.g', 'loads and dumps fall back to the same default encoding', func_where(prog.func('iso8583.loads')), 'DEFAULT_ENCODING',
            rule='C01.g.default')
    vals = list(defaults.values())
    simple(ob, len(vals) == 2 and vals[0] == vals[1] and len(vals[0]) == 1 and None not in vals[0],
           f'default encoding {sorted(map(str, vals[0]))} on both sides', f'default encodings differ: {defaults}',
           {'defaults': str(defaults)}, undecided=None if all(vals) else 'default encoding not observed')
    res.add(ob)


def _ascii_internal(v):
    from ..ext import _ascii_only
    return _ascii_only(v)


def element_roundtrip_ob(prog, res, du):
    """decode(encode(v)) is v, shown on descriptors: the encoder's abstract output (prefix numeral ++ payload) is handed,
    followed by arbitrary further bytes, to the element decoder on the same abstract path."""
    enc = prog.func(FIELD)
    dec = prog.func('iso8583._iso8583_to_field')

    def entry(it):
        e = common.generic_entry(it)
        kind = it.choose(3, 'value kind')
        if kind in (0, None):
            v = it.sym_str('value')
        elif kind == 1:
            v = it.sym_bytes('value')
            e.items['field_processor'] = SymV(f'{e.entry_name}.field_processor', 'str', choices=('ICC',))
            e.items['field_python_type'] = ConstV(None)
        else:
            v = it.sym_int('value', 0, None)
            e.items['field_python_type'] = SymV(f'{e.entry_name}.field_python_type', 'str', choices=('int', 'long'))
            e.items['field_processor'] = ConstV(None)
        codec_ = codec(it)
        it.user.update(entry=e, value=v, vkind=('str', 'bytes', 'int')[kind or 0])
        out = it.call_function(enc, [e, v], {'encoding': codec_})
        it.user['out'] = out
        # well-formed values only: fixed text exactly as wide as the field, numbers that fit
        ft = it.py_key(it.resolve(e.items['field_type']))
        fl = e.items['field_length'].lin
        if ft == 'FIXED' and isinstance(v, SeqV):
            it.store.assume_eq0(v.length() - fl)
        tail = it.sym_bytes('following_elements', tags=frozenset(['wire']))
        from .. import seqops as _s
        md = _s.concat(it, out, tail) if isinstance(out, SeqV) else out
        it.user['md_len'] = out.length() if isinstance(out, SeqV) else None
        return it.call_function(dec, [it.sym_int('bit', 2, 127), e, md, codec_], {})
    runs = Runs(prog, entry, summaries=du.leaf_summaries, hooks=common.HOOKS, res=res)

    def chk(p, mode):
        it = p.interp
        st = p.store
        e = it.user['entry']
        proc = it.py_key(it.resolve(e.items['field_processor']))
        pt = it.py_key(it.resolve(e.items['field_python_type']))
        vk = it.user['vkind']
        ft = it.py_key(it.resolve(e.items['field_type']))
        v = it.user['value']
        out = it.user.get('out')
        if proc in ('PAN', 'PAN-PREFIX') or pt in ('decimal', 'datetime'):
            return []          # masked on purpose / value-level conversions not decided
        if vk == 'str' and pt in ('int', 'long'):
            return []          # text cells of numeric fields: int(text) is a value-level conversion
        if not isinstance(out, SeqV):
            return []
        if vk == 'int':
            # only numbers that fit their field: the numeral is not truncated
            if any(isinstance(g, Opq) and isinstance(g.desc, tuple) and g.desc[0] == 'numpart' for g in out.segs):
                return []
        if vk == 'bytes' and ft == 'FIXED':
            trial = st.decide_eq0(v.length() - e.items['field_length'].lin)
            if trial is not True:
                return []
        if p.outcome == 'raise':
            exc = p.value
            if exc.raise_node is not None and it.prog.node_owner.get(id(exc.raise_node)) is not None and \
                    it.prog.node_owner[id(exc.raise_node)].short == FIELD:
                return []      # the encoder refused the value (over-length): nothing to decode
            if exc.op is None and getattr(exc, 'unit', None) is None:
                return [definite(f'the element decoder rejects what the encoder produced for a well-formed {ft}/{pt or "text"}/{vk} value: '
                                 f'{norm_text(exc.raise_node)[:90] if exc.raise_node is not None else exc!r}')]
            return []
        if p.outcome != 'return':
            return []
        r = p.value
        if not (isinstance(r, TupleV) and len(r.items) == 2 and isinstance(r.items[0], DictV) and isinstance(r.items[1], IntV)):
            return [soft('decoder result has an unexpected shape')]
        fails = need_eq0(st, r.items[1].lin - it.user['md_len'],
                         f'{ft}/{pt or "text"}/{vk}: the decoder consumes {st.canon(r.items[1].lin)} bytes of an element that was '
                         f'encoded in {st.canon(it.user["md_len"])} bytes')
        vals = [x for k, x in r.items[0].sym_stores if isinstance(k, SeqV) and k.segs and isinstance(k.segs[0], Lit)
                and k.segs[0].data.startswith('DE')]
        if not vals:
            return fails + [definite('no element value is returned')]
        got = it.resolve(vals[-1])
        if vk == 'int':
            if not (isinstance(got, IntV) and st.decide_eq0(got.lin - v.lin) is True):
                fails.append(definite(f'{ft}/{pt}: the number {v!r} comes back as {got!r}'))
        else:
            same = isinstance(got, SeqV) and len(got.segs) <= 1 and (
                (not got.segs and st.decide_eq0(v.length()) is True) or
                (got.segs and isinstance(got.segs[0], Sl) and got.segs[0].src is v.segs[0].src and st.decide_eq0(got.segs[0].lo) is True
                 and st.decide_eq0(got.segs[0].hi - v.length()) is True))
            if not same:
                fails.append(definite(f'{ft}/{pt or "text"}/{vk}: the value comes back as {got!r}, not as the value that was encoded'))
            elif vk == 'bytes' and got.kind != 'bytes':
                fails.append(definite('a binary value comes back as text'))
        return fails
    return runs.judge('C01.h', 'element round trip on descriptors: decoding the encoder\'s output returns the encoded text / bytes / number '
                               'and consumes exactly the bytes that were produced (all lengths, any single-byte codec)',
                      f'{enc.module.path}:{enc.short}', '_iso8583_to_field(_field_to_iso8583(value))', chk,
                      sample=lambda ps: [f"{it_.user['vkind']}: {it_.user.get('out')!r} -> {p_.value!r}"[:260]
                                         for p_ in ps for it_ in [p_.interp] if p_.outcome == 'return'][:4])


def date_inverse_obs(prog, res):
    """format(value, fmt) on the way out, datetime.strptime(field, fmt) on the way in: the decoder must hand the whole field
    and the configured format to strptime, or build a datetime whose year covers the whole two-digit-year window."""
    from ..avals import lit as _lit
    fi = prog.func('iso8583._string_to_pytype')
    cfg = prog.config_literal()['bit_config']
    fmts = sorted({v.get('field_date_format') for v in cfg.values() if v.get('field_date_format')} |
                  {'%y%m%d', '%y%m%d%H%M%S'})
    obs = []
    for fmt in fmts + [None]:
        def entry(it, fmt=fmt):
            e = DictV(desc='bit_config entry')
            e.items['field_type'] = _lit('FIXED')
            e.items['field_python_type'] = _lit('datetime')
            if fmt is None:
                fv = it.sym_str('field_date_format', lo=2)
                v = it.sym_str('field_data', lo=1, tags=frozenset(['wire']))
            else:
                fv = _lit(fmt)
                import datetime as _dt
                n = len(_dt.datetime(2001, 2, 3, 4, 5, 6).strftime(fmt))
                v = it.sym_str('field_data', lo=n, hi=n, charset='digits', tags=frozenset(['wire']))
            e.items['field_date_format'] = fv
            e.items['field_length'] = IntV(v.length())
            it.user.update(fmt=fv, value=v)
            return it.call_function(fi, [v, e], {})
        runs = Runs(prog, entry, res=res)

        def chk(p, mode, fmt=fmt):
            if p.outcome != 'return':
                return []
            it = p.interp
            r = it.resolve(p.value)
            u = it.user
            org = getattr(r, 'origin', None)
            if isinstance(r, SymV) and isinstance(org, tuple) and org and org[0] == 'strptime':
                a = [it.resolve(x) for x in org[1]]
                whole = len(a) >= 1 and isinstance(a[0], SeqV) and len(a[0].segs) == 1 and isinstance(a[0].segs[0], Sl) and \
                    a[0].segs[0].src is u['value'].segs[0].src and p.store.decide_eq0(a[0].segs[0].lo) is True and \
                    p.store.decide_eq0(a[0].segs[0].hi - u['value'].length()) is True
                same_fmt = len(a) >= 2 and (a[1] is u['fmt'] or (isinstance(a[1], SeqV) and isinstance(u['fmt'], SeqV) and
                                                             repr(a[1]) == repr(u['fmt'])))
                fails = []
                if not whole:
                    fails.append(definite(f'strptime parses {a[0]!r}, not the whole field'))
                if not same_fmt:
                    fails.append(definite(f'strptime parses with {a[1] if len(a) > 1 else None!r}, not the configured date format'))
                return fails
            if isinstance(r, SymV) and isinstance(org, tuple) and org and org[0] == 'datetime-ctor':
                args = org[1]
                yr = it.resolve(args[0]) if args else it.resolve(org[2].get('year'))
                if isinstance(yr, IntV) and fmt is not None and '%y' in fmt:
                    lo, hi = p.store.bounds(yr.lin)
                    if (lo is not None and lo > 1969) or (hi is not None and hi < 2068):
                        return [definite(f'the datetime is built with a year in [{lo}, {hi}]: a two-digit year is the rendering of '
                                         f'1969..2068 (strftime/strptime %y), so years outside [{lo}, {hi}] do not come back')]
                return [soft('a datetime is constructed by hand: the inverse of strftime is not established')]
            return [soft(f'a datetime element is decoded to {r!r}, not to the result of datetime.strptime(field, format)')]
        obs.append(runs.judge('C01.i', f'datetime elements ({fmt or "any configured format"}) are decoded by strptime of the whole field '
                                       f'with the configured format, the inverse of the format() that rendered them',
                              func_where(fi), 'datetime.datetime.strptime(field_data, field_date_format)', chk,
                              rule=f'C01.i.{fmt or "generic"}'))
    return obs
