"""C15 - Luhn: enforcement survives -O, validate/add algebra, purity (the arithmetic itself is not decided)."""
from __future__ import annotations

import ast

from ..lin import Lin
from ..avals import *   # noqa
from ..decide import Runs, need_ge0, need_eq0, definite, soft
from ..report import Ob, PROVED, REFUTED, UNDECIDED, func_where, ASSUMPTIONS, Failure
from ..model import norm_text
from .. import seqops

CALC = 'card.calculate_check_digit'


def luhn_summary(it, fi, args, kwargs, node, self_obj):
    arg = it.resolve(args[0]) if args else UnkV('missing')
    return seqops.opaque(it, 'str', 1, ('luhn', arg), deps=(arg,))


def is_luhn_of(v, pred):
    return isinstance(v, SeqV) and len(v.segs) == 1 and isinstance(v.segs[0], Opq) and isinstance(v.segs[0].desc, tuple) \
        and v.segs[0].desc[0] == 'luhn' and pred(v.segs[0].desc[1])


def check(prog, res, tier):
    res.assumptions = [ASSUMPTIONS['A4']]
    res.explanation = (
        'validate_check_digit is interpreted twice, normally and with every assert statement removed (what python -O '
        'compiles): in both, every normal return must be dominated by the outcome "recomputed digit == supplied digit". '
        'calculate_check_digit is shown to return exactly one character and to be pure; add_check_digit returns x ++ '
        'calc(x); hence validate(add(x)) compares calc(x) with itself.  The arithmetic is decided on a closed form: the digit '
        'list is an indexed family over a symbolic length, loops and sums are summarised to  sum_{i<count} body(i),  each '
        'summation is mapped onto the canonical digit index j by a known bijection (identity, reversal, stride-2 slices), and '
        'the per-digit contribution is compared with the Luhn table for every parity of (j, n, number of separator '
        'characters) and every digit value; the final mapping is compared on the 10 residues of the total.')
    vfi = prog.func('card.validate_check_digit')
    cfi = prog.func(CALC)
    afi = prog.func('card.add_check_digit')
    summ = {CALC: luhn_summary}

    def entry_v(it):
        s = it.sym_str('card_number', lo=2, charset='digits')
        it.user['s'] = s
        return it.call_function(vfi, [s], {})

    def validated(p, want=True):
        """a fact on the path: luhn(s[0:n-1]) == s[n-1:n] holds"""
        s = p.interp.user['s']
        src = s.segs[0].src
        n = src.length
        st = p.store

        def body(x):
            return isinstance(x, SeqV) and len(x.segs) == 1 and isinstance(x.segs[0], Sl) and x.segs[0].src is src and \
                st.decide_eq0(x.segs[0].lo) is True and st.decide_eq0(x.segs[0].hi - n + 1) is True

        def last(x):
            return isinstance(x, SeqV) and len(x.segs) == 1 and isinstance(x.segs[0], Sl) and x.segs[0].src is src and \
                st.decide_eq0(x.segs[0].lo - n + 1) is True and st.decide_eq0(x.segs[0].hi - n) is True
        for kind, truth, data in p.facts:
            if kind == 'seq-eq' and truth is want:
                a, b = data['a'], data['b']
                if (is_luhn_of(a, body) and last(b)) or (is_luhn_of(b, body) and last(a)):
                    return True
        return False

    for drop, oid, title in ((False, 'C15.a', 'validation accepts a number only when the recomputed digit equals the supplied one'),
                             (True, 'C15.a', 'validation still rejects under python -O (assert statements removed)')):
        runs = Runs(prog, entry_v, summaries=summ, res=res, drop_asserts=drop)

        def chk(p, mode, drop=drop):
            if p.outcome == 'return' and not validated(p):
                dropped = [e for e in p.events if e.kind == 'assert-dropped']
                why = ' - the only rejecting edge is an assert statement, which -O removes' if dropped else ''
                return [definite('validate_check_digit returns normally without the digit comparison having succeeded' + why,
                                 dropped[0].node if dropped else None)]
            if p.outcome == 'raise' and validated(p):
                return [definite('a number whose check digit matches is rejected')]
            if p.outcome == 'raise' and not validated(p, want=False):
                # a digit string (two digits or more) is refused although its check digit was never found to differ: among the
                # numbers refused on this path are some whose digit is right (what add_check_digit produces for them)
                exc = p.value
                return [definite('validate_check_digit refuses a digit string on a path on which the recomputed digit was not found '
                                 'to differ from the supplied one: numbers with a correct check digit are rejected',
                                 getattr(exc, 'raise_node', None) or exc.node)]
            return []
        ob = runs.judge(oid, title, func_where(vfi), 'calculate_check_digit(card_number[0:-1]) == card_number[-1]', chk,
                        rule=f'C15.a.{"O" if drop else "normal"}')
        res.add(ob)

    # ---- C15.b algebra
    def entry_c(it):
        s = it.sym_str('card_number', lo=0)
        return it.call_function(cfi, [s], {})
    runs_c = Runs(prog, entry_c, res=res)

    def chk_len(p, mode):
        if p.outcome != 'return':
            return [definite(f'calculate_check_digit raises {p.value!r}')] if p.outcome == 'raise' else []
        v = p.value
        if not (isinstance(v, SeqV) and v.kind == 'str'):
            return [definite(f'calculate_check_digit returns {v!r}, not a string')]
        return need_eq0(p.store, v.length() - 1, f'check digit has length {p.store.canon(v.length())} in '
                                                 f'{p.store.bounds(v.length())}, not exactly one character')
    ob_len = runs_c.judge('C15.b', 'calculate_check_digit returns exactly one character', func_where(cfi),
                          'return str(total * 9 % 10)', chk_len, rule='C15.b.len',
                          sample=lambda ps: [repr(p.value) for p in ps][:2])
    ob_arith = luhn_arithmetic_ob(prog, res, cfi)
    if ob_len.verdict == UNDECIDED and ob_arith.verdict == PROVED:
        # the closed form equals the Luhn digit (0..9) for every argument: its decimal rendering has one character
        ob_len.verdict = PROVED
        ob_len.detail = 'follows from C15.d: the result is str(d) with d the Luhn digit, 0 <= d <= 9 (' + ob_len.detail[:120] + ')'
    res.add(ob_len)

    def entry_a(it):
        s = it.sym_str('card_number', lo=0)
        it.user['s'] = s
        return it.call_function(afi, [s], {})
    runs_a = Runs(prog, entry_a, summaries=summ, res=res)

    def chk_add(p, mode):
        if p.outcome != 'return':
            return [definite('add_check_digit raises')] if p.outcome == 'raise' else []
        v = p.value
        s = p.interp.user['s']
        src = s.segs[0].src

        def whole(x):
            return isinstance(x, SeqV) and len(x.segs) == 1 and isinstance(x.segs[0], Sl) and x.segs[0].src is src and \
                p.store.decide_eq0(x.segs[0].lo) is True and p.store.decide_eq0(x.segs[0].hi - src.length) is True
        ok = isinstance(v, SeqV) and len(v.segs) == 2 and whole(SeqV('str', v.segs[:1])) and \
            is_luhn_of(SeqV('str', v.segs[1:]), whole)
        # empty input: s ++ luhn(s) with s empty
        if isinstance(v, SeqV) and len(v.segs) == 1 and p.store.decide_eq0(src.length) is True:
            ok = is_luhn_of(v, lambda x: True)
        return [] if ok else [definite(f'add_check_digit returns {v!r}, not the input followed by its check digit')]
    res.add(runs_a.judge('C15.b', 'add_check_digit returns x ++ calculate_check_digit(x), so validating it compares the digit with itself',
                         func_where(afi), 'return card_number + calculate_check_digit(card_number)', chk_add, rule='C15.b.add'))

    # ---- C15.d the arithmetic: closed form of the digit fold against the Luhn table
    res.add(ob_arith)

    # ---- C15.c purity
    def chk_pure(p, mode):
        fails = []
        for e in p.events:
            if e.kind in ('global-write', 'class-attr-write', 'mutate-shared', 'write', 'read', 'open', 'print', 'global-decl'):
                fails.append(definite(f'calculate_check_digit has a side effect / reads external state: {e.kind}', e.node))
        return fails
    ob = runs_c.judge('C15.c', 'calculate_check_digit is a pure function of its argument', func_where(cfi),
                      'calculate_check_digit', chk_pure)
    # syntactic: no module-level mutable state is read
    names = {n.id for n in ast.walk(cfi.node) if isinstance(n, ast.Name) and isinstance(n.ctx, ast.Load)}
    free = []
    params = {a.arg for a in cfi.node.args.args}
    assigned = {n.id for n in ast.walk(cfi.node) if isinstance(n, ast.Name) and isinstance(n.ctx, ast.Store)}
    for nm in sorted(names - params - assigned):
        r = prog.resolve_name(cfi.module, nm)
        if r is not None and r[0] == 'const' and isinstance(r[1], (ast.List, ast.Dict, ast.Set, ast.ListComp, ast.DictComp, ast.SetComp, ast.Call)):
            if isinstance(r[1], ast.Call) and isinstance(r[1].func, ast.Name) and r[1].func.id in (
                    'tuple', 'frozenset', 'range', 'int', 'str', 'bytes', 'partial', 'methodcaller', 'itemgetter', 'attrgetter'):
                continue
            if isinstance(r[1], ast.Call) and ast.unparse(r[1].func) in ('functools.partial', 'operator.methodcaller',
                                                                         'operator.itemgetter', 'operator.attrgetter', 're.compile'):
                continue      # immutable callables / compiled patterns
            free.append(nm)
    if ob.verdict == UNDECIDED and ob_arith.abstract and not free:
        # the fold evaluator derived a closed form over (n, k, D): its fragment has no effects and reads nothing but the argument
        ob.verdict = PROVED
        ob.detail = 'the result has a closed form in the digits of the argument (fold fragment: no effects, no external reads)'
    if free and ob.verdict == PROVED:
        ob.verdict, ob.detail = UNDECIDED, f'reads module-level values {free}'
    res.add(ob)


def luhn_arithmetic_ob(prog, res, cfi):
    from .. import fold
    ob = Ob('C15.d', 'the computed digit is the Luhn digit: every digit is weighted 2,1,2,... from the right, products '
                     'are reduced to their digit sum, and the result completes the total to a multiple of 10',
            func_where(cfi), 'sum(divmod(multiplier * digit, 10)) for digit, multiplier in zip(digits[::-1], cycle([2, 1]))',
            rule='C15.d.fold')
    v, info = fold.analyse_check_digit(prog, cfi)
    ob.abstract = info.get('closed_form')
    ob.detail = v.detail
    if v.status == 'proved':
        ob.verdict = PROVED
    elif v.status == 'refuted':
        ob.verdict = REFUTED
        ob.witness = v.witness
        ob.detail = (f'{v.detail}; calculate_check_digit({v.witness["card_number"]!r}) is {v.witness["computed"]} by its closed '
                     f'form, the Luhn digit is {v.witness["luhn"]}')
    else:
        ob.verdict = UNDECIDED
    res.count(evaluations=(v.facts or {}).get('cells', 0))
    return ob
