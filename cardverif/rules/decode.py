"""Decode-side analysis units shared by C07, C08, C09, C10, C12, C16."""
from __future__ import annotations

from ..lin import Lin
from ..avals import *   # noqa
from ..avals import value_tags
from ..units import Unit
from ..decide import Runs
from . import common

WIRE = frozenset(['wire'])


def codec(it, name='encoding'):
    v = SymV(name, 'codec', tags=frozenset([f'param:{name}']))
    it.binds[('truth', name)] = True
    return v


def open_dict(it, desc, tags=frozenset()):
    d = DictV(open_=True, desc=desc, tags=tags)
    d.default = lambda it2, key, node, strict: SymV(it2.fresh(f'{desc}[..]'), 'any', tags=tags)
    return d


class DecodeUnits:
    def __init__(self, prog, res=None):
        self.prog = prog
        self.res = res
        self.units = {}
        if prog.has_func('iso8583._pds_to_dict'):
            self.units['pds'] = Unit(
                prog, 'iso8583._pds_to_dict',
                make_args=lambda it: ([it.sym_str('field_data', tags=WIRE)], {}, None),
                make_ret=lambda it, a, k, f: open_dict(it, 'pds fields', value_tags(a[0]) if a else frozenset()),
                arg_ok=lambda it, a, k: len(a) == 1 and isinstance(it.resolve(a[0]), SeqV) and it.resolve(a[0]).kind == 'str',
                res=res)
        if prog.has_func('iso8583._icc_to_dict'):
            self.units['icc'] = Unit(
                prog, 'iso8583._icc_to_dict',
                make_args=lambda it: ([it.sym_bytes('field_data', tags=WIRE)], {}, None),
                make_ret=lambda it, a, k, f: open_dict(it, 'icc fields', value_tags(a[0]) if a else frozenset()),
                arg_ok=lambda it, a, k: len(a) == 1 and isinstance(it.resolve(a[0]), SeqV) and it.resolve(a[0]).kind == 'bytes',
                res=res)
        if prog.has_func('iso8583._get_de43_fields'):
            self.units['de43'] = Unit(
                prog, 'iso8583._get_de43_fields',
                make_args=lambda it: ([it.sym_str('de43_field', tags=WIRE), SymV('processor_config', 'any')], {}, None),
                make_ret=lambda it, a, k, f: open_dict(it, 'de43 fields', value_tags(a[0]) if a else frozenset()),
                arg_ok=lambda it, a, k: len(a) >= 1 and isinstance(it.resolve(a[0]), SeqV) and it.resolve(a[0]).kind == 'str',
                res=res)
        leaf = {u.name: u.summary() for u in self.units.values()}
        self.leaf_summaries = leaf
        if prog.has_func('iso8583._iso8583_to_field'):
            def field_args(it):
                bit = it.sym_int('bit', 2, 127)
                entry = common.generic_entry(it)
                md = it.sym_bytes('message_data', tags=WIRE)
                it.user['md'] = md
                it.user['entry'] = entry
                return [bit, entry, md, codec(it)], {}, None

            def field_ret(it, a, k, facts):
                inc = it.fresh('increment')
                it.store.declare(inc, 0 if facts.get('inc_nonneg') else None, None,
                                 info='cursor increment returned by _iso8583_to_field')
                tags = value_tags(a[2]) if len(a) > 2 else frozenset()
                return TupleV([open_dict(it, 'field values', tags), IntV(Lin.sym(inc), tags)])

            def field_facts(unit):
                ok = True
                for p in unit.runs.inv:
                    if p.outcome != 'return':
                        continue
                    v = p.value
                    if not (isinstance(v, TupleV) and len(v.items) == 2 and isinstance(v.items[1], IntV)
                            and p.store.prove_ge0(v.items[1].lin)):
                        ok = False
                return {'inc_nonneg': ok}

            def field_ok(it, a, k):
                return len(a) >= 3 and isinstance(it.resolve(a[2]), SeqV) and it.resolve(a[2]).kind == 'bytes' \
                    and isinstance(it.resolve(a[1]), DictV)
            self.units['field'] = Unit(prog, 'iso8583._iso8583_to_field', field_args, field_ret, arg_ok=field_ok,
                                       summaries=leaf, hooks=common.HOOKS, res=res, ret_facts=field_facts)
        self.loads_summaries = dict(leaf)
        if 'field' in self.units:
            self.loads_summaries[self.units['field'].name] = self.units['field'].summary()
        self._loads = None

    def loads_entry(self, it):
        b = it.sym_bytes('message', tags=WIRE)
        it.user['message'] = b
        cfg = common.generic_bit_config(it)
        hb = SymV('hex_bitmap', 'bool')
        fi = self.prog.func('iso8583.loads')
        return it.call_function(fi, [b], {'encoding': codec(it), 'iso_config': cfg, 'hex_bitmap': hb})

    @property
    def loads(self):
        if self._loads is None:
            self._loads = Runs(self.prog, self.loads_entry, raise_ops=True, summaries=self.loads_summaries,
                               hooks=common.HOOKS, res=self.res, label='loads')
        return self._loads

    def loads_unit(self):
        """loads as a unit for the IPM reader."""
        def ret(it, a, k, f):
            return open_dict(it, 'message', value_tags(a[0]) if a else frozenset())
        u = Unit(self.prog, 'iso8583.loads',
                 make_args=lambda it: ([it.sym_bytes('message', tags=WIRE)],
                                       {'encoding': codec(it), 'iso_config': common.generic_bit_config(it),
                                        'hex_bitmap': SymV('hex_bitmap', 'bool')}, None),
                 make_ret=ret, summaries=self.loads_summaries, hooks=common.HOOKS, res=self.res)
        return u
