"""C03 - VBS framing: format agreement, writer emission, reader extraction, length classification, wrappers."""
from __future__ import annotations

import ast
import struct

from ..lin import Lin, Infeasible
from ..avals import *   # noqa
from ..decide import require_instances, benign_unknown, Runs, need_ge0, need_eq0, definite, soft, iterations
from ..report import Ob, PROVED, REFUTED, UNDECIDED, func_where, ASSUMPTIONS, Failure
from ..model import norm_text, AnalysisError
from ..units import exc_key
from .. import seqops
from . import vbs, common
from .vbs import read_request as _read_request, ReaderRuns, reader_reads, same_seq, MLIB, STOP, VNEXT, unpacked_length, max_len, length_codecs, packed_u32_value

WRITE = 'mciipm.VbsWriter.write'
CLOSE = 'mciipm.VbsWriter.close'


def make_writer(it, prog, cls='mciipm.VbsWriter', blocked=False, extra=None):
    ci = prog.cls(cls)
    f = it.new_file('out')
    kw = dict(extra or {})
    kw['blocked'] = ConstV(blocked) if blocked is not None else SymV('blocked', 'bool')
    obj = it.instantiate(ci, [f], kw, None)
    it.user.update(file=f, writer=obj)
    return obj, f


def sink_writes(p, f):
    """bytes handed to the underlying sink of the writer, in order (either the file itself or the blocker)"""
    out = []
    for e in p.events:
        if e.kind == 'write' and e.data['file'] is f and not any(s.startswith('mciipm.Block1014') for s in e.stack):
            out.append((e, e.data['data']))
        elif e.kind == 'enter' and e.data['callee'] == 'mciipm.Block1014.write':
            out.append((e, e.data['args'][0] if e.data['args'] else None))
    return out


def check(prog, res, tier):
    res.assumptions = [ASSUMPTIONS['A3'], ASSUMPTIONS['A4']]
    res.explanation = (
        'Sibling agreement of the struct formats and sizes used by VbsWriter.write/close, VbsReader.__next__ and '
        'ipm_info; abstract interpretation of the writer (what is handed to the sink, in which order) and of the reader '
        '(the unpacked prefix drives the next read; the record returned is exactly that read; length classification '
        '0 / 1..MAX / >MAX decided from the path constraints).')
    wfi = prog.func(WRITE)
    cfi = prog.func(CLOSE)
    rci = prog.cls('mciipm.VbsReader')
    nfi = rci.lookup('__next__')[1]
    MAX = max_len(prog)

    # ---------------- C03.a format agreement (formats observed on the abstract paths of the four siblings)
    def formats_of(runs, fname):
        out = set()
        for p in runs.inv:
            out |= length_codecs(p, fname)
        return out

    def entry_w0(it):
        obj, f = make_writer(it, prog, blocked=False)
        it.call_function(wfi, [it.sym_bytes('record', lo=1, hi=MAX)], {}, self_obj=obj)
        it.call_function(cfi, [], {}, self_obj=obj)
        return obj
    runs_w0 = Runs(prog, entry_w0, res=res)
    rr0 = ReaderRuns(prog, res)
    fmts = {WRITE: formats_of(runs_w0, WRITE), CLOSE: formats_of(runs_w0, CLOSE),
            VNEXT: formats_of(rr0.runs('mciipm.VbsReader', False), VNEXT)}
    if prog.has_func('mciipm.ipm_info'):
        ifi0 = prog.func('mciipm.ipm_info')

        def entry_i0(it):
            return it.call_function(ifi0, [it.new_file('in', tags=frozenset(['wire']))], {})
        fmts['mciipm.ipm_info'] = formats_of(Runs(prog, entry_i0, res=res), 'mciipm.ipm_info')
    ob = Ob('C03.a', 'writer, terminator, reader and inspector use the same 4-byte big-endian unsigned length format',
            func_where(wfi), 'struct.pack/unpack format constants')
    allf = sorted({f for fl in fmts.values() for f in fl})
    missing = [q for q in (WRITE, CLOSE, VNEXT) if not fmts.get(q)]
    if missing:
        ob.verdict, ob.detail = UNDECIDED, f'no length-prefix codec observed in {missing}'
    elif allf != ['be-u32']:
        ob.verdict, ob.detail, ob.witness = REFUTED, f'length prefix codecs differ / are not big-endian unsigned 4 bytes: { {k: sorted(v) for k, v in fmts.items()} }', {'codecs': allf}
    else:
        ob.verdict, ob.detail = PROVED, f'{len(fmts)} siblings all use a 4-byte big-endian unsigned length'
    res.add(ob)

    # ---------------- C03.b writer emission
    for bl in (False, True):
        def entry_w(it, bl=bl):
            obj, f = make_writer(it, prog, blocked=bl)
            rec = it.sym_bytes('record', lo=1, hi=MAX)
            it.user['record'] = rec
            it.call_function(wfi, [rec], {}, self_obj=obj)
            return obj
        runs_w = Runs(prog, entry_w, res=res)

        def chk_b(p, mode):
            if p.outcome != 'return':
                return [definite('write() raises')] if p.outcome == 'raise' else []
            sw = sink_writes(p, p.interp.user['file'])
            rec = p.interp.user['record']
            if len(sw) != 2:
                # allow a single write of prefix ++ record
                if len(sw) == 1 and isinstance(sw[0][1], SeqV) and len(sw[0][1].segs) == 2:
                    d = sw[0][1]
                    sw = [(sw[0][0], SeqV('bytes', d.segs[:1])), (sw[0][0], SeqV('bytes', d.segs[1:]))]
                else:
                    return [definite(f'write() hands {len(sw)} pieces to the sink, expected prefix then record')]
            (e1, d1), (e2, d2) = sw
            fails = []
            pv = packed_u32_value(d1)
            if pv is None:
                fails.append(definite(f'first piece is not a 4-byte big-endian packed length: {d1!r}', e1.node))
            elif p.store.decide_eq0(pv.lin - rec.length()) is not True:
                fails.append(definite(f'packed value is {pv!r}, not len(record)', e1.node))
            if not same_seq(p, d2, rec):
                fails.append(definite(f'second piece is {d2!r}, not the record itself', e2.node))
            return fails
        res.add(runs_w.judge('C03.b', f'VbsWriter.write ({"blocked" if bl else "unblocked"}) hands pack(fmt, len(record)) then '
                                      f'the unmodified record to its sink', func_where(wfi),
                             'self.out_file.write(record_length_raw); self.out_file.write(record)', chk_b,
                             rule=f'C03.b.{"blocked" if bl else "vbs"}'))

    # ---------------- C03.b write_many: every record of the iterable is handed to write(), one by one and in order
    wci_ = prog.cls('mciipm.VbsWriter')
    mres = wci_.lookup('write_many')
    if mres and mres[0] == 'method':
        mfi_ = mres[1]

        def write_cap(it, fi_, args, kwargs, node, self_obj):
            it.user.setdefault('written', []).append((it.seqno, it.resolve(args[0]) if args else None))
            it.seqno += 1
            return ConstV(None)

        def entry_many(it):
            obj, f = make_writer(it, prog, blocked=False)
            recs = IterV(it.sym_bytes('record', lo=1, hi=MAX), desc='records')
            it.user['recs'] = recs
            it.call_function(mfi_, [recs], {}, self_obj=obj)
            return obj
        runs_many = Runs(prog, entry_many, summaries={wfi.short: write_cap}, res=res)
        seen_many = {'n': 0}

        def chk_many(p, mode):
            fails = []
            direct = sink_writes(p, p.interp.user['file'])
            if direct:
                # write_many talks to the sink itself (batching ...): the order and the framing of what it writes are not
                # followed record by record
                fails.append(soft('write_many writes to the sink itself instead of going through write() for every record'))
            for first, last, s0, s1, head in iterations(p, func=mfi_.short):
                li = [e for e in p.events if e.kind == 'loop-iter' and e.node is head.node and first <= e.seq < last]
                if not li:
                    continue
                elem = p.interp.resolve(li[-1].data.get('elem'))
                mine = [v for sq, v in p.interp.user.get('written', []) if first < sq <= last]
                seen_many['n'] += mode == 'inv'
                if len(mine) != 1 or mine[0] is not elem:
                    fails.append(definite(f'an iteration of write_many hands {len(mine)} records to write(), not exactly the record it took '
                                          f'from the iterable', head.node) if not direct else
                                 soft('a record taken from the iterable is not handed to write() in the same iteration'))
            return fails
        res.add(require_instances(
            runs_many.judge('C03.b', 'VbsWriter.write_many hands every record of the iterable to write(), one per iteration, in order',
                            func_where(mfi_), 'for record in iterable: self.write(record)', chk_many, rule='C03.b.many'),
            seen_many['n'], 'a loop of write_many over the iterable'))

    def entry_c(it):
        obj, f = make_writer(it, prog, blocked=False)
        it.call_function(cfi, [], {}, self_obj=obj)
        return obj
    runs_c = Runs(prog, entry_c, res=res)

    def chk_close(p, mode):
        sw = sink_writes(p, p.interp.user['file'])
        if not sw:
            return [definite('close() writes no terminator')]
        d = sw[0][1]
        pv = packed_u32_value(d)
        ok = pv is not None and p.store.decide_eq0(pv.lin) is True
        ok = ok or (isinstance(d, SeqV) and d.is_lit() and d.lit_value() == b'\x00\x00\x00\x00')
        return [] if ok else [definite(f'terminator is {d!r}, not a packed zero length', sw[0][0].node)]
    res.add(runs_c.judge('C03.b', 'VbsWriter.close emits the zero-length terminator', func_where(cfi),
                         "self.out_file.write(struct.pack('>I', 0))", chk_close, rule='C03.b.close'))

    # ---------------- C03.c / C03.d reader
    rr = ReaderRuns(prog, res)
    for bl in (False, True):
        tag = 'blocked' if bl else 'vbs'
        runs = rr.runs('mciipm.VbsReader', bl)

        def chk_c(p, mode):
            if p.outcome != 'return':
                return []
            reads = reader_reads(p)
            u, ue = unpacked_length(p)
            fails = []
            if len(reads) != 2 or u is None:
                return [soft('expected a prefix read and a record read')]
            (e1, d1, s1), (e2, d2, s2) = reads
            # prefix read size == calcsize
            n1 = d1.length()
            fails += need_eq0(p.store, n1 - 4, f'prefix read returned {p.store.canon(n1)} bytes on an accepted record')
            # unpacked int drives the record read
            req = _read_request(p, e2)
            if req is None or p.store.decide_eq0(req - u.lin) is not True:
                obj_ = p.interp.user.get('reader')
                kept = [e for e in p.events if e.kind == 'setattr' and e.seq > e2.seq and e.data.get('obj') is obj_
                        and e.data.get('attr') not in ('last_record', 'record_number') and isinstance(e.data.get('value'), SeqV)
                        and e.data['value'].kind == 'bytes']       # (possibly the empty rest of a short read)
                if kept:
                    # the surplus of a larger read is kept on the reader for the next call: a read-ahead design
                    from .vbs import NOT_DIRECT
                    return [soft(NOT_DIRECT, e2.node)]
                fails.append(definite(f'record read size is {req}, not the unpacked prefix {u.lin}', e2.node))
            # returned value is the record read, complete
            if not same_seq(p, p.value, d2):
                fails.append(definite(f'returned record {p.value!r} is not the bytes just read {d2!r}'))
            fails += need_eq0(p.store, d2.length() - u.lin, 'a record shorter than its declared length is returned')
            return fails
        res.add(runs.judge('C03.c', f'VbsReader.__next__ ({tag}): the unpacked prefix is the size of the next read and the '
                                    f'complete read is returned unmodified', func_where(nfi), 'record = self.vbs_data.read(record_length)',
                           chk_c, rule=f'C03.c.{tag}'))

        def chk_d(p, mode):
            u, ue = unpacked_length(p)
            st = p.store
            fails = []
            if u is None:
                return []
            if p.outcome == 'return':
                fails += need_ge0(st, u.lin - 1, 'a zero-length record is returned instead of ending the iteration')
                fails += need_ge0(st, Lin.const(MAX) - u.lin, f'a record longer than the configured maximum {MAX} is accepted')
            elif p.outcome == 'raise':
                k = exc_key(p.value.cls)
                node = p.value.raise_node
                if k == STOP:
                    # after a complete prefix, only a zero length ends the iteration
                    trial = st.copy()
                    try:
                        trial.assume_ge0(u.lin - 1)
                        fails.append(Failure('iteration ends although a non-zero length prefix was read completely',
                                             node=node, neg=[[u.lin - 1]]))
                    except Infeasible:
                        pass
                elif k == MLIB:
                    reads = reader_reads(p)
                    if len(reads) < 2:
                        # rejected on the length alone: must be above the maximum
                        trial = st.copy()
                        try:
                            trial.assume_ge0(u.lin - 1)
                            trial.assume_ge0(Lin.const(MAX) - u.lin)
                            fails.append(Failure(f'a record length within 1..{MAX} is rejected', node=node,
                                                 neg=[[u.lin - 1, Lin.const(MAX) - u.lin]]))
                        except Infeasible:
                            pass
            return fails
        res.add(runs.judge('C03.d', f'VbsReader.__next__ ({tag}): length 0 ends the file, 1..{MAX} is accepted, above is the '
                                    f'library error', func_where(nfi),
                           'if record_length < 0 or record_length > MAX: raise ...; if record_length == 0: raise StopIteration',
                           chk_d, rule=f'C03.d.{tag}'))

    # MAX comes from the configuration key with default 6000
    ob = Ob('C03.d', 'maximum record length is read from configuration key MAX_VBS_RECORD_LENGTH (default 6000)',
            func_where(nfi), "config.config.get('MAX_VBS_RECORD_LENGTH', 6000)")
    found = []
    for p in rr.runs('mciipm.VbsReader', False).inv:
        for e in p.events:
            if e.kind == 'method' and e.data['name'] == 'get' and e.under(VNEXT) and e.data['args'] and \
                    p.interp.py_key(e.data['args'][0]) == 'MAX_VBS_RECORD_LENGTH':
                d = p.interp.py_key(e.data['args'][1]) if len(e.data['args']) > 1 else None
                found.append(d)
    early = []
    if not found:
        # looked up somewhere else?  at construction time is as good; in a parameter default it happens once, at import
        for p in rr.runs('mciipm.VbsReader', False).inv:
            for e in p.events:
                if e.kind == 'method' and e.data['name'] == 'get' and e.data['args'] and \
                        p.interp.py_key(e.data['args'][0]) == 'MAX_VBS_RECORD_LENGTH':
                    early.append((bool(e.data.get('def_time')), p.interp.py_key(e.data['args'][1]) if len(e.data['args']) > 1 else None, e))
    if not found and any(dt for dt, _d, _e in early):
        ob.verdict = REFUTED
        ob.detail = ('the maximum record length is looked up in a parameter default, i.e. once when the module is imported: a '
                     'maximum configured afterwards is ignored by every reader')
        ob.witness = {'lookup': 'def-time'}
    elif not found and early and all(d == 6000 for _dt, d, _e in early):
        ob.verdict, ob.detail = PROVED, f'looked up when the reader is constructed, default 6000 ({len(early)} path visits)'
    elif not found:
        ob.verdict, ob.detail = UNDECIDED, 'configuration lookup not observed'
    elif any(d != 6000 for d in found):
        ob.verdict, ob.detail, ob.witness = REFUTED, f'default maximum is {sorted(set(map(str, found)))}, not 6000', {'defaults': sorted(set(map(str, found)))}
    else:
        ob.verdict, ob.detail = PROVED, f'lookup with default 6000 on {len(found)} path visits'
    res.add(ob)

    # ---------------- C03.e wrapper pairing
    def wrap_ob(cls, field, wrapper, title):
        ci = prog.cls(cls)
        ifi = ci.lookup('__init__')[1]

        def entry(it):
            f = it.new_file('f')
            b = SymV('blocked', 'bool')
            obj = it.instantiate(ci, [f], {'blocked': b}, None)
            it.user.update(file=f, obj=obj)
            return obj
        runs = Runs(prog, entry, res=res)

        def chk(p, mode):
            if p.outcome != 'return':
                return [definite('constructor raises')] if p.outcome == 'raise' else []
            obj = p.interp.user['obj']
            v = obj.fields.get(field)
            bl = p.binds.get(('truth', 'blocked'))
            if bl:
                if not (isinstance(v, ObjV) and v.cls.qualname.endswith(wrapper) and v.fields.get('file_obj') is p.interp.user['file']):
                    return [definite(f'blocked=True does not wrap the file in {wrapper}: {field}={v!r}')]
            else:
                if v is not p.interp.user['file']:
                    return [definite(f'blocked=False does not use the file directly: {field}={v!r}')]
            return []
        return runs.judge('C03.e', title, func_where(ifi), f'self.{field} = {wrapper}(...)', chk, rule=f'C03.e.{cls}')
    res.add(wrap_ob('mciipm.VbsWriter', 'out_file', 'Block1014', 'VbsWriter(blocked=True) writes through Block1014, otherwise directly'))
    res.add(wrap_ob('mciipm.VbsReader', 'vbs_data', 'Unblock1014', 'VbsReader(blocked=True) reads through Unblock1014, otherwise directly'))

    from .tools import io_summaries
    from .c19 import ctor_of
    for q, target in (('mciipm.vbs_list_to_bytes', 'VbsWriter'), ('mciipm.vbs_bytes_to_list', 'VbsReader')):
        if not prog.has_func(q):
            continue
        fi = prog.func(q)

        def entry_k(it, fi=fi):
            bl = SymV('blocked_option', 'bool')
            it.user['bl'] = bl
            arg = ListV(items=None, elem=it.sym_bytes('rec', lo=1), length=it.sym_int('n', 0, None).lin) if 'list_to' in fi.name \
                else it.sym_bytes('vbs_bytes')
            return it.call_function(fi, [arg], {'blocked': bl})
        runs_k = Runs(prog, entry_k, summaries=io_summaries(prog), res=res)

        def chk_k(p, mode, target=target, fi=fi):
            if p.outcome == 'loopback':
                return []
            c = ctor_of(p.interp, target)
            if not c:
                return [definite(f'{target} is not constructed')]
            b = c[0][1]
            got = b.get('blocked')
            if got is None and isinstance(b.get('**'), DictV):
                got = b['**'].items.get('blocked')
            if got is not p.interp.user['bl']:
                if ('truth', 'blocked_option') in p.interp.binds:
                    # the function looks at the option itself (and may do the blocking on its own): a different design
                    return [soft(f'{fi.name} tests the blocked option itself and constructs {target} with blocked={got!r}: what it does '
                                 f'instead is outside the model of this rule')]
                return [definite(f'{target} is constructed without the caller\'s options (blocked=... is lost)')]
            return []
        res.add(runs_k.judge('C03.e', f'{fi.name} passes its keyword options through to {target}', func_where(fi),
                             f'{target}(..., **kwargs)', chk_k, rule=f'C03.e.{fi.name}', unknown_ok=benign_unknown))

        def entry_k0(it, fi=fi):
            arg = ListV(items=None, elem=it.sym_bytes('rec', lo=1), length=it.sym_int('n', 0, None).lin) if 'list_to' in fi.name \
                else it.sym_bytes('vbs_bytes')
            it.user['mark'] = it.seqno
            return it.call_function(fi, [arg], {})
        runs_k0 = Runs(prog, entry_k0, summaries=io_summaries(prog), res=res)

        def chk_k0(p, mode, target=target):
            if p.outcome == 'loopback':
                return []
            c = ctor_of(p.interp, target)
            if not c:
                return [definite(f'{target} is not constructed')]
            o, b = c[0]
            fails = []
            got = b.get('blocked')
            if got is None and isinstance(b.get('**'), DictV):
                got = b['**'].items.get('blocked')
            if got is not None:
                g = p.interp.resolve(got)
                if not (isinstance(g, ConstV) and g.value is False):
                    fails.append(definite(f'without options {target} is constructed with blocked={got!r}: plain VBS data may be treated as 1014 blocked'))
            f = b.get('out_file', b.get('vbs_file'))
            if not isinstance(f, FileV) or 'global' in f.tags:
                fails.append(definite(f'{target} works on {f!r}, not on a file object created for this call (state would leak between calls)'))
            else:
                opened = [e for e in p.evs('open') if e.data['file'] is f and e.seq > p.interp.user['mark']]
                if not opened:
                    fails.append(definite('the in-memory file is not created inside the call'))
            return fails
        res.add(runs_k0.judge('C03.e', f'{fi.name} without options works unblocked on a fresh in-memory file', func_where(fi),
                              f'{target}(io.BytesIO(...))', chk_k0, rule=f'C03.e.{fi.name}.default', unknown_ok=benign_unknown))

