"""Analyses of the VBS reader / writer shared by C03, C09 and C10."""
from __future__ import annotations

import ast

from ..lin import Lin, Infeasible
from ..avals import *   # noqa
from ..avals import value_tags
from .. import seqops
from ..decide import Runs, need_ge0, need_eq0, definite, soft
from ..report import Ob, PROVED, REFUTED, UNDECIDED, func_where, Failure
from ..model import norm_text, AnalysisError
from ..units import exc_key, exc_name
from .decode import DecodeUnits, codec, WIRE
from . import common, readers

MLIB = 'cardutil.mciipm.MciIpmDataError'
STOP = 'builtins.StopIteration'
VNEXT = 'mciipm.VbsReader.__next__'


class ReaderRuns:
    """Abstract paths of <Reader>.__next__ for the k-th record (k symbolic), blocked or not."""

    def __init__(self, prog, res, du=None):
        self.prog = prog
        self.res = res
        self.du = du or DecodeUnits(prog, res)
        self._runs = {}
        self._loads_unit = None

    def loads_unit(self):
        if self._loads_unit is None:
            self._loads_unit = self.du.loads_unit()
        return self._loads_unit

    def runs(self, cls, blocked, raise_ops=False):
        key = (cls, blocked, raise_ops)
        if key in self._runs:
            return self._runs[key]
        prog = self.prog
        summ = {}
        if cls == 'mciipm.IpmReader':
            lu = self.loads_unit()
            summ[lu.name] = lu.summary()

        def entry(it):
            kw = {}
            if cls == 'mciipm.IpmReader':
                kw = {'encoding': codec(it), 'iso_config': common.generic_bit_config(it)}
            obj, f = readers.make_vbs_reader(it, prog, cls, blocked=blocked, extra_kwargs=kw)
            vd = obj.fields.get('vbs_data')
            if isinstance(vd, ObjV):
                common.set_state(it, vd, 'buffer', it.sym_bytes('buffered', tags=WIRE))
                it.user['unblocker'] = vd
            r = obj.cls.lookup('__next__')
            it.user['events0'] = len(it.events)
            return it.call_function(r[1], [], {}, self_obj=obj)
        r = Runs(prog, entry, raise_ops=raise_ops, summaries=summ, hooks=common.HOOKS, res=self.res)
        self._runs[key] = r
        return r


def reader_reads(p):
    """Results of the read calls issued by VbsReader.__next__ on its data source, in order."""
    out = []
    for e in p.events:
        if e.kind == 'read' and e.under(VNEXT):
            out.append((e, e.data['data'], e.data['size']))
        elif e.kind == 'leave' and e.data['callee'] == 'mciipm.Unblock1014.read' and len(e.stack) >= 2 and e.stack[-2] == VNEXT:
            out.append((e, e.data['result'], None))
    return out


def concat_all(it, seqs):
    out = SeqV('bytes', ())
    for s in seqs:
        if not isinstance(s, SeqV):
            return None
        out = seqops.concat(it, out, s)
    return out


def same_seq(p, a, b):
    if not (isinstance(a, SeqV) and isinstance(b, SeqV)):
        return False
    it = p.interp
    a = seqops.normalise(it, a.kind, a.segs)
    b = seqops.normalise(it, b.kind, b.segs)
    return seqops.seq_eq_structural(it, a, b) is True


def unpacked_length(p):
    """The integer unpacked from the record prefix (IntV) or None."""
    for e in p.events:
        if e.kind == 'ext-call' and e.data['callee'] == 'struct.unpack' and e.under(VNEXT):
            r = e.data['result']
            if isinstance(r, TupleV) and r.items and isinstance(r.items[0], IntV):
                return r.items[0], e
    return None, None


def max_len(prog):
    cfg = prog.config_literal()
    return cfg.get('MAX_VBS_RECORD_LENGTH', 6000)
