"""Analyses of the VBS reader / writer shared by C03, C09 and C10."""
from __future__ import annotations

import ast

from ..lin import Lin, Infeasible
from ..avals import *   # noqa
from ..avals import value_tags
from .. import seqops
from ..decide import Runs, need_ge0, need_eq0, definite, soft
from ..report import Ob, PROVED, REFUTED, UNDECIDED, func_where, Failure
from ..model import norm_text, AnalysisError
from ..units import exc_key, exc_name
from .decode import DecodeUnits, codec, WIRE
from . import common, readers

MLIB = 'cardutil.mciipm.MciIpmDataError'
STOP = 'builtins.StopIteration'
VNEXT = 'mciipm.VbsReader.__next__'


class ReaderRuns:
    """Abstract paths of <Reader>.__next__ for the k-th record (k symbolic), blocked or not."""

    def __init__(self, prog, res, du=None):
        self.prog = prog
        self.res = res
        self.du = du or DecodeUnits(prog, res)
        self._runs = {}
        self._loads_unit = None

    def loads_unit(self):
        if self._loads_unit is None:
            self._loads_unit = self.du.loads_unit()
        return self._loads_unit

    def runs(self, cls, blocked, raise_ops=False):
        key = (cls, blocked, raise_ops)
        if key in self._runs:
            return self._runs[key]
        prog = self.prog
        summ = {}
        if cls == 'mciipm.IpmReader':
            lu = self.loads_unit()
            summ[lu.name] = lu.summary()

        def entry(it):
            kw = {}
            if cls == 'mciipm.IpmReader':
                kw = {'encoding': codec(it), 'iso_config': common.generic_bit_config(it)}
            obj, f = readers.make_vbs_reader(it, prog, cls, blocked=blocked, extra_kwargs=kw)
            vd = obj.fields.get('vbs_data')
            if isinstance(vd, ObjV):
                common.set_state(it, vd, 'buffer', it.sym_bytes('buffered', tags=WIRE))
                it.user['unblocker'] = vd
            r = obj.cls.lookup('__next__')
            it.user['events0'] = len(it.events)
            return it.call_function(r[1], [], {}, self_obj=obj)
        r = Runs(prog, entry, raise_ops=raise_ops, summaries=summ, hooks=common.HOOKS, res=self.res)
        self._runs[key] = r
        return r


def reader_reads(p):
    """Results of the read calls issued by VbsReader.__next__ on its data source, in order."""
    out = []
    for e in p.events:
        if e.kind == 'read' and e.under(VNEXT):
            out.append((e, e.data['data'], e.data['size']))
        elif e.kind == 'leave' and e.data['callee'] == 'mciipm.Unblock1014.read' and len(e.stack) >= 2:
            from ..interp import ANCHORED
            outer = e.stack[:-1]
            if VNEXT in outer:
                i = len(outer) - 1 - outer[::-1].index(VNEXT)
                if all(f not in ANCHORED for f in outer[i + 1:]):
                    out.append((e, e.data['result'], None))
    return out


def read_request(p, ev):
    """size requested by the read event (direct read or Unblock1014.read call) as a Lin, or None."""
    if ev.kind == 'read':
        return Lin.of(ev.data['size']) if ev.data['size'] is not None else None
    # leave event of Unblock1014.read: find matching enter
    for e in reversed(p.events):
        if e.seq < ev.seq and e.kind == 'enter' and e.data['callee'] == 'mciipm.Unblock1014.read':
            a = e.data['args']
            if a and isinstance(a[0], IntV):
                return a[0].lin
            return None
    return None


NOT_DIRECT = ('the reader does not fetch the length prefix and the record with one read of exactly that size each (a read-ahead '
              'or buffering reader): the bytes read during a call are not the record, which is outside the model of this rule')


def direct_framing(p, reads=None):
    """The call frames its record with reads of exactly the sizes it needs: a 4-byte prefix read and then at most one read of
    the decoded length.  Rules that equate `the bytes read during this call` with `the record` only speak about such readers;
    one that reads ahead and cuts records out of a buffer carried from call to call is reported as outside the model."""
    reads = reader_reads(p) if reads is None else reads
    if not reads:
        return True
    if len(reads) > 2:
        return False
    r0 = read_request(p, reads[0][0])
    if r0 is None or p.store.decide_eq0(r0 - 4) is not True:
        return False
    if len(reads) == 2:
        u, _ue = unpacked_length(p)
        r1 = read_request(p, reads[1][0])
        if u is None or r1 is None or p.store.decide_eq0(r1 - u.lin) is not True:
            return False
    return True


def concat_all(it, seqs):
    out = SeqV('bytes', ())
    for s in seqs:
        if not isinstance(s, SeqV):
            return None
        out = seqops.concat(it, out, s)
    return out


def same_seq(p, a, b):
    if not (isinstance(a, SeqV) and isinstance(b, SeqV)):
        return False
    it = p.interp
    a = seqops.normalise(it, a.kind, a.segs)
    b = seqops.normalise(it, b.kind, b.segs)
    return seqops.seq_eq_structural(it, a, b) is True


BE_U32_FORMATS = ('>I', '!I', '>L', '!L')


def unpacked_length(p):
    """The integer decoded from the record prefix (IntV) and the decoding event, or (None, None).
    Accepts struct.unpack with a big-endian unsigned 4-byte format and int.from_bytes(prefix, 'big')."""
    for e in p.events:
        if e.kind == 'ext-call' and e.under(VNEXT):
            if e.data['callee'] == 'struct.unpack':
                r = e.data['result']
                if isinstance(r, TupleV) and r.items and isinstance(r.items[0], IntV):
                    return r.items[0], e
            if e.data['callee'] == 'int.from_bytes':
                r = e.data['result']
                if isinstance(r, IntV):
                    return r, e
    return None, None


def packed_u32_value(d):
    """If the bytes descriptor `d` is the 4-byte big-endian unsigned encoding of an integer, return that IntV."""
    if not (isinstance(d, SeqV) and len(d.segs) == 1 and isinstance(d.segs[0], Opq) and isinstance(d.segs[0].desc, tuple)):
        return None
    desc = d.segs[0].desc
    if desc[0] == 'pack' and desc[1] in BE_U32_FORMATS and len(desc[2]) == 1 and isinstance(desc[2][0], IntV):
        return desc[2][0]
    if desc[0] == 'to_bytes' and desc[2] == 'big' and isinstance(desc[1], IntV) and d.segs[0].len == Lin.const(4):
        return desc[1]
    return None


def length_codecs(p, fname):
    """Canonical names of the length-prefix codecs used below `fname` on this path."""
    out = set()
    it = p.interp
    for e in p.events:
        if e.kind != 'ext-call' and e.kind != 'method':
            continue
        if not e.under(fname):
            continue
        if e.kind == 'ext-call' and e.data['callee'] in ('struct.pack', 'struct.unpack') and e.data['args']:
            f0 = it.py_key(it.resolve(e.data['args'][0]))
            import re as _re
            # a record header unpacked in one go ('>I4s16s'): its first field is the length prefix
            first_be_u32 = isinstance(f0, (str, bytes)) and _re.fullmatch(r'[>!][IL](\d*[sxcB])+', f0 if isinstance(f0, str) else f0.decode('latin_1'))
            out.add('be-u32' if f0 in BE_U32_FORMATS or first_be_u32 else f'struct {f0!r}')
        elif e.kind == 'ext-call' and e.data['callee'] == 'int.from_bytes':
            a = e.data['args']
            order = it.py_key(a[1]) if len(a) > 1 else it.py_key(e.data['kwargs'].get('byteorder'))
            signed = e.data['kwargs'].get('signed')
            n = it.store.canon(a[0].length()) if a and isinstance(a[0], SeqV) else None
            ok = order == 'big' and n is not None and n == Lin.const(4) and not (signed is not None and it.truth(signed))
            out.add('be-u32' if ok else f'from_bytes({n}, {order!r})')
        elif e.kind == 'method' and e.data['name'] == 'to_bytes':
            a = e.data['args']
            n = it.py_key(a[0]) if a else it.py_key(e.data['kwargs'].get('length'))
            order = it.py_key(a[1]) if len(a) > 1 else it.py_key(e.data['kwargs'].get('byteorder'))
            out.add('be-u32' if (n == 4 and order == 'big') else f'to_bytes({n}, {order!r})')
    return out


def max_len(prog):
    cfg = prog.config_literal()
    return cfg.get('MAX_VBS_RECORD_LENGTH', 6000)
