"""C20 - CSV -> IPM -> CSV: tool wiring, producible columns, typed columns accept text."""
from __future__ import annotations

import ast
import re

from ..lin import Lin
from ..avals import *   # noqa
from ..decide import require_instances, benign_unknown, Runs, need_ge0, need_eq0, definite, soft, iterations
from ..report import Ob, PROVED, REFUTED, UNDECIDED, func_where, ASSUMPTIONS, Failure
from ..model import norm_text, AnalysisError
from . import common
from .. import seqops
from .tools import io_summaries, truthy
from .c19 import ctor_of

CSV_VALUE_KWARGS = {'skipinitialspace', 'quoting', 'quotechar', 'escapechar', 'delimiter', 'doublequote', 'strict', 'restval',
                    'restkey', 'dialect'}


def it_resolve(p, v):
    return p.interp.resolve(v)


CSV_DEFAULTS = {'skipinitialspace': False, 'quotechar': '"', 'escapechar': None, 'delimiter': ',', 'doublequote': True, 'strict': False,
                'restkey': None, 'dialect': 'excel'}


def csv_changes(p, kwargs, names, writer):
    """the csv options among `names` that are given a value other than their documented default"""
    out = []
    dflt = dict(CSV_DEFAULTS, restval='' if writer else None)
    for k in sorted(set(kwargs) & names):
        v = it_resolve(p, kwargs[k])
        if k in dflt:
            d = dflt[k]
            if isinstance(v, ConstV) and v.value == d and type(v.value) is type(d):
                continue
            if isinstance(v, SeqV) and v.is_lit() and isinstance(d, str) and v.lit_value() == d:
                continue
        if k == 'quoting' and 'QUOTE_MINIMAL' in repr(v):
            continue
        out.append(k)
    return out


def check(prog, res, tier):
    res.assumptions = [ASSUMPTIONS['A1'], ASSUMPTIONS['A3'], ASSUMPTIONS['A4']]
    res.explanation = (
        'Both tool functions are interpreted with the IPM classes replaced by recording summaries: blocking is derived from '
        'no1014blocking with the same polarity on both sides, the configured bit configuration and the IPM-side encoding '
        'reach the IPM object, rows are filtered only by emptiness of a cell, the CSV reader/writer are the stdlib ones with '
        'no option that alters cell values, the CSV writer is restricted to the configured column list.  Every configured '
        'output column is producible by the decoder.  Cell-value equality and CSV quoting (stdlib csv) are not decided.')
    summ = io_summaries(prog)

    def config_dict(it):
        cfg = DictV(desc='config', open_=True)
        bc = DictV(desc="config['bit_config']", open_=True)
        ode = ListV(items=None, elem=it.sym_str('column'), length=it.sym_int('ncols', 1, None).lin, desc="config['output_data_elements']")
        cfg.items.update(bit_config=bc, output_data_elements=ode)
        it.user.update(bc=bc, ode=ode)
        return cfg

    # ---- C20.a csv -> ipm
    if prog.has_func('cli.mci_csv_to_ipm.mci_csv_to_ipm'):
        fi = prog.func('cli.mci_csv_to_ipm.mci_csv_to_ipm')

        def entry(it):
            fin, fout = it.new_file('in_csv'), it.new_file('out_ipm')
            oe = truthy(it, 'out_encoding')
            nb = SymV('no1014blocking', 'bool')
            it.user.update(fin=fin, fout=fout, oe=oe, nb=nb)
            return it.call_function(fi, [], {'in_csv': fin, 'out_ipm': fout, 'config': config_dict(it), 'out_encoding': oe, 'no1014blocking': nb})
        runs = Runs(prog, entry, summaries=summ, res=res)

        def chk(p, mode):
            if p.outcome == 'loopback':
                # per row: the record written is built from the row, filtered by emptiness only
                fails = []
                for e in p.evs('comp-filter'):
                    if e.under(fi.short):
                        t = e.data['text']
                        if not re.fullmatch(r'[A-Za-z_]\w*', t):
                            fails.append(definite(f'cells are filtered by `{t}`, not only by emptiness', e.node))
                return fails
            if p.outcome != 'return':
                return [definite(f'conversion raises {p.value!r}')] if p.outcome == 'raise' else []
            it = p.interp
            u = it.user
            w = ctor_of(it, 'IpmWriter')
            if len(w) != 1:
                return [definite(f'{len(w)} writers are created')]
            wo, wb = w[0]
            fails = []
            if wb.get('file_obj') is not u['fout']:
                fails.append(definite('the IPM writer is not given the output file'))
            if wb.get('encoding') is not u['oe']:
                fails.append(definite(f'the IPM writer encodes with {wb.get("encoding")!r}, not out_encoding'))
            if wb.get('iso_config') is not u['bc']:
                fails.append(definite("the IPM writer does not use config['bit_config']"))
            nb = it.binds.get(('truth', 'no1014blocking'))
            got = it.resolve(wb.get('blocked', ConstV(False)))
            if not (isinstance(got, ConstV) and got.value is (not nb)):
                fails.append(definite(f'no1014blocking={nb} gives blocked={got!r}'))
            readers = [e for e in p.evs('ext-call') if e.data['callee'].startswith('csv.')]
            if [e.data['callee'] for e in readers] != ['csv.DictReader']:
                fails.append(definite(f'rows are not read with csv.DictReader: {[e.data["callee"] for e in readers]}'))
            for e in readers:
                if not e.data['args'] or e.data['args'][0] is not u['fin']:
                    fails.append(definite('the CSV reader is not given the input file', e.node))
                extra = csv_changes(p, e.data['kwargs'], CSV_VALUE_KWARGS, False)
                if extra or len(e.data['args']) > 1:
                    fails.append(definite(f'the CSV reader is configured with {extra or "positional options"}, which changes how cell '
                                          f'values are read (e.g. leading spaces, quoting)', e.node))
            if wo not in u.get('closed', []):
                fails.append(definite('the writer is not finalised'))
            return fails
        res.add(runs.judge('C20.a', 'mci_csv_to_ipm: plain csv.DictReader on the input, rows filtered by emptiness only, IpmWriter gets the '
                                    'output file, out_encoding, config bit_config and blocked = not no1014blocking; finalised',
                           func_where(fi), 'IpmWriter(out_ipm, encoding=out_encoding, blocked=blocked, iso_config=...) / DictReader(in_csv)',
                           chk, rule='C20.a.csv_to_ipm', unknown_ok=benign_unknown))

        seen_w = {'n': 0}

        def chk_rows(p, mode):
            """every row is written: one write per loop iteration, with the dict built from that row"""
            fails = []
            for first, last, s0, s1, head in iterations(p, func=fi.short):
                ws = [w for w in p.interp.user.get('writes', [])]
                li = [e for e in p.events if e.kind == 'loop-iter' and e.node is head.node and first <= e.seq < last]
                if not li:
                    continue
                n = len([e for e in p.events if e.kind == 'call' and e.data.get('summary') and e.data['callee'].endswith('Writer.write')
                         and first < e.seq < last])
                seen_w['n'] += mode == 'inv'
                if n != 1:
                    fails.append(definite(f'{n} records are written per CSV row', head.node))
            if p.interp.user.get('write_many'):
                seen_w['n'] += mode == 'inv'
            # what is written for a cell is the cell itself: a value derived from it (strip, upper, replace, a slice ...) does
            # not come back as it was given
            recs = [w[1] for w in p.interp.user.get('writes', [])]
            for w in p.interp.user.get('write_many', []):
                r = it_resolve(p, w[1])
                recs.append(getattr(r, 'elem', None) if isinstance(r, (IterV, ListV)) else None)
            for rec in recs:
                rec = it_resolve(p, rec) if rec is not None else None
                comp = getattr(rec, 'comp', None)
                if not (isinstance(rec, DictV) and comp is not None and isinstance(comp[0], TupleV) and len(comp[0].items) == 2):
                    continue
                val = it_resolve(p, comp[0].items[1])
                o = getattr(val, 'origin', None)
                if isinstance(o, tuple) and o and o[0] == 'method' and len(o) >= 3 and o[2] in (
                        'strip', 'lstrip', 'rstrip', 'upper', 'lower', 'title', 'replace', 'zfill', 'ljust', 'rjust', 'casefold', 'capitalize'):
                    fails.append(definite(f'the value written for a CSV cell is cell.{o[2]}(...), not the cell: blanks (or case) that are '
                                          f'data do not come back', firm=True))
            return fails
        res.add(require_instances(
            runs.judge('C20.a', 'mci_csv_to_ipm writes exactly one record per CSV row', func_where(fi), 'for row in reader: writer.write(record)',
                       chk_rows, rule='C20.a.rows', unknown_ok=benign_unknown),
            seen_w['n'], 'a loop over the CSV rows that writes records (or a write_many of the rows)'))

    # ---- C20.a ipm -> csv
    if prog.has_func('cli.mci_ipm_to_csv.mci_ipm_to_csv'):
        fi2 = prog.func('cli.mci_ipm_to_csv.mci_ipm_to_csv')
        dfi = prog.func('cli.mci_ipm_to_csv.dicts_to_csv')

        def entry2(it):
            fin, fout = it.new_file('in_ipm'), it.new_file('out_csv')
            ie = truthy(it, 'in_encoding')
            nb = SymV('no1014blocking', 'bool')
            it.user.update(fin=fin, fout=fout, ie=ie, nb=nb)
            return it.call_function(fi2, [], {'in_ipm': fin, 'out_csv': fout, 'config': config_dict(it), 'in_encoding': ie, 'no1014blocking': nb})
        runs2 = Runs(prog, entry2, summaries=summ, res=res)

        def chk2(p, mode):
            if p.outcome == 'loopback':
                return []
            if p.outcome != 'return':
                return [definite(f'conversion raises {p.value!r}')] if p.outcome == 'raise' else []
            it = p.interp
            u = it.user
            r = ctor_of(it, 'IpmReader')
            if len(r) != 1:
                return [definite(f'{len(r)} readers are created')]
            ro, rb = r[0]
            fails = []
            if rb.get('ipm_file') is not u['fin']:
                fails.append(definite('the IPM reader is not given the input file'))
            if rb.get('encoding') is not u['ie']:
                fails.append(definite(f'the IPM reader decodes with {rb.get("encoding")!r}, not in_encoding'))
            if rb.get('iso_config') is not u['bc']:
                fails.append(definite("the IPM reader does not use config['bit_config']"))
            nb = it.binds.get(('truth', 'no1014blocking'))
            got = it.resolve(rb.get('blocked', ConstV(False)))
            if not (isinstance(got, ConstV) and got.value is (not nb)):
                fails.append(definite(f'no1014blocking={nb} gives blocked={got!r}'))
            ws = [e for e in p.evs('ext-call') if e.data['callee'] == 'csv.DictWriter']
            if len(ws) != 1:
                fails.append(definite(f'{len(ws)} csv.DictWriter objects are created'))
            for e in ws:
                if not e.data['args'] or e.data['args'][0] is not u['fout']:
                    fails.append(definite('the CSV writer is not given the output file', e.node))
                fn = e.data['kwargs'].get('fieldnames', e.data['args'][1] if len(e.data['args']) > 1 else None)
                if fn is not u['ode']:
                    fails.append(definite("the CSV columns are not config['output_data_elements']", e.node))
                extra = csv_changes(p, e.data['kwargs'], CSV_VALUE_KWARGS - {'dialect'}, True)
                if extra:
                    fails.append(definite(f'the CSV writer is configured with {extra}, which changes how cell values are written', e.node))
            return fails
        res.add(runs2.judge('C20.a', 'mci_ipm_to_csv: IpmReader gets the input file, in_encoding, config bit_config and blocked = not '
                                     'no1014blocking; csv.DictWriter on the output restricted to the configured columns',
                            func_where(fi2), 'IpmReader(in_ipm, encoding=in_encoding, blocked=blocked, iso_config=...)', chk2,
                            rule='C20.a.ipm_to_csv', unknown_ok=benign_unknown))

        seen_rows = {'n': 0}

        def rescued(p, rec):
            """the path also compares a value read from the same record with a constant (`x or x == 0`): which falsy values
            are kept is then a finer question than this rule answers"""
            for kind, _t, data in p.facts:
                if kind in ('sym-eq', 'sym-eq-nofork', 'eq'):
                    for x in (data.get('sym'), data.get('a'), data.get('b')):
                        fo = getattr(x, 'origin', None)
                        if isinstance(fo, tuple) and len(fo) >= 3 and fo[0] in ('item', 'method') and it_resolve(p, fo[1]) is rec:
                            return True
            return False

        def chk_rows2(p, mode):
            fails = []
            for first, last, s0, s1, head in iterations(p, func=dfi.short):
                li = [e for e in p.events if e.kind == 'loop-iter' and e.node is head.node and first <= e.seq < last]
                rows = [e for e in p.events if e.kind == 'method' and e.data['name'] == 'writerow' and first < e.seq < last]
                if li and isinstance(head.node, ast.For) and ast.unparse(head.node.iter) != 'field_summary' and len(rows) != 1 \
                        and any(isinstance(n, ast.Attribute) and n.attr == 'writerow' for n in ast.walk(head.node)):
                    fails.append(definite(f'{len(rows)} CSV rows are written per record', head.node))
            for e in p.events:
                if e.kind == 'method' and e.data['name'] in ('writerow', 'writerows') and e.data['args']:
                    row = it_resolve(p, e.data['args'][0])
                    if e.data['name'] == 'writerows':
                        # all rows at once: the generic element of the iterable is the row
                        row = it_resolve(p, getattr(row, 'elem', None)) if isinstance(row, (IterV, ListV)) and \
                            getattr(row, 'items', None) is None else None
                        if row is None:
                            fails.append(soft('the rows handed to writerows() are not a collection the analysis follows', e.node))
                            continue
                    seen_rows['n'] += mode == 'inv'
                    comp = getattr(row, 'comp', None)
                    if isinstance(row, DictV) and comp is not None:
                        ev, srcs, filtered = comp
                        val = ev.items[1] if isinstance(ev, TupleV) and len(ev.items) == 2 else None
                        o = getattr(val, 'origin', None)
                        if not (isinstance(val, SymV) and isinstance(o, tuple) and o and o[0] in ('item', 'method')):
                            # recognised derivations that change falsy values (x or '', x if x else ...): a violation;
                            # anything else is simply not recognised
                            known = isinstance(o, tuple) and o and o[0] in ('boolop', 'ifexp', 'Or', 'And', 'BoolOp', 'IfExp')
                            fails.append(definite(f'a CSV cell is not the record value itself but {val!r} '
                                                  f'({"; ".join(map(str, o[1:2])) if isinstance(o, tuple) else ""}): values such as 0 are altered',
                                                  e.node, firm=bool(known)))
                        elif o[0] == 'method' and o[2] != 'get':
                            fails.append(definite(f'a CSV cell is derived through .{o[2]}() from the record value', e.node))
                        else:
                            # the record the cell is read from: no cell may be kept or dropped by the truthiness of its value
                            rec = it_resolve(p, o[1])
                            for kind, truth_, data in p.facts:
                                fo = getattr(data.get('sym'), 'origin', None) if kind == 'truth' else None
                                if isinstance(fo, tuple) and len(fo) >= 3 and fo[0] in ('item', 'method') and \
                                        it_resolve(p, fo[1]) is rec and (fo[0] == 'item' or fo[2] == 'get'):
                                    if rescued(p, rec):
                                        fails.append(soft('cells are filtered by truthiness together with a comparison with a constant '
                                                          '(x or x == 0 ...): which falsy values are kept is not decided', e.node))
                                        break
                                    fails.append(definite('a cell is written or left out depending on the truthiness of the record value: a '
                                                          'value of 0 (DE4, DE71 ...) or an empty string does not come back', e.node, firm=True))
                                    break
            # a cell must not be dropped (or chosen) by the truthiness of its value: 0 and '' are values
            for first, last, s0, s1, head in iterations(p, func=dfi.short):
                li = [e for e in p.events if e.kind == 'loop-iter' and e.node is head.node and first <= e.seq < last]
                elem = li[-1].data.get('elem') if li else None
                if elem is None or not any(e.kind == 'method' and e.data['name'] in ('writerow',) and first < e.seq < last for e in p.events):
                    continue
                for kind, truth_, data in p.facts:
                    if kind != 'truth':
                        continue
                    o = getattr(data.get('sym'), 'origin', None)
                    if isinstance(o, tuple) and len(o) >= 3 and o[0] in ('item', 'method') and it_resolve(p, o[1]) is it_resolve(p, elem) \
                            and (o[0] == 'item' or o[2] == 'get'):
                        if rescued(p, it_resolve(p, elem)):
                            fails.append(soft('cells are filtered by truthiness together with a comparison with a constant: which falsy '
                                              'values are kept is not decided', head.node))
                            break
                        fails.append(definite('a cell is written or left out depending on the truthiness of the record value: a value of 0 '
                                              '(DE4, DE71 ...) or an empty string does not come back', head.node, firm=True))
                        break
            # the dict written for a record must not be an object shared by all iterations that is only added to:
            # values of an earlier record would stay in the columns a later record does not have
            for first, last, s0, s1, head in iterations(p, func=dfi.short):
                li = [e for e in p.events if e.kind == 'loop-iter' and e.node is head.node and first <= e.seq < last]
                firsts = [e for e in p.events if e.kind == 'loop-iter' and e.node is head.node and e.data.get('mark') is not None]
                if not li or not firsts:
                    continue
                mark0 = min(e.data['mark'] for e in firsts)
                for e in p.events:
                    if e.kind == 'method' and e.data['name'] == 'writerow' and first < e.seq < last and e.data['args']:
                        row = it_resolve(p, e.data['args'][0])
                        if isinstance(row, DictV) and row.id < mark0:
                            cleared = any(x.kind == 'method' and x.data['name'] == 'clear' and x.data.get('recv') is row and first < x.seq < e.seq
                                          for x in p.events)
                            if not cleared:
                                fails.append(definite('the same dict object is written for every record and only updated in between: a column '
                                                      'that a later record does not have keeps the value of an earlier record', e.node))
            hdr = [e for e in p.events if e.kind == 'method' and e.data['name'] == 'writeheader']
            if p.outcome == 'return' and len(hdr) != 1:
                fails.append(definite(f'the header row is written {len(hdr)} times'))
            return fails
        res.add(require_instances(
            runs2.judge('C20.a', 'dicts_to_csv writes the header once and one row per record', func_where(dfi),
                        'writer.writeheader(); for data_item in data_list: writer.writerow(...)', chk_rows2, rule='C20.a.rows2',
                        unknown_ok=benign_unknown),
            seen_rows['n'], 'a row handed to the CSV writer (writerow / writerows)'))

    # ---- C20.a the command-line glue of the two CSV tools
    from .tools import cli_glue_ob, cli_argv_ob
    csv_default = {}
    for mod, tool, ip, op_, im, om, opts, tenc in (
            ('cli.mci_csv_to_ipm', 'mci_csv_to_ipm', 'in_csv', 'out_ipm', 'r', 'wb', ('out_encoding',), ('input', 'in_encoding', csv_default)),
            ('cli.mci_ipm_to_csv', 'mci_ipm_to_csv', 'in_ipm', 'out_csv', 'rb', 'w', ('in_encoding',), ('output', 'out_encoding', csv_default))):
        ob = cli_glue_ob(prog, res, 'C20.a', mod, tool, ip, op_, im, om, passthrough=opts, text_encoding=tenc)
        if ob is not None:
            res.add(ob)
        ob = cli_argv_ob(prog, res, 'C20.a', mod, tool, ip, op_, im, om, passthrough=opts, text_encoding=tenc)
        if ob is not None:
            res.add(ob)
    from .tools import cli_argv_io_ob
    ob = cli_argv_io_ob(prog, res, 'C20.a', 'cli.mideu', command='extract', out_flags=('--csvoutputfile',))
    if ob is not None:
        res.add(ob)
    if len(csv_default) == 2:
        # siblings: with no encoding option the csv is written by one tool with the encoding the other reads it with
        obd = Ob('C20.a', 'without an encoding option, mci_ipm_to_csv writes the csv text with the encoding mci_csv_to_ipm reads it with',
                 func_where(prog.func('cli.mci_ipm_to_csv.cli_run')), "open(..., 'w', encoding=kwargs.get('out_encoding')) / "
                 "open(..., 'r', encoding=kwargs.get('in_encoding'))")
        obd.rule = 'C20.a.cli.csv-default'
        rd, wr = csv_default['cli.mci_csv_to_ipm'], csv_default['cli.mci_ipm_to_csv']
        show = lambda s_: ', '.join(sorted('the locale default (None)' if k is None else repr(k) for k in s_))
        if '?' in rd | wr:
            obd.verdict, obd.detail = UNDECIDED, f'the default text encodings could not be evaluated (reads: {show(rd)}; writes: {show(wr)})'
        elif rd == wr and len(rd) == 1:
            obd.verdict, obd.detail = PROVED, f'both tools open the csv with {show(rd)} when the option is not given'
        else:
            obd.verdict = REFUTED
            obd.detail = (f'with no encoding option mci_ipm_to_csv writes the csv with {show(wr)} but mci_csv_to_ipm reads a csv with {show(rd)}: '
                          f'a cell with a character that the two encode differently does not come back')
            obd.witness = {'csv written with': show(wr), 'csv read with': show(rd)}
        res.add(obd)

    # ---- C20.b producible columns
    cfg = prog.config_literal()
    bc = cfg.get('bit_config', {})
    cols = cfg.get('output_data_elements', [])
    groups = set()
    for v in bc.values():
        if v.get('field_processor') == 'DE43' and v.get('field_processor_config'):
            try:
                groups |= set(re.compile(v['field_processor_config']).groupindex)
            except re.error:
                pass
    bad = []
    for c in cols:
        ok = c == 'MTI' or c == 'ICC_DATA' or (re.fullmatch(r'DE\d+', c) and c[2:] in bc) or re.fullmatch(r'PDS\d{4}', c) \
            or re.fullmatch(r'TAG[0-9A-F]{2,4}', c) or c in groups
        if not ok:
            bad.append(c)
    ob = Ob('C20.b', 'every configured output column is producible by the decoder (MTI, configured DE<n>, PDSxxxx, ICC_DATA/TAGxxxx, DE43 groups)',
            'cardutil/config.py:config', "config['output_data_elements']")
    if not cols:
        ob.verdict, ob.detail = UNDECIDED, 'no output columns configured'
    elif bad:
        ob.verdict, ob.detail, ob.witness = REFUTED, f'columns that no decoder path can produce: {bad}', {'columns': bad}
    else:
        ob.verdict, ob.detail = PROVED, f'{len(cols)} columns, DE43 groups {sorted(groups)}'
    res.add(ob)

    # ---- C20.c what the decoder hands to the csv writer for a decimal column is Decimal(<field text>) itself: its text form
    # (what the csv cell shows) is the plain decimal numeral; normalize() / quantize() give another text form (1E+2)
    if prog.has_func('iso8583._string_to_pytype'):
        sfi = prog.func('iso8583._string_to_pytype')

        def entry_dec(it):
            e = common.generic_entry(it)
            e.items['field_python_type'] = seqops.lit('decimal')
            e.items['field_processor'] = ConstV(None)
            v = it.sym_str('field_text', lo=1, charset='digits')
            it.user.update(v=v)
            names = [a.arg for a in sfi.node.args.args]
            return it.call_function(sfi, [v, e] if names and names[0] != 'bit_config' else [e, v], {})
        runs_dec = Runs(prog, entry_dec, hooks=common.HOOKS, res=res)

        def chk_dec(p, mode):
            if p.outcome != 'return':
                return []
            r = p.interp.resolve(p.value)
            if not isinstance(r, SymV):
                return [soft(f'a decimal field decodes to {r!r}')]
            if r.kind == 'decimal' and isinstance(r.origin, tuple) and r.origin and r.origin[0] == 'Decimal':
                return []
            if isinstance(r.origin, tuple) and len(r.origin) >= 3 and r.origin[0] == 'method' and r.origin[2] in ('normalize', 'quantize',
                                                                                                            'to_integral_value'):
                return [definite(f'a decimal field decodes to Decimal(text).{r.origin[2]}(): numerically the same but another text form '
                                 f'(str(Decimal("100").normalize()) is "1E+2") - the csv cell written differs from the cell read',
                                 firm=True)]
            return [soft(f'a decimal field decodes to {r!r}, not recognised as decimal.Decimal(<field text>)')]
        res.add(runs_dec.judge('C20.c', 'a decimal column decodes to decimal.Decimal(<field text>) itself, whose text form is the plain '
                                        'decimal numeral the csv cell had', func_where(sfi), 'decimal.Decimal(field_data)', chk_dec,
                               rule='C20.c.decimal-text', unknown_ok=benign_unknown))

    # ---- C20.c typed columns accept text
    pfi = prog.func('iso8583._pytype_to_string')

    def entry3(it):
        e = common.generic_entry(it)
        e.items['field_python_type'] = SymV('pytype', 'str', choices=('int', 'long', 'datetime'))
        e.items['field_processor'] = ConstV(None)
        v = it.sym_str('cell', lo=1)
        it.user.update(v=v)
        return it.call_function(pfi, [v, e], {})

    def date_summary(it, fi, args, kwargs, node, self_obj):
        it.user['date_parsed'] = args[0] if args else None
        return SymV(it.fresh('datetime'), 'datetime')
    runs3 = Runs(prog, entry3, summaries={'iso8583._get_date_from_string': date_summary}, hooks=common.HOOKS, res=res)

    def chk3(p, mode):
        if p.outcome != 'return':
            return [definite(f'_pytype_to_string raises {p.value!r} for a text cell')] if p.outcome == 'raise' else []
        it = p.interp
        pt = it.binds.get('pytype')
        v = it.user['v']
        if pt in ('int', 'long'):
            ints = [e for e in p.evs('ext-call') if e.data['callee'] == 'int' and e.data['args'] and e.data['args'][0] is v]
            if not ints:
                return [definite('a text cell of a numeric column is not converted with int()')]
        if pt == 'datetime':
            if it.user.get('date_parsed') is not v:
                return [definite('a text cell of a date column is not parsed into a date before formatting')]
        return []
    res.add(runs3.judge('C20.c', 'text cells of numeric / date columns are converted (int(), date parsing) before they are rendered',
                        func_where(pfi), 'int(field_data) / _get_date_from_string(field_data)', chk3))

    # the date parser itself: the cell is handed to the parsing call as it is, with no option that re-orders its components
    if prog.has_func('iso8583._get_date_from_string'):
        gfi = prog.func('iso8583._get_date_from_string')

        def entry4(it):
            v = it.sym_str('cell', lo=1)
            it.user.update(v=v)
            return it.call_function(gfi, [v], {})
        runs4 = Runs(prog, entry4, res=res)
        PARSERS = ('dateutil.parser.parse', 'datetime.datetime.fromisoformat', 'datetime.datetime.strptime')
        REORDER = {'dayfirst', 'yearfirst', 'fuzzy', 'fuzzy_with_tokens', 'default', 'ignoretz', 'tzinfos', 'parserinfo'}

        def chk4(p, mode):
            fails = []
            it = p.interp
            for e in p.evs('ext-call'):
                if e.data['callee'] not in PARSERS:
                    continue
                a = e.data['args']
                if not a or it.resolve(a[0]) is not it.user['v']:
                    fails.append(soft(f'{e.data["callee"]} is given {a[0] if a else None!r}, not the cell text', e.node))
                extra = sorted(set(k for k in e.data['kwargs'] if k != '**') & REORDER)
                if e.data['callee'] == 'dateutil.parser.parse' and (extra or len(a) > 1):
                    fails.append(definite(f'the date parser is called with {extra or "extra positional arguments"}: an ISO date such as '
                                          f'2021-03-04 is read with its components in another order / defaults filled in', e.node))
            return fails
        res.add(runs4.judge('C20.c', 'the date text of a cell is parsed as written (no option that swaps day and month or fills in defaults)',
                            func_where(gfi), 'parser.parse(field_data)', chk4, rule='C20.c.parser', unknown_ok=benign_unknown))
