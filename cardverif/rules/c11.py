"""C11 - closing a writer finalises the file exactly once, however close is reached."""
from __future__ import annotations

import itertools

from ..lin import Lin
from ..avals import *   # noqa
from ..decide import Runs, need_ge0, need_eq0, definite, soft
from ..report import Ob, PROVED, REFUTED, UNDECIDED, func_where, ASSUMPTIONS, Failure
from ..model import norm_text
from .c04 import is_pad_seg
from .decode import codec
from . import common


def make_writer(it, prog, cls, blocked):
    ci = prog.cls(cls)
    f = it.new_file('out')
    kw = {'blocked': ConstV(blocked)}
    if cls.endswith('IpmWriter'):
        kw.update(encoding=codec(it), iso_config=common.generic_bit_config(it))
    obj = it.instantiate(ci, [f], kw, None)
    it.user.update(file=f, writer=obj)
    return obj, f


def finalise(it, obj, how):
    none = ConstV(None)
    if how == 'close':
        r = obj.cls.lookup('close')
        return it.call_function(r[1], [], {}, self_obj=obj)
    # a with block on the writer: the context is entered (again) and left
    r = obj.cls.lookup('__enter__')
    if r and r[0] == 'method':
        it.call_function(r[1], [], {}, self_obj=obj)
    r = obj.cls.lookup('__exit__')
    return it.call_function(r[1], [none, none, none], {}, self_obj=obj)


def blocker_summaries(prog):
    """Block1014 is decided by C04; here its methods only record what the writer asks of it."""
    summ = {}

    def mk(kind):
        def s_(it, fi, args, kwargs, node, self_obj):
            it.seqno += 1
            it.user.setdefault('sink', []).append((it.seqno, kind, args[0] if args else None, node))
            return ConstV(None)
        return s_
    for name in ('write', 'seek', 'close', 'finalise'):
        q = f'mciipm.Block1014.{name}'
        if prog.has_func(q):
            summ[q] = mk(name)
    return summ


class Eff:
    def __init__(self, seq, kind, data, node):
        self.seq, self.kind, self.data, self.node = seq, kind, {'data': data, 'pos': data}, node


def file_effects(p, f, since=0):
    """effects on the writer's sink after `since`: direct file operations, or requests to the 1014 blocker"""
    out = []
    for e in p.events:
        if e.seq <= since:
            continue
        if e.kind in ('write', 'seek', 'close') and e.data['file'] is f:
            out.append(Eff(e.seq, e.kind, e.data.get('data', e.data.get('pos')), e.node))
    for seq, kind, arg, node in p.interp.user.get('sink', []):
        if seq > since:
            out.append(Eff(seq, 'seek' if kind == 'seek' else kind, arg, node))
    out.sort(key=lambda x: x.seq)
    return out


def is_terminator(d):
    from .vbs import packed_u32_value
    if not isinstance(d, SeqV):
        return False
    if d.is_lit() and d.lit_value() == b'\x00\x00\x00\x00':
        return True
    pv = packed_u32_value(d)
    return pv is not None and pv.lin == Lin.const(0)


def check(prog, res, tier):
    res.assumptions = [ASSUMPTIONS['A3'], ASSUMPTIONS['A4']]
    res.explanation = (
        'Typestate analysis of finalisation: the writer is constructed through its real constructor, then every '
        'history of two finalisations drawn from {close(), context-manager exit} is interpreted abstractly; the effects '
        'on the underlying file (write/seek, directly or through Block1014) are counted per finalisation.  A second '
        'finalisation must have no effect, which requires a latch in instance state that the first one sets; the latch '
        'must be initialised by the constructor (an attribute miss would be answered by the __getattr__ proxy).')
    for cls in ('mciipm.VbsWriter', 'mciipm.IpmWriter'):
        ci = prog.cls(cls)
        cfi = ci.lookup('close')[1]
        xfi = ci.lookup('__exit__')[1]
        for bl in (False, True):
            tag = f'{ci.name},{"blocked" if bl else "vbs"}'

            # ---- C11.d first finalisation is complete, C11.a exit == close
            for how, oid, title in (('close', 'C11.d', 'close() emits the terminator, completes the block (1014) and rewinds, in that order'),
                                    ('exit', 'C11.a', 'leaving the context manager finalises exactly like close()')):
                def entry1(it, cls=cls, bl=bl, how=how):
                    obj, f = make_writer(it, prog, cls, bl)
                    it.user['mark'] = it.seqno
                    finalise(it, obj, how)
                    return obj
                runs1 = Runs(prog, entry1, summaries=blocker_summaries(prog), res=res)

                def chk1(p, mode, bl=bl):
                    if p.outcome != 'return':
                        return [definite(f'finalisation raises {p.value!r}')] if p.outcome == 'raise' else []
                    eff = file_effects(p, p.interp.user['file'], p.interp.user['mark'])
                    kinds = [e.kind for e in eff]
                    fails = []
                    writes = [e for e in eff if e.kind == 'write']
                    if not writes and any(e.kind in ('finalise', 'close') for e in eff):
                        # the writer asks the blocker to finish (finalise / close) instead of writing the terminator through it:
                        # what that request puts into the file is not what this rule models
                        return [soft('the finalisation writes nothing itself but asks the 1014 blocker to finalise/close: what reaches '
                                     'the file that way is outside the model of this rule')]
                    if not writes or not is_terminator(writes[0].data['data']):
                        fails.append(definite(f'the first bytes written by the finalisation are not the zero-length terminator: '
                                              f'{writes[0].data["data"]!r}' if writes else 'finalisation writes nothing'))
                    if 'seek' not in kinds:
                        fails.append(definite('finalisation does not rewind the file'))
                    elif kinds.index('seek') < len(kinds) - 1 and any(k == 'write' for k in kinds[kinds.index('seek'):]):
                        fails.append(definite('bytes are written after the rewind (they overwrite the start of the file)'))
                    if bl:
                        # the blocker completes the open block when it is asked to seek (C04.d); the terminator must
                        # have been handed to it before
                        if 'seek' in kinds and 'write' in kinds and kinds.index('seek') < kinds.index('write'):
                            fails.append(definite('the 1014 blocker is rewound before the terminator is written'))
                    return fails
                res.add(runs1.judge(oid, f'{tag}: {title}', func_where(cfi if how == 'close' else xfi),
                                    'self.out_file.write(struct.pack(">I", 0)); self.out_file.seek(0)' if how == 'close' else 'self.close()',
                                    chk1, rule=f'{oid}.{tag}',
                                    sample=lambda ps: [[(e.kind, repr(e.data.get('data', e.data.get('pos')))) for e in
                                                        file_effects(p, p.interp.user['file'], p.interp.user['mark'])] for p in ps][:2]))

            # ---- C11.b idempotence over all two-step histories
            for h1, h2 in itertools.product(('close', 'exit'), repeat=2):
                def entry2(it, cls=cls, bl=bl, h1=h1, h2=h2):
                    obj, f = make_writer(it, prog, cls, bl)
                    finalise(it, obj, h1)
                    it.user['mark'] = it.seqno
                    finalise(it, obj, h2)
                    return obj
                runs2 = Runs(prog, entry2, summaries=blocker_summaries(prog), res=res)

                def chk2(p, mode):
                    if p.outcome != 'return':
                        return [definite(f'second finalisation raises {p.value!r}')] if p.outcome == 'raise' else []
                    eff = file_effects(p, p.interp.user['file'], p.interp.user['mark'])
                    if eff:
                        e = eff[0]
                        what = repr(e.data.get('data')) if e.kind == 'write' else f'pos {e.data.get("pos")}'
                        return [definite(f'the second finalisation touches the file again: {len(eff)} effects, first is '
                                         f'{e.kind}({what}) - it overwrites/extends what the first one completed', e.node)]
                    return []
                ob = runs2.judge('C11.b', f'{tag}: history {h1} then {h2}: the second finalisation has no effect on the file',
                                 func_where(cfi), 'VbsWriter.close (no finalised latch)', chk2, rule=f'C11.b.{tag}')
                if ob.verdict == REFUTED:
                    ob.construct = 'VbsWriter.close (no finalised latch)'
                    ob.where = func_where(cfi)
                res.add(ob)

            # ---- C11.c latch initialisation
            def entry3(it, cls=cls, bl=bl):
                obj, f = make_writer(it, prog, cls, bl)
                it.user['mark'] = it.seqno
                finalise(it, obj, 'close')
                return obj
            runs3 = Runs(prog, entry3, summaries=blocker_summaries(prog), res=res)

            def chk3(p, mode):
                fails = []
                obj = p.interp.user['writer']
                for e in p.events:
                    if e.seq > p.interp.user['mark'] and e.kind == 'getattr-proxy' and e.data['obj'] is obj:
                        fails.append(definite(f'close() reads self.{e.data["attr"]} which the constructor never set: the '
                                              f'__getattr__ proxy answers with the wrapped file\'s attribute or None', e.node))
                return fails
            res.add(runs3.judge('C11.c', f'{tag}: every instance attribute close() tests is initialised by the constructor',
                                func_where(cfi), 'latch attribute read in close()', chk3, rule=f'C11.c.{tag}'))
