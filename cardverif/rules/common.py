"""Shared entry-state builders for the rule sets."""
from __future__ import annotations

from ..lin import Lin
from ..avals import *   # noqa
from ..signals import Raised

FIELD_TYPES = ('FIXED', 'LLVAR', 'LLLVAR')
PROCESSORS = (None, 'PAN', 'PAN-PREFIX', 'ICC', 'PDS', 'DE43')
PYTYPES = (None, 'int', 'long', 'decimal', 'datetime')


def generic_entry(it, label='cfg'):
    """One well-formed (A1) bit configuration entry with symbolic contents."""
    n = it.fresh(label)
    d = DictV(desc=f'bit_config entry {n}')
    d.items['field_type'] = SymV(f'{n}.field_type', 'str', choices=FIELD_TYPES)
    fl = f'{n}.field_length'
    it.store.declare(fl, 0, None, info='configured field length (A1: >= 0)')
    d.items['field_length'] = IntV(Lin.sym(fl), frozenset(['config']))
    d.items['field_name'] = SymV(f'{n}.field_name', 'str')
    # A1: field processors are configured on plain string fields only (as in the packaged configuration)
    if it.choose(2, f'{n} has a field processor') in (0, None):
        proc = SymV(f'{n}.field_processor', 'str', choices=tuple(p for p in PROCESSORS if p))
        pyt = ConstV(None)
    else:
        proc = ConstV(None)
        pyt = SymV(f'{n}.field_python_type', 'str', choices=PYTYPES)
    opt = {
        'field_processor': proc,
        'field_python_type': pyt,
        'field_processor_config': SymV(f'{n}.field_processor_config', 'any'),
    }
    d.items.update(opt)
    # field_date_format: present (some format string) or absent (default applies)
    d.items['field_date_format'] = SymV(f'{n}.field_date_format', 'any')
    d.optional = set(opt) | {'field_date_format'}
    d.entry_name = n
    # A1: field processors are configured on plain string fields only (as in the packaged configuration)
    it.user.setdefault('entries', []).append(d)
    return d


def generic_bit_config(it, name='iso_config'):
    """A caller supplied configuration: any key may be present (well-formed entry) or absent."""
    cfg = DictV(desc=name, open_=True)

    def default(it2, key, node, strict):
        present = True
        if not strict:
            c = it2.choose(2, f'{name}[{key!r}] present')
            present = c in (0, None)
        if not present:
            return ConstV(None)
        return generic_entry(it2)
    cfg.default = default
    return cfg


def pylit_symbolic_key(it, p, key, node, strict):
    """Packaged configuration indexed with a symbolic key: a generic well-formed entry (or absent)."""
    memo = it.user.setdefault('pylit_memo', {})
    mk = (p.path, repr(key))
    if mk in memo:
        v = memo[mk]
        if strict and isinstance(v, ConstV):
            raise Raised(ExcV(KeyError, [key], node=node, stack=it.stack, op='config key absent', definite=True))
        return v
    if p.path.endswith("['bit_config']"):
        present = True
        if not strict:
            present = it.choose(2, f'{p.path}[{key!r}] present') in (0, None)
        v = generic_entry(it) if present else ConstV(None)
        memo[mk] = v
        return v
    v = SymV(it.fresh(f'{p.path}[?]'), 'any', origin=('item', p, key))
    memo[mk] = v
    return v


HOOKS = {'pylit_symbolic_key': pylit_symbolic_key}


def set_state(it, obj, name, value):
    """Put an object into a symbolic state: directly when the constructor stored the attribute on the instance,
    otherwise through the interpreter's attribute store (class-level descriptors, properties)."""
    if name in obj.fields:
        obj.fields[name] = value
        return True
    if obj.cls.lookup(name) is not None:
        it.set_attr(obj, name, value, None)
        return True
    return False
