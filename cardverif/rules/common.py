"""Shared entry-state builders for the rule sets."""
from __future__ import annotations

from ..lin import Lin
from ..avals import *   # noqa
from ..signals import Raised

FIELD_TYPES = ('FIXED', 'LLVAR', 'LLLVAR')
PROCESSORS = (None, 'PAN', 'PAN-PREFIX', 'ICC', 'PDS', 'DE43')
PYTYPES = (None, 'int', 'long', 'decimal', 'datetime')


def generic_entry(it, label='cfg'):
    """One well-formed (A1) bit configuration entry with symbolic contents."""
    n = it.fresh(label)
    d = DictV(desc=f'bit_config entry {n}')
    d.items['field_type'] = SymV(f'{n}.field_type', 'str', choices=FIELD_TYPES)
    fl = f'{n}.field_length'
    it.store.declare(fl, 0, None, info='configured field length (A1: >= 0)')
    d.items['field_length'] = IntV(Lin.sym(fl), frozenset(['config']))
    d.items['field_name'] = SymV(f'{n}.field_name', 'str')
    # A1: field processors are configured on plain string fields only (as in the packaged configuration)
    if it.choose(2, f'{n} has a field processor') in (0, None):
        proc = SymV(f'{n}.field_processor', 'str', choices=tuple(p for p in PROCESSORS if p))
        pyt = ConstV(None)
    else:
        proc = ConstV(None)
        pyt = SymV(f'{n}.field_python_type', 'str', choices=PYTYPES)
    opt = {
        'field_processor': proc,
        'field_python_type': pyt,
        'field_processor_config': SymV(f'{n}.field_processor_config', 'any'),
    }
    d.items.update(opt)
    # field_date_format: present (some format string) or absent (default applies)
    d.items['field_date_format'] = SymV(f'{n}.field_date_format', 'any')
    d.optional = set(opt) | {'field_date_format'}
    d.entry_name = n
    # A1: field processors are configured on plain string fields only (as in the packaged configuration)
    it.user.setdefault('entries', []).append(d)
    return d


def generic_bit_config(it, name='iso_config', strict_may_miss=False):
    """A caller supplied configuration: any key may be present (well-formed entry) or absent.
    strict_may_miss: `cfg[key]` on an element that has no entry raises KeyError (instead of assuming, with A1, that every
    element that is used is configured); look-ups of one key agree with each other."""
    cfg = DictV(desc=name, open_=True)
    memo = {}

    def default(it2, key, node, strict):
        present = True
        kr = it2.resolve(key)
        from_own_keys = isinstance(kr, SymV) and kr.kind == 'key' and getattr(kr, 'origin', None) is cfg
        mk = repr(kr) if strict_may_miss and not from_own_keys else None
        if mk is not None and mk in memo:
            present = memo[mk] is not None
            if present:
                return memo[mk]
        elif not strict or (strict_may_miss and not from_own_keys):
            c = it2.choose(2, f'{name}[{key!r}] present')
            present = c in (0, None)
        if not present:
            if mk is not None:
                memo[mk] = None
            if strict:
                raise Raised(ExcV(KeyError, [key], node=node, stack=it2.stack, op=f'{name}[{key!r}]: element not configured', definite=True))
            return ConstV(None)
        e = generic_entry(it2)
        if mk is not None:
            memo[mk] = e
        return e
    cfg.default = default
    return cfg


def pylit_symbolic_key(it, p, key, node, strict):
    """Packaged configuration indexed with a symbolic key: a generic well-formed entry (or absent)."""
    memo = it.user.setdefault('pylit_memo', {})
    mk = (p.path, repr(key))
    if mk in memo:
        v = memo[mk]
        if strict and isinstance(v, ConstV):
            raise Raised(ExcV(KeyError, [key], node=node, stack=it.stack, op='config key absent', definite=True))
        return v
    if p.path.endswith("['bit_config']"):
        present = True
        if not strict:
            present = it.choose(2, f'{p.path}[{key!r}] present') in (0, None)
        v = generic_entry(it) if present else ConstV(None)
        memo[mk] = v
        return v
    v = SymV(it.fresh(f'{p.path}[?]'), 'any', origin=('item', p, key))
    memo[mk] = v
    return v


HOOKS = {'pylit_symbolic_key': pylit_symbolic_key}


def set_state(it, obj, name, value):
    """Put an object into a symbolic state: directly when the constructor stored the attribute on the instance,
    otherwise through the interpreter's attribute store (class-level descriptors, properties)."""
    if name in obj.fields:
        obj.fields[name] = value
        return True
    if obj.cls.lookup(name) is not None:
        it.set_attr(obj, name, value, None)
        return True
    return False


def state_obs(res, oid, where, runs_named, what):
    """No state outlives a call: on no abstract path of the analysed functions is an object written that is shared between
    calls (module level, class level, a mutable default argument, a memoised result, a module-level iterator), and no such
    object is handed to the caller as the result.  A necessary condition of every "for all inputs the result is ..."
    clause: with such a write the result depends on the history of calls.  -> [Ob]"""
    from ..decide import definite
    out = []
    for name, runs in runs_named:
        def chk(p, mode):
            fails = []
            for e in p.events:
                if e.kind in ('mutate-shared', 'global-write', 'class-attr-write'):
                    tgt = e.data.get('target', e.data.get('name', e.data.get('attr')))
                    desc = getattr(tgt, 'desc', None) or repr(tgt)
                    fails.append(definite(f'{what}: {desc} is shared by all calls and is written here ({e.kind}, '
                                          f'{e.data.get("how", "")}): the next call sees what this one left behind', e.node, firm=True))
                    break
            v = p.interp.resolve(p.value) if p.outcome == 'return' and isinstance(p.value, AVal) else None
            if v is not None and 'global' in getattr(v, 'tags', ()) and not isinstance(v, PyLit) and \
                    ('default-arg' in v.tags or 'cached' in v.tags):
                fails.append(definite(f'{what}: the result handed to the caller is {getattr(v, "desc", None) or v!r}, one object shared '
                                      f'by all calls: a later call changes what an earlier caller holds', firm=True))
            return fails
        chk.no_return_ok = True
        ob = runs.judge(oid, f'{name}: no state is kept between calls (no write to module-level, class-level, default-argument or '
                             f'memoised objects; the result is not such an object)', where, 'state shared between calls', chk,
                        rule=f'{oid}.state.{name}')
        out.append(ob)
    return out


def strict_codec_obs(res, oid, where, runs_named, what):
    """Every encode / decode on the data path is strict: with errors='replace' / 'ignore' / ... a character the codec cannot
    represent (or a byte it cannot decode) is silently replaced or dropped - the bytes written are not the value, the value
    returned is not the content of its bytes, and text that is not decodable is accepted instead of refused.  -> [Ob]"""
    from ..decide import definite
    from ..report import PROVED, UNDECIDED
    out = []
    seen = {'codec': 0}
    for name, runs in runs_named:
        def chk(p, mode):
            for e in p.events:
                seen['codec'] += e.kind == 'codec'
                if e.kind == 'codec' and e.data.get('errors'):
                    return [definite(f'{what}: .{e.data["op"]}(..., errors={e.data["errors"]!r}) - what the codec cannot '
                                     f'{"represent" if e.data["op"] == "encode" else "decode"} is silently replaced or dropped instead of '
                                     f'refused', e.node, firm=True)]
            return []
        chk.no_return_ok = True
        out.append(runs.judge(oid, f'{name}: text is encoded and decoded strictly (no errors= handler that alters data)', where,
                              '.encode(encoding) / .decode(encoding)', chk, rule=f'{oid}.strict-codec.{name}'))
    if not seen['codec']:
        # anti-vacuity: these are "no such call" rules; with no encode / decode seen at all there was nothing to look at
        for ob in out:
            if ob.verdict == PROVED:
                ob.verdict, ob.detail = UNDECIDED, 'no encode / decode call was observed on these paths: nothing was judged'
    return out
