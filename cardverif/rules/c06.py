"""C06 - IPM file round trip: parameter wiring and instance isolation (no shared mutable state)."""
from __future__ import annotations

import ast

from ..lin import Lin
from ..avals import *   # noqa
from ..decide import Runs, need_ge0, need_eq0, definite, soft
from ..report import Ob, PROVED, REFUTED, UNDECIDED, func_where, ASSUMPTIONS, Failure
from ..model import norm_text, AnalysisError
from . import common
from .. import seqops
from .decode import DecodeUnits, codec
from .vbs import ReaderRuns

SHARED_EVENTS = ('global-write', 'class-attr-write', 'mutate-shared', 'global-decl')


def check(prog, res, tier):
    res.assumptions = [ASSUMPTIONS['A1'], ASSUMPTIONS['A3'], ASSUMPTIONS['A4']]
    res.explanation = (
        'Isolation is decided as an ownership/effect property: on every abstract path of the reader, writer, blocker, '
        'unblocker and codec entry points there is no write to a module global, no assignment through a class, and no '
        'in-place mutation of an object whose provenance is a module global (the packaged configuration) or a class-level '
        'attribute; per-instance state is only rebound through self.  Wiring: the encoding and field configuration handed '
        'to dumps/loads are the ones given to the constructor of that instance.')
    # ---- C06.a wiring
    for cls, meth, callee, arg_is_obj in (('mciipm.IpmWriter', 'write', 'iso8583.dumps', True),
                                          ('mciipm.IpmReader', '__next__', 'iso8583.loads', False)):
        ci = prog.cls(cls)
        mfi = ci.lookup(meth)[1]

        def cap(it, fi, args, kwargs, node, self_obj):
            names = [a.arg for a in fi.node.args.args]
            b = dict(zip(names, args))
            b.update({k: v for k, v in kwargs.items() if k != '**'})
            it.user['codec_call'] = b
            return it.sym_bytes('record', lo=1, hi=6000) if 'dumps' in fi.name else DictV(desc='message')

        def vbs_next(it, fi, args, kwargs, node, self_obj):
            return it.sym_bytes('vbs_record', lo=1)

        def entry(it, ci=ci, mfi=mfi, cls=cls):
            f = it.new_file('f')
            enc = SymV('ctor_encoding', 'codec')
            it.binds[('truth', 'ctor_encoding')] = True
            cfg = DictV(desc='ctor_iso_config', open_=True)
            cfg.items['2'] = DictV(items={'field_type': seqops.lit('LLVAR'), 'field_length': IntV(0)}, desc='entry')   # a non-empty configuration
            blocked = SymV('blocked', 'bool')
            obj = it.instantiate(ci, [f], {'encoding': enc, 'iso_config': cfg, 'blocked': blocked}, None)
            it.user.update(enc=enc, cfg=cfg, obj=obj, file=f)
            args = [DictV(open_=True, desc='message')] if cls.endswith('IpmWriter') else []
            return it.call_function(mfi, args, {}, self_obj=obj)
        summ = {callee: cap}
        if cls.endswith('IpmReader'):
            summ['mciipm.VbsReader.__next__'] = vbs_next
        runs = Runs(prog, entry, summaries=summ, res=res)

        def chk(p, mode):
            if p.outcome == 'loopback':
                return []
            b = p.interp.user.get('codec_call')
            if b is None:
                return [definite(f'{callee} is not called')] if p.outcome == 'return' else []
            fails = []
            if b.get('encoding') is not p.interp.user['enc']:
                fails.append(definite(f'{callee} receives encoding {b.get("encoding")!r}, not the one given to the constructor'))
            if b.get('iso_config') is not p.interp.user['cfg']:
                fails.append(definite(f'{callee} receives iso_config {b.get("iso_config")!r}, not the one given to the constructor'))
            obj = p.interp.user['obj']
            bl = p.binds.get(('truth', 'blocked'))
            inner = obj.fields.get('out_file', obj.fields.get('vbs_data'))
            if bl and not isinstance(inner, ObjV):
                fails.append(definite('blocked=True given to the constructor does not reach the base class (no 1014 wrapper)'))
            if bl is False and inner is not p.interp.user['file']:
                fails.append(definite('blocked=False does not use the file directly'))
            return fails
        res.add(runs.judge('C06.a', f'{ci.name}.{meth} passes the instance\'s own encoding and field configuration to {callee}; '
                                    f'blocking options reach the base constructor', func_where(mfi),
                           f'{callee}(..., encoding=self.encoding, iso_config=self.iso_config)', chk, rule=f'C06.a.{ci.name}'))

    # ---- C06.b the record handed out by a reader that uses the packaged configuration is its own object
    rci = prog.cls('mciipm.IpmReader')
    rnfi = rci.lookup('__next__')[1]

    def loads_fresh(it, fi, args, kwargs, node, self_obj):
        return DictV(open_=True, desc='message')

    def entry_default(it):
        obj = it.instantiate(rci, [it.new_file('f')], {'blocked': SymV('blocked', 'bool')}, None)
        return it.call_function(rnfi, [], {}, self_obj=obj)
    runs_def = Runs(prog, entry_default, summaries={'iso8583.loads': loads_fresh,
                                                    'mciipm.VbsReader.__next__': lambda it, fi, a, k, n, so: it.sym_bytes('vbs_record', lo=1)}, res=res)
    for ob in common.state_obs(res, 'C06.b', func_where(rnfi), [('IpmReader.__next__ (packaged configuration)', runs_def)],
                               'reading records'):
        res.add(ob)

    # ---- C06.c write_many: every message is handed to write() when it is taken from the iterable, before the next is taken
    wci0 = prog.cls('mciipm.IpmWriter')
    mres = wci0.lookup('write_many')
    if mres and mres[0] == 'method':
        mfi0 = mres[1]
        wfi0 = wci0.lookup('write')[1]

        def write_cap0(it, fi_, args, kwargs, node, self_obj):
            it.user.setdefault('written', []).append((it.seqno, it.resolve(args[0]) if args else None))
            it.seqno += 1
            return ConstV(None)

        def entry_many0(it):
            obj = it.instantiate(wci0, [it.new_file('f')], {'encoding': codec(it), 'iso_config': common.generic_bit_config(it),
                                                            'blocked': SymV('blocked', 'bool')}, None)
            msgs = IterV(DictV(open_=True, desc='message'), desc='messages')
            it.user['msgs'] = msgs
            it.call_function(mfi0, [msgs], {}, self_obj=obj)
            return obj
        runs_many0 = Runs(prog, entry_many0, summaries={wfi0.short: write_cap0}, res=res)
        seen_many0 = {'n': 0}

        def chk_many0(p, mode):
            fails = []
            msgs = p.interp.user.get('msgs')   # a path that ends inside the constructor never reaches write_many
            if msgs is None:
                return fails
            for e in p.events:
                if e.kind == 'ext-call' and e.data['callee'] in ('list', 'tuple', 'sorted', 'reversed') and e.data['args'] and \
                        p.interp.resolve(e.data['args'][0]) is msgs and mfi0.short in e.stack:
                    fails.append(definite(f'write_many consumes the whole iterable with {e.data["callee"]}() before the first message is '
                                          f'encoded: a producer that refills one dictionary per message ends up with copies of its last '
                                          f'message in the file', e.node, firm=True))
            for first, last, s0, s1, head in iterations(p):
                if mfi0.short not in head.stack:      # the loop may live in the base class method this one delegates to
                    continue
                li = [e for e in p.events if e.kind == 'loop-iter' and e.node is head.node and first <= e.seq < last]
                if not li:
                    continue
                elem = p.interp.resolve(li[-1].data.get('elem'))
                mine = [v for sq, v in p.interp.user.get('written', []) if first < sq <= last]
                seen_many0['n'] += mode == 'inv'
                if len(mine) != 1 or mine[0] is not elem:
                    fails.append(definite(f'an iteration of write_many hands {len(mine)} messages to write(), not exactly the message it '
                                          f'took from the iterable', head.node))
            return fails
        from ..decide import require_instances, iterations
        res.add(require_instances(
            runs_many0.judge('C06.c', 'IpmWriter.write_many hands every message to write() as it is taken from the iterable, one per iteration',
                             func_where(mfi0), 'for record in iterable: self.write(record)', chk_many0, rule='C06.c.many'),
            seen_many0['n'], 'a loop of write_many over the iterable'))

    # ---- C06.c every write encodes the message it is given, as it is at that moment
    wci = prog.cls('mciipm.IpmWriter')
    wmfi = wci.lookup('write')[1]

    def dumps_cap(it, fi, args, kwargs, node, self_obj):
        calls = it.user.setdefault('dumps_calls', [])
        rec = it.sym_bytes(f'encoded{len(calls) + 1}', lo=1, hi=6000)
        calls.append((it.user.get('phase'), args[0] if args else kwargs.get('obj'), rec))
        return rec

    def vbs_write_cap(it, fi, args, kwargs, node, self_obj):
        it.user.setdefault('written', []).append((it.user.get('phase'), args[0] if args else kwargs.get('record')))
        return ConstV(None)

    def entry_two(it):
        f = it.new_file('f')
        obj = it.instantiate(wci, [f], {'encoding': codec(it), 'iso_config': common.generic_bit_config(it),
                                        'blocked': SymV('blocked', 'bool')}, None)
        msg = DictV(open_=True, desc='message')
        it.user['msg'] = msg
        it.user['phase'] = 1
        it.call_function(wmfi, [msg], {}, self_obj=obj)
        # the caller updates the same dict object and writes it again
        msg.items['DE4'] = it.sym_str('new amount', lo=12, hi=12, charset='digits')
        it.user['phase'] = 2
        return it.call_function(wmfi, [msg], {}, self_obj=obj)
    runs2 = Runs(prog, entry_two, summaries={'iso8583.dumps': dumps_cap, 'mciipm.VbsWriter.write': vbs_write_cap}, res=res)

    def chk_two(p, mode):
        if p.outcome != 'return':
            return []
        u = p.interp.user
        fails = []
        for phase in (1, 2):
            wr = [r for ph, r in u.get('written', []) if ph == phase]
            enc = [(o, r) for ph, o, r in u.get('dumps_calls', []) if ph == phase]
            if len(wr) != 1:
                fails.append(definite(f'write number {phase} hands {len(wr)} records to the VBS writer'))
                continue
            fresh = [r for o, r in enc if o is u['msg']]
            if not any(wr[0] is r for r in fresh):
                stale = any(wr[0] is r for ph, o, r in u.get('dumps_calls', []) if ph != phase)
                compared = any(k == 'eq' and (d.get('a') is u['msg'] or d.get('b') is u['msg']) for k, t, d in p.facts)
                desc = (f'write number {phase} of a message does not write the record encoded from that message during that call'
                        + (' - it re-uses the record encoded by an earlier write although the dict was updated in between'
                           if stale else ''))
                fails.append(soft(desc) if compared else definite(desc))
        return fails
    res.add(runs2.judge('C06.c', 'each IpmWriter.write encodes the message it is given, as it is at the time of the call (the same '
                                 'dict object updated and written twice gives two encodings)', func_where(wmfi),
                        'record = iso8583.dumps(obj, ...); super().write(record)', chk_two, rule='C06.c.fresh-encoding'))

    # ---- C06.a (acceptance) the writer refuses no message the reader would accept: an encoded record of 1..MAX bytes is written
    def chk_accept(p, mode):
        if p.outcome != 'raise':
            return []
        exc = p.value
        return [definite(f'IpmWriter.write refuses a message whose encoded record has 1..6000 bytes ({exc!r}): the readers accept '
                         f'records up to the configured maximum, so what can be read back cannot be written',
                         getattr(exc, 'raise_node', None) or exc.node, firm=True)]
    res.add(runs2.judge('C06.a', 'IpmWriter.write accepts every message whose encoded record is within the maximum record length '
                                 'the readers accept', func_where(wmfi), 'record = iso8583.dumps(obj, ...); super().write(record)',
                        chk_accept, rule='C06.a.accept'))

    # ---- C06.b no shared mutable state
    du = DecodeUnits(prog, res)
    rr = ReaderRuns(prog, res, du)
    all_runs = [('iso8583.loads', du.loads)] + [(u.name, u.runs) for u in du.units.values()]
    for cls in ('mciipm.VbsReader', 'mciipm.IpmReader'):
        for bl in (False, True):
            all_runs.append((f'{cls}.__next__', rr.runs(cls, bl)))
    from .c04 import make_blocker
    from .c05 import unblock_entry
    from .c02 import field_entry
    from .c12 import pds_dict
    wfi = prog.func('mciipm.Block1014.write')

    def entry_w(it):
        obj, f, r = make_blocker(it, prog)
        return it.call_function(wfi, [it.sym_bytes('b')], {}, self_obj=obj)
    all_runs.append(('mciipm.Block1014.write', Runs(prog, entry_w, res=res)))
    all_runs.append(('mciipm.Unblock1014.read', Runs(prog, unblock_entry(prog, True), res=res)))
    all_runs.append(('iso8583._field_to_iso8583', Runs(prog, field_entry(prog), hooks=common.HOOKS, res=res)))
    dfi = prog.func('iso8583.dumps')

    def entry_d(it):
        msg = pds_dict(it)
        msg.items['MTI'] = it.sym_str('MTI', lo=4, hi=4)
        return it.call_function(dfi, [msg], {'encoding': codec(it)})

    def fsum(it, fi, args, kwargs, node, self_obj):
        return it.sym_bytes('element')
    all_runs.append(('iso8583.dumps', Runs(prog, entry_d, summaries={'iso8583._field_to_iso8583': fsum}, hooks=common.HOOKS, res=res)))
    for cls in ('mciipm.VbsWriter', 'mciipm.IpmWriter'):
        ci = prog.cls(cls)
        for meth in ('write', 'close'):
            mfi = ci.lookup(meth)[1]

            def entry_m(it, ci=ci, mfi=mfi, cls=cls, meth=meth):
                f = it.new_file('f')
                kw = {'blocked': SymV('blocked', 'bool')}
                if cls.endswith('IpmWriter'):
                    kw.update(encoding=codec(it), iso_config=common.generic_bit_config(it))
                obj = it.instantiate(ci, [f], kw, None)
                args = []
                if meth == 'write':
                    args = [DictV(open_=True, desc='message')] if cls.endswith('IpmWriter') else [it.sym_bytes('record', lo=1)]
                return it.call_function(mfi, args, {}, self_obj=obj)

            def dsum(it, fi, args, kwargs, node, self_obj):
                return it.sym_bytes('record', lo=1, hi=6000)
            all_runs.append((f'{cls}.{meth}', Runs(prog, entry_m, summaries={'iso8583.dumps': dsum}, res=res)))

    try:
        from .c18 import make_reader as make_param_reader, CLS as PCLS
        pci = prog.cls(PCLS)
        gl = pci.lookup('_get_param_field')
        if gl is None:
            raise AnalysisError('no _get_param_field helper (covered through __next__ elsewhere)')
        gfi = gl[1]

        def entry_pr(it):
            obj = make_param_reader(it, prog, SymV('expanded', 'bool') and it.choose(2, 'expanded') == 1)
            rec = it.sym_bytes('record', lo=300)
            return it.call_function(gfi, [rec, it.sym_str('field', lo=1)], {}, self_obj=obj)
        all_runs.append((f'{PCLS}._get_param_field', Runs(prog, entry_pr, res=res)))
    except AnalysisError:
        pass
    for q in ('mciipm.vbs_list_to_bytes', 'mciipm.vbs_bytes_to_list'):
        if prog.has_func(q):
            cfi = prog.func(q)

            def entry_c(it, cfi=cfi):
                arg = ListV(items=None, elem=it.sym_bytes('rec', lo=1), length=it.sym_int('n', 0, None).lin) if 'list_to' in cfi.name \
                    else it.sym_bytes('vbs_bytes')
                return it.call_function(cfi, [arg], {'blocked': SymV('blocked', 'bool')})
            all_runs.append((q, Runs(prog, entry_c, res=res)))

    offenders = []
    n_paths = 0
    blockers = []
    for name, runs in all_runs:
        for p in runs.inv:
            n_paths += 1
            if p.outcome == 'abandon':
                blockers.append(f'{name}: {p.value}')
            for e in p.events:
                if e.kind in SHARED_EVENTS:
                    tgt = e.data.get('target') or e.data.get('name') or e.data.get('names') or e.data.get('cls')
                    offenders.append((prog.loc(e.node) if e.node is not None else name, e.kind, repr(tgt)[:80], e.node))
    res.count(evaluations=n_paths)
    ob = Ob('C06.b', 'no reader/writer/blocker/unblocker/codec path writes module globals, class attributes or mutates the packaged '
                     'configuration or a class-level container', 'cardutil/mciipm.py:VbsReader', 'shared mutable state')
    if offenders:
        loc, kind, tgt, node = offenders[0]
        ob.verdict = REFUTED
        ob.where = loc
        ob.construct = norm_text(node) if node is not None else kind
        ob.detail = f'{kind} of {tgt}: state shared between instances is modified ({len(set(o[0] for o in offenders))} site(s))'
        ob.witness = {'sites': sorted(set(o[0] for o in offenders))[:4]}
    elif blockers:
        ob.verdict, ob.detail = UNDECIDED, blockers[0]
    else:
        ob.verdict, ob.detail = PROVED, f'{n_paths} abstract paths of {len(all_runs)} entry points, 0 writers of shared state'
    res.add(ob)

    # class-level defaults: immutable, or never mutated (decided above); report them
    mut = []
    n_defaults = 0
    for cq in ('mciipm.VbsReader', 'mciipm.IpmReader', 'mciipm.IpmParamReader', 'mciipm.VbsWriter', 'mciipm.IpmWriter',
               'mciipm.Block1014', 'mciipm.Unblock1014', 'BitArray.BitArray', 'CardutilError'):
        if cq not in [c[len('cardutil.'):] for c in prog.classes]:
            continue
        ci = prog.cls(cq)
        for name, expr in ci.attrs.items():
            n_defaults += 1
            if isinstance(expr, (ast.List, ast.Dict, ast.Set, ast.ListComp, ast.DictComp)) or \
                    (isinstance(expr, ast.Call) and isinstance(expr.func, ast.Name) and expr.func.id in ('list', 'dict', 'set', 'bytearray')):
                mut.append(f'{ci.name}.{name}')
    ob = Ob('C06.b', 'class-level defaults of the stateful classes are immutable values (rebinding through self shadows them)',
            'cardutil/mciipm.py:VbsReader', 'record_number = 1; last_record = None', rule='C06.b.defaults')
    # positive self-example: the rule must recognise a mutated class-level list
    example = _self_example(prog)
    if not example:
        ob.verdict, ob.detail = UNDECIDED, 'built-in positive example (class-level list mutated through self) was not recognised'
    elif mut:
        # mutable defaults are only a violation when mutated, which C06.b above decides; note them
        ob.verdict, ob.detail = PROVED, f'{n_defaults} class-level defaults; mutable but never mutated in place: {mut}'
    else:
        ob.verdict, ob.detail = PROVED, f'{n_defaults} class-level defaults, all immutable; positive example recognised'
    res.add(ob)


def _self_example(prog):
    """A tiny program with a class-level list mutated through self must produce a mutate-shared event."""
    import ast as _ast
    from ..model import Module, ClassInfo, FuncInfo
    from ..interp import Analysis
    src = "class R:\n    seen = []\n    def push(self, x):\n        self.seen.append(x)\n"
    tree = _ast.parse(src)
    mod = Module('cardutil._example', 'example.py', tree, src)
    ci = ClassInfo('cardutil._example.R', tree.body[0], mod)
    ci.attrs['seen'] = tree.body[0].body[0].value
    fi = FuncInfo('cardutil._example.R.push', tree.body[0].body[1], mod, ci)
    ci.methods['push'] = fi
    ci.mro = [ci, 'object']
    mod.symbols['R'] = ('class', ci)

    def entry(it):
        obj = ObjV(ci)
        return it.call_function(fi, [IntV(1)], {}, self_obj=obj)
    paths = Analysis(prog).explore(entry)
    return any(e.kind == 'mutate-shared' for p in paths for e in p.events)
