"""Entry builders for the VBS / IPM readers and writers."""
from __future__ import annotations

from ..lin import Lin
from ..avals import *   # noqa
from . import decode

WIRE = frozenset(['wire'])


def make_vbs_reader(it, prog, cls='mciipm.VbsReader', blocked=None, k_sym=True, extra_kwargs=None):
    """Construct a reader through its real constructor; blocked: True/False/None(symbolic)."""
    ci = prog.cls(cls)
    f = it.new_file('in', tags=WIRE)
    kwargs = dict(extra_kwargs or {})
    if blocked is None:
        kwargs['blocked'] = SymV('blocked', 'bool')
    else:
        kwargs['blocked'] = ConstV(blocked)
    obj = it.instantiate(ci, [f], kwargs, None)
    it.user['file'] = f
    it.user['reader'] = obj
    if k_sym:
        k = it.sym_int('k', 1, None)
        obj.fields['record_number'] = k
        it.user['k'] = k
        # bytes of earlier records were already consumed
        pos = it.fresh('pos0')
        it.store.declare(pos, 0, None, info='file position before this record')
        from .. import ext
        src = ext.file_source(it, f)
        it.store.assume_ge0(src.length - Lin.sym(pos))
        f.pos = Lin.sym(pos)
        it.user['pos0'] = Lin.sym(pos)
    return obj, f
