"""C09 - a file cut short at any byte yields only its complete records, then stops/errors."""
from __future__ import annotations

from ..lin import Lin, Infeasible
from ..avals import *   # noqa
from ..decide import require_instances, Runs, need_ge0, need_eq0, definite, soft, iterations
from ..report import Ob, PROVED, REFUTED, UNDECIDED, func_where, ASSUMPTIONS, Failure
from ..units import exc_key
from .. import seqops
from .vbs import ReaderRuns, reader_reads, same_seq, MLIB, STOP, unpacked_length, direct_framing, NOT_DIRECT
from .c07 import escape_obs
from . import c05
from .c04 import PAYLOAD, BLOCK


def check(prog, res, tier):
    res.assumptions = [ASSUMPTIONS['A1'], ASSUMPTIONS['A3'], ASSUMPTIONS['A4']]
    res.explanation = (
        'A truncated file is just another byte string: the k-th call of <Reader>.__next__ is interpreted for a file of '
        'symbolic length and position (every cut point at once).  Decided: a short length prefix ends the iteration, a '
        'short record raises the library error, a record is returned only complete and unmodified, no other exception '
        'type escapes, the unblocker hands over a final partial block as a prefix of its payload, and IpmReader yields '
        'only what loads returned for a complete record.')
    rr = ReaderRuns(prog, res)
    rci = prog.cls('mciipm.VbsReader')
    nfi = rci.lookup('__next__')[1]

    for bl in (False, True):
        tag = 'blocked' if bl else 'vbs'
        runs = rr.runs('mciipm.VbsReader', bl)

        def chk_a(p, mode):
            if p.outcome == 'loopback':
                return []
            reads = reader_reads(p)
            st = p.store
            fails = []
            if not reads:
                return [soft('no read observed')]
            if not direct_framing(p, reads):
                return [soft(NOT_DIRECT)]
            pre = reads[0][1]
            short_prefix = st.prove_ge0(Lin.const(3) - pre.length())
            if short_prefix:
                if not (p.outcome == 'raise' and exc_key(p.value.cls) == STOP):
                    fails.append(definite(f'a length prefix of {st.canon(pre.length())} bytes does not end the iteration '
                                          f'(outcome: {p.outcome} {p.value!r})'))
                return fails
            u, ue = unpacked_length(p)
            if len(reads) >= 2 and u is not None and isinstance(reads[1][1], SeqV):
                rec = reads[1][1]
                short_rec = st.prove_ge0(u.lin - rec.length() - 1)
                if short_rec and not (p.outcome == 'raise' and exc_key(p.value.cls) == MLIB):
                    fails.append(definite(f'a record cut short ({st.canon(rec.length())} of {st.canon(u.lin)} bytes) is not '
                                          f'reported with the library error (outcome: {p.outcome} {p.value!r})'))
                if p.outcome == 'return':
                    fails += need_eq0(st, rec.length() - u.lin, 'an incomplete record is returned')
                    if not same_seq(p, p.value, rec):
                        fails.append(definite('the record returned is not the bytes read'))
            elif p.outcome == 'return':
                fails.append(definite('a record is returned without a record read'))
            return fails
        res.add(runs.judge('C09.a', f'VbsReader.__next__ ({tag}): short prefix -> end of data, short record -> library error, '
                                    f'only complete unmodified records are returned', func_where(nfi),
                           'len(record_length_raw) != 4 / len(record) != record_length', chk_a, rule=f'C09.a.{tag}'))

        runs_x = rr.runs('mciipm.VbsReader', bl, raise_ops=True)
        for ob in escape_obs(prog, res, 'C09.b', f'VbsReader.__next__ ({tag}) raises only the library error or StopIteration',
                             nfi, runs_x, {MLIB, STOP}):
            ob.rule = (ob.rule or 'C09.b') + '.' + tag
            ob.construct += f' [{tag}]'
            res.add(ob)

    # ---- C09.b what the container protocol calls behind the caller's back: list(reader) asks __len__ / __length_hint__ first.
    # If a reader has one, it escapes nothing but the library error and leaves the file where it was.
    for cq in ('mciipm.VbsReader', 'mciipm.IpmReader'):
        ci_ = prog.cls(cq)
        for mname in ('__len__', '__length_hint__'):
            r_ = ci_.lookup(mname)
            if not (r_ and r_[0] == 'method'):
                continue
            lfi = r_[1]

            def entry_len(it, cq=cq, lfi=lfi):
                from . import readers as _rd, common as _cm
                from .decode import codec as _codec
                kw = {'encoding': _codec(it), 'iso_config': _cm.generic_bit_config(it)} if cq.endswith('IpmReader') else {}
                obj, f = _rd.make_vbs_reader(it, prog, cq, blocked=None, extra_kwargs=kw)
                return it.call_function(lfi, [], {}, self_obj=obj)
            runs_len = Runs(prog, entry_len, raise_ops=True, res=res)

            def chk_len(p, mode, mname=mname):
                if p.outcome == 'raise':
                    k = exc_key(p.value.cls)
                    if p.value.cls is TypeError:
                        return []       # "has no len()": the length-hint protocol of list() swallows TypeError and goes on
                    if k != MLIB:
                        return [definite(f'{mname}() of the reader, which list(reader) calls before the first record, lets '
                                         f'{p.value!r} escape: a cut file ends in a traceback instead of records and the library error',
                                         getattr(p.value, 'raise_node', None) or p.value.node)]
                    return []
                if p.outcome == 'return':
                    f = p.interp.user['file']
                    return need_eq0(p.store, f.pos - p.interp.user['pos0'], f'{mname}() moves the file position: the records it '
                                                                            f'skipped are lost to the iteration that follows')
                return []
            chk_len.no_return_ok = True
            ob = runs_len.judge('C09.b', f'{ci_.name}.{mname} (called by list() / length hints) escapes only the library error and does '
                                         f'not move the file', func_where(lfi), f'def {mname}(self)', chk_len,
                                rule=f'C09.b.{ci_.name}.{mname}')
            res.add(ob)

    # ---- C09.c unblocker: final partial block
    ufi = prog.func(c05.READ)
    runs_u = Runs(prog, c05.unblock_entry(prog, True), res=res)

    seen_c = {'reads': 0}

    def chk_c(p, mode):
        fails = []
        st = p.store
        f = p.interp.user['file']
        for first, last, s0, s1, head in iterations(p, func=c05.READ):
            reads = [e for e in p.events if e.kind == 'read' and e.data['file'] is f and first < e.seq < last]
            sets = [e for e in p.events if e.kind == 'setattr' and e.data['attr'] == 'buffer' and first < e.seq <= last]
            if not reads or not sets:
                continue
            blk = reads[-1].data['data']
            post, pre = sets[-1].data['value'], sets[-1].data['old']
            if not (isinstance(post, SeqV) and isinstance(pre, SeqV) and blk.segs):
                continue
            tail = post.segs[len(pre.segs):]
            if len(tail) == 1 and isinstance(tail[0], Sl) and tail[0].src is blk.segs[0].src:
                t = tail[0]
                fails += need_eq0(st, t.lo - blk.segs[0].lo, 'bytes of a partial block are not taken from its start')
                fails += need_ge0(st, blk.segs[0].hi - t.hi, 'more bytes than were read are appended')
                fails += need_ge0(st, Lin.const(PAYLOAD) - (t.hi - t.lo), 'trailer bytes of a block reach the payload stream')
        # a non-empty block is always appended; only the empty read ends the refill
        evs = [e for e in p.events if e.under(c05.READ) or (e.kind == 'leave' and e.data.get('callee') == c05.READ)]
        for e in evs:
            if e.kind == 'read' and e.data['file'] is f and e.data['size'] is not None:
                szc = st.canon(Lin.of(e.data['size']))
                if not (szc.is_const() and szc.c == c05.BLOCK):
                    seen_c['reads'] += mode == 'inv'
                    return fails + [soft(f'the unblocker reads {szc} bytes at a time, not one block: what becomes of a partial last '
                                         f'block is outside the model of this rule', e.node)]
        for i, e in enumerate(evs):
            if e.kind == 'read' and e.data['file'] is f:
                seen_c['reads'] += mode == 'inv'
                nxt = next((x for x in evs[i + 1:] if (x.kind == 'setattr' and x.data['attr'] == 'buffer')
                            or (x.kind == 'read' and x.data['file'] is f)
                            or (x.kind == 'leave' and x.data.get('callee') == c05.READ)), None)   # helpers called by read() return earlier
                appended = False
                if nxt is not None and nxt.kind == 'setattr' and isinstance(nxt.data['value'], SeqV) and e.data['data'].segs:
                    b0 = e.data['data'].segs[0]
                    appended = any(isinstance(g, Sl) and g.src is b0.src and st.decide_eq0(g.lo - b0.lo) is True
                                   for g in nxt.data['value'].segs)
                if nxt is not None and not appended:
                    fails += need_eq0(st, e.data['data'].length(), 'a non-empty (partial) block is dropped instead of being '
                                                                   'appended to the buffer', e.node)
        return fails
    res.add(require_instances(
        runs_u.judge('C09.c', 'the unblocker appends a final partial block as a prefix of what was read and stops at the empty read',
                     func_where(ufi), 'if not block: break; self.buffer += block[:1012]', chk_c),
        seen_c['reads'], 'a read of the wrapped file inside Unblock1014.read'))

    # ---- C09.d IpmReader yields only loads results
    ici = prog.cls('mciipm.IpmReader')
    ifi = ici.lookup('__next__')[1]
    for bl in (False, True):
        tag = 'blocked' if bl else 'vbs'
        runs_i = rr.runs('mciipm.IpmReader', bl)

        def chk_d(p, mode):
            if p.outcome != 'return':
                return []
            calls = [e for e in p.events if e.kind == 'call' and e.data.get('summary') and e.data['callee'] == 'iso8583.loads']
            if len(calls) != 1:
                return [definite(f'a value is returned after {len(calls)} calls of iso8583.loads')]
            v = p.value
            if not (isinstance(v, DictV) and v.desc == 'message'):
                return [definite(f'IpmReader returns {v!r}, not the dictionary produced by iso8583.loads')]
            reads = reader_reads(p)
            if not direct_framing(p, reads):
                return [soft(NOT_DIRECT)]
            arg = calls[0].data['args'][0] if calls[0].data['args'] else None
            if len(reads) == 2 and not same_seq(p, arg, reads[1][1]):
                return [definite('iso8583.loads is not given the complete record just read')]
            return []
        res.add(runs_i.judge('C09.d', f'IpmReader.__next__ ({tag}) returns only the result of loads on the complete record',
                             func_where(ifi), 'output = iso8583.loads(vbs_record, ...); return output', chk_d, rule=f'C09.d.{tag}'))
