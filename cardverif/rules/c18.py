"""C18 - parameter extraction: header/offset agreement, column slicing, filter, refusals, table sanity."""
from __future__ import annotations

import ast

from ..lin import Lin, Infeasible
from ..avals import *   # noqa
from ..avals import value_tags
from ..decide import require_instances, Runs, need_ge0, need_eq0, definite, soft, iterations
from ..report import Ob, PROVED, REFUTED, UNDECIDED, func_where, ASSUMPTIONS, Failure
from ..model import norm_text, AnalysisError
from ..units import exc_key
from .. import seqops
from .decode import codec
from .vbs import MLIB, STOP

CLS = 'mciipm.IpmParamReader'
WIRE = frozenset(['wire'])


def fold_slice(expr):
    if isinstance(expr, ast.Call) and isinstance(expr.func, ast.Name) and expr.func.id == 'slice' and len(expr.args) == 2 \
            and all(isinstance(a, ast.Constant) and isinstance(a.value, int) for a in expr.args):
        return expr.args[0].value, expr.args[1].value
    return None


def param_config(it):
    """generic parameter table configuration: table -> column -> {start, end}"""
    cfg = DictV(open_=True, desc='param_config')
    tables = {}

    def table_default(it2, key, node, strict):
        t = DictV(open_=True, desc=f'table {key!r}')
        cols = {}

        def col_default(it3, ckey, n2, s2):
            mk = repr(ckey)
            if mk not in cols:
                start = it3.sym_int('start', 19, None)
                end = it3.sym_int('end', None, None)
                it3.store.assume_ge0(end.lin - start.lin - 1)
                cols[mk] = DictV(items={'start': start, 'end': end}, desc='column')
                it3.user.setdefault('cols', []).append((ckey, cols[mk]))
            return cols[mk]
        t.default = col_default
        t.key_elem = lambda it3: it3.sym_str('column_name', lo=1)
        return t
    cfg.default = table_default
    return cfg


def make_reader(it, prog, expanded):
    ci = prog.cls(CLS)
    obj = ObjV(ci)
    f = it.new_file('in', tags=WIRE)
    enc = codec(it)
    tid = it.sym_str('table_id', lo=8, hi=8)
    cfg = param_config(it)
    idx = DictV(open_=True, desc='table_index')
    idx.default = lambda it2, key, node, strict: it2.sym_str('indexed_table_id', lo=8, hi=8)
    obj.fields.update(vbs_data=f, encoding=enc, param_config=cfg, table_id=tid, table_index=idx,
                      expanded=ConstV(expanded), record_number=it.sym_int('k', 1, None), last_record=ConstV(None))
    it.user.update(obj=obj, file=f, tid=tid, cfg=cfg, idx=idx, enc=enc)
    return obj


def check(prog, res, tier):
    res.assumptions = [ASSUMPTIONS['A2'], ASSUMPTIONS['A3'], ASSUMPTIONS['A4']]
    res.explanation = (
        'Constant folding of the header slice constants and agreement with the compressed-row offset; abstract '
        'interpretation of _get_param_field / __next__ / __init__ for a symbolic row and a generic table configuration: '
        'every configured column is emitted as record[start+off:end+off] in the instance codec (off = 0 expanded, -8 '
        'compressed), a row is returned only when its table id equals the requested one, missing configuration or trailer '
        'is refused with the library error; sanity of the packaged table layouts.')
    ci = prog.cls(CLS)
    # ---- C18.a header agreement
    consts = {n: fold_slice(e) for n, e in ci.attrs.items()}
    ob = Ob('C18.a', 'compressed header [0,7)[7,8)[8,11), expanded header [0,10)[10,11)[11,19); compressed column offset = -(19-11)',
            f'cardutil/mciipm.py:{CLS}', '_C_* / _X_* slice constants and field_offset')
    want = {'_C_EFF_TIMESTAMP': (0, 7), '_C_ACTIVE_INACTIVE_CODE': (7, 8), '_C_TABLE_SUB_ID': (8, 11),
            '_X_EFF_TIMESTAMP': (0, 10), '_X_ACTIVE_INACTIVE_CODE': (10, 11), '_X_TABLE_ID': (11, 19)}
    got = {k: consts.get(k) for k in want}
    gl = ci.lookup('_get_param_field')
    gfi = gl[1] if gl is not None and gl[0] == 'method' else None     # private helper: analysed on its own when it exists
    if any(v is None for v in got.values()):
        # constants renamed / computed: the offsets are decided semantically by C18.b and C18.c
        ob.verdict, ob.detail = PROVED, 'header slice constants are not literal slices any more; offsets are decided semantically (C18.b, C18.c)'
    elif got != want:
        diff = {k: (got[k], want[k]) for k in want if got[k] != want[k]}
        ob.verdict, ob.detail, ob.witness = REFUTED, f'header slice constants differ from the documented layout: {diff}', {k: str(v) for k, v in diff.items()}
    else:
        xend, cend = got['_X_TABLE_ID'][1], got['_C_TABLE_SUB_ID'][1]
        # the compressed column offset -(xend - cend) itself is decided semantically by C18.b
        ob.verdict, ob.detail = PROVED, f'6 header slices contiguous; compressed rows are {xend - cend} bytes shorter in the header (offset decided by C18.b)'
    res.add(ob)

    # ---- C18.b column slicing (semantic)
    for expanded in ((False, True) if gfi is not None else ()):
        tag = 'expanded' if expanded else 'compressed'

        def entry_g(it, expanded=expanded):
            obj = make_reader(it, prog, expanded)
            rec = it.sym_bytes('record', lo=300, tags=WIRE)
            fld = it.sym_str('field', lo=1)
            it.user.update(rec=rec, fld=fld)
            return it.call_function(gfi, [rec, fld], {}, self_obj=obj)
        runs_g = Runs(prog, entry_g, res=res)

        def chk_g(p, mode, expanded=expanded):
            if p.outcome != 'return':
                return [definite(f'_get_param_field raises {p.value!r}')] if p.outcome == 'raise' else []
            v = p.value
            st = p.store
            rec = p.interp.user['rec'].segs[0].src
            cols = p.interp.user.get('cols', [])
            if not cols:
                return [definite('column configuration is not consulted')]
            col = cols[-1][1]
            s, e = col.items['start'].lin, col.items['end'].lin
            off = 0 if expanded else -8
            if not (isinstance(v, SeqV) and v.kind == 'str' and len(v.segs) <= 1):
                return [definite(f'column value is {v!r}')]
            fails = []
            if v.segs:
                g = v.segs[0]
                if not (isinstance(g, Sl) and g.src is rec):
                    return [definite(f'column value {g!r} is not a slice of the row')]
                fails += need_eq0(st, g.lo - s - off, f'{tag} row: column starts at {st.canon(g.lo)}, configured start {st.canon(s)} '
                                                      f'with offset {off}')
                if st.decide_eq0(g.hi - rec.length) is not True:
                    fails += need_eq0(st, g.hi - e - off, f'{tag} row: column ends at {st.canon(g.hi)}, configured end {st.canon(e)} '
                                                          f'with offset {off}')
            c = getattr(v, 'codec', None)
            if c is not p.interp.user['enc']:
                fails.append(definite(f'column text is decoded with {c!r}, not the reader\'s encoding'))
            return fails
        res.add(runs_g.judge('C18.b', f'{tag} rows: a column is record[start+off:end+off] decoded with the reader\'s encoding '
                                      f'(off = {"0" if expanded else "-8"})', func_where(gfi),
                             "record[start + field_offset:end + field_offset].decode(self.encoding)", chk_g, rule=f'C18.b.{tag}'))

    # ---- C18.b/c __next__: filter and fixed columns
    nfi = ci.lookup('__next__')[1]
    seen_b = {}
    for expanded in (False, True):
        tag = 'expanded' if expanded else 'compressed'

        def vbs_next(it, fi, args, kwargs, node, self_obj):
            c = it.choose(2, 'next record / end of data')
            if c == 1:
                it.user['end_of_data'] = True
                raise __import__('cardverif.signals', fromlist=['Raised']).Raised(ExcV(StopIteration, [], node=node, stack=it.stack))
            # a data row is at least its common header fields long (19 bytes expanded, 11 compressed)
            r = it.sym_bytes('row', lo=19 if expanded else 11, tags=WIRE)
            it.user.setdefault('rows', []).append(r)
            return r

        def gsum(it, fi, args, kwargs, node, self_obj):
            v = it.sym_str('column_value')
            it.user.setdefault('gcalls', []).append((args, v))
            return v

        def entry_n(it, expanded=expanded):
            obj = make_reader(it, prog, expanded)
            return it.call_function(nfi, [], {}, self_obj=obj)
        runs_n = Runs(prog, entry_n, summaries={'mciipm.VbsReader.__next__': vbs_next, f'{CLS}._get_param_field': gsum}, res=res)
        runs_full = Runs(prog, entry_n, summaries={'mciipm.VbsReader.__next__': vbs_next}, res=res)

        def chk_full(p, mode, expanded=expanded):
            """every value stored under a configured column name is row[start+off:end+off] in the reader's codec"""
            it = p.interp
            st = p.store
            rows = it.user.get('rows', [])
            if not rows:
                return []
            cols = it.user.get('cols', [])
            off = 0 if expanded else -8
            fails = []
            for e in p.events:
                if e.kind != 'setitem' or not e.under(nfi.short):
                    continue
                key = it.resolve(e.data['key'])
                col = next((c for k, c in cols if k is key or (isinstance(k, SeqV) and isinstance(key, SeqV) and repr(k) == repr(key))), None)
                if col is None:
                    continue
                seen_b['full', tag] = seen_b.get(('full', tag), 0) + (mode == 'inv')
                v = it.resolve(e.data['value'])
                row = rows[-1].segs[0].src
                s_, e_ = col.items['start'].lin, col.items['end'].lin
                if not (isinstance(v, SeqV) and v.kind == 'str' and len(v.segs) <= 1):
                    fails.append(definite(f'{tag} row: column value is {v!r}', e.node))
                    continue
                if v.segs:
                    g = v.segs[0]
                    if not (isinstance(g, Sl) and g.src is row):
                        fails.append(definite(f'{tag} row: column value {g!r} is not a slice of the row', e.node))
                        continue
                    fails += need_eq0(st, g.lo - s_ - off, f'{tag} row: a column is read from offset {st.canon(g.lo)}, its configured '
                                                          f'start is {st.canon(s_)} (header offset {off})', e.node)
                    if st.decide_eq0(g.hi - row.length) is not True:
                        fails += need_eq0(st, g.hi - e_ - off, f'{tag} row: a column is read up to {st.canon(g.hi)}, its configured '
                                                              f'end is {st.canon(e_)} (header offset {off})', e.node)
                c = getattr(v, 'codec', None)
                if c is not it.user['enc']:
                    fails.append(definite(f'column text is decoded with {c!r}, not the reader\'s encoding', e.node))
            return fails
        res.add(require_instances(
            runs_full.judge('C18.b', f'{tag} rows read through __next__: every configured column comes back as '
                                     f'record[start+off:end+off] decoded with the reader\'s encoding (off = {"0" if expanded else "-8"})',
                            func_where(nfi), "record_dict[field] = record[start + field_offset:end + field_offset].decode(...)",
                            chk_full, rule=f'C18.b.next.{tag}'),
            seen_b.get(('full', tag)), 'a value stored in the row dictionary under a configured column name'))

        def chk_n(p, mode, expanded=expanded):
            if p.outcome == 'loopback' and p.interp.user.get('rows'):
                # a row is passed over: only after its table id was compared with the requested one (and differed)
                it_ = p.interp
                tid_ = it_.user['tid']
                compared = any(kind == 'seq-eq' and (d['a'] is tid_ or d['b'] is tid_ or seqops.seq_eq_structural(it_, d['a'], tid_)
                                                    or seqops.seq_eq_structural(it_, d['b'], tid_)) for kind, t, d in p.facts)
                if not compared:
                    return [definite('a row is skipped without its table id having been compared with the requested table: rows of '
                                     'the requested table can be dropped', getattr(p.value, 'lineno', None) and p.value)]
                return []
            if mode == 'unroll' and p.outcome in ('return', 'raise') and len(p.interp.user.get('rows', [])) >= 1:
                it_ = p.interp
                tid_ = it_.user['tid']
                ncmp = sum(1 for kind, t, d in p.facts if kind == 'seq-eq' and (
                    d['a'] is tid_ or d['b'] is tid_ or seqops.seq_eq_structural(it_, d['a'], tid_) or seqops.seq_eq_structural(it_, d['b'], tid_)))
                lib_raise = p.outcome == 'raise' and exc_key(p.value.cls) == MLIB
                if ncmp < len(it_.user['rows']) and not lib_raise:
                    return [definite(f'{len(it_.user["rows"])} rows are read but only {ncmp} table ids are compared with the requested table: '
                                     f'a row is passed over unseen, rows of the requested table can be dropped')]
            if p.outcome != 'return':
                if p.outcome == 'raise' and exc_key(p.value.cls) not in (STOP, MLIB):
                    return [definite(f'__next__ raises {p.value!r}')]
                if p.outcome == 'raise' and exc_key(p.value.cls) == STOP and not p.interp.user.get('end_of_data'):
                    return [definite('the parameter reader ends the iteration by itself although the underlying reader has more '
                                     'records: later rows of the requested table are dropped', p.value.raise_node)]
                return []
            it = p.interp
            st = p.store
            v = p.value
            rows = it.user.get('rows', [])
            if not isinstance(v, DictV) or not rows:
                return [definite(f'__next__ returns {v!r}')]
            row = rows[-1].segs[0].src
            fails = []
            # filter: a fact table_id(record) == self.table_id must hold on the path
            tid = it.user['tid']
            ok = False
            for kind, truth, data in p.facts:
                if kind == 'seq-eq' and truth and (data['a'] is tid or data['b'] is tid or
                                                    seqops.seq_eq_structural(it, data['a'], tid) or seqops.seq_eq_structural(it, data['b'], tid)):
                    other = data['b'] if (data['a'] is tid or seqops.seq_eq_structural(it, data['a'], tid)) else data['a']
                    if expanded:
                        ok = isinstance(other, SeqV) and len(other.segs) == 1 and isinstance(other.segs[0], Sl) and other.segs[0].src is row \
                            and st.decide_eq0(other.segs[0].lo - 11) is True and st.decide_eq0(other.segs[0].hi - 19) is True
                    else:
                        ok = isinstance(other, SeqV) and len(other.segs) == 1 and isinstance(other.segs[0], Sl) \
                            and other.segs[0].src.name.startswith('indexed_table_id')
            if not ok:
                fails.append(definite(f'a {tag} row is returned without its table id having compared equal to the requested table'))
            # fixed columns
            wantcols = {'effective_timestamp': (0, 10) if expanded else (0, 7),
                        'active_inactive_code': (10, 11) if expanded else (7, 8)}
            for name, (lo, hi) in wantcols.items():
                x = v.items.get(name)
                good = isinstance(x, SeqV) and len(x.segs) == 1 and isinstance(x.segs[0], Sl) and x.segs[0].src is row and \
                    st.decide_eq0(x.segs[0].lo - lo) is True and st.decide_eq0(x.segs[0].hi - hi) is True
                if not good:
                    recognised = isinstance(x, SeqV)      # a known text value that is not the expected slice of the row
                    if recognised or (x is None and not (v.open or v.sym_stores or getattr(v, 'merged', None))):
                        fails.append(definite(f'{tag} row: {name} is {x!r}, expected row[{lo}:{hi}]'))
                    else:
                        # the row dict was built in a way this rule does not see through (dict(zip(...)), update(generator)...)
                        fails.append(soft(f'{tag} row: {name} is {x!r}: the row dictionary is not fully known'))
            if 'table_id' not in v.items:
                fails.append(definite('table_id column missing') if not (v.open or v.sym_stores or getattr(v, 'merged', None))
                             else soft('table_id column not seen in a row dictionary that is not fully known'))
            # every configured column, via _get_param_field on this row
            if not it.user.get('gcalls') and mode == 'unroll':
                pass
            for args, val in it.user.get('gcalls', []):
                if not (args and isinstance(args[0], SeqV) and args[0].segs and args[0].segs[0].src is row):
                    fails.append(definite('a column is extracted from a different record than the row being returned'))
            return fails
        res.add(runs_n.judge('C18.c', f'{tag} rows: only rows of the requested table are returned, with timestamp/code from the '
                                      f'{tag} header', func_where(nfi), 'if record_table_id == self.table_id: ...', chk_n,
                             rule=f'C18.c.{tag}'))

        def chk_cols(p, mode):
            """the loop over the configured columns stores one value per column name"""
            fails = []
            for first, last, s0, s1, head in iterations(p, func=nfi.short):
                if not isinstance(head.node, ast.For):
                    continue
                sets = [e for e in p.events if e.kind == 'setitem' and e.under(nfi.short) and first < e.seq < last]
                li = [e for e in p.events if e.kind == 'loop-iter' and e.node is head.node and first <= e.seq < last]
                col = li[-1].data.get('elem') if li else None
                if len(sets) != 1:
                    fails.append(definite(f'{len(sets)} values stored per configured column', head.node))
                    continue
                seen_b['cols', tag] = seen_b.get(('cols', tag), 0) + (mode == 'inv')
                key = sets[0].data['key']
                names = [col] + (list(col.items[:1]) if isinstance(col, TupleV) else [])
                if not any(key is c for c in names):
                    fails.append(definite(f'column value stored under {key!r}, not the column name', sets[0].node))
            # record_dict.update((column, value) for column in <configured columns>): the same, written as one call
            cols = p.interp.user.get('cols', [])
            for e in p.events:
                if e.kind == 'setitem' and e.data.get('generic') and e.under(nfi.short):
                    key = p.interp.resolve(e.data['key'])
                    is_col = isinstance(key, SeqV) and len(key.segs) == 1 and isinstance(key.segs[0], Sl) and \
                        str(getattr(key.segs[0].src, 'name', '')).startswith('column_name')
                    if not (is_col or any(k is key for k, c in cols)):
                        continue
                    if e.data.get('filtered'):
                        fails.append(soft('the configured columns are filtered before their values are stored', e.node))
                    else:
                        seen_b['cols', tag] = seen_b.get(('cols', tag), 0) + (mode == 'inv')
            return fails
        res.add(require_instances(
            runs_n.judge('C18.b', f'{tag} rows: one value is stored per configured column of the table, under its name',
                         func_where(nfi), 'for field in self.param_config[record_table_id]: record_dict[field] = ...', chk_cols,
                         rule=f'C18.b.cols.{tag}'),
            seen_b.get(('cols', tag)), 'a loop over the configured columns that stores one value per column'))

    # ---- C18.d refusals
    ifi = ci.lookup('__init__')[1]

    def vbs_next2(it, fi, args, kwargs, node, self_obj):
        c = it.choose(2, 'next record / end of data')
        if c == 1:
            from ..signals import Raised
            raise Raised(ExcV(StopIteration, [], node=node, stack=it.stack))
        it.user['reads'] = it.user.get('reads', 0) + 1
        return it.sym_bytes('row', lo=300, tags=WIRE)

    def entry_i(it):
        f = it.new_file('in', tags=WIRE)
        has_cfg = it.choose(2, 'table configured') in (0, None)
        cfg = DictV(desc='param_config')
        cfg.items['IP0006T1'] = DictV(items={'c': DictV(items={'start': IntV(19), 'end': IntV(22)})})
        tid = seqops.lit('IP0040T1' if has_cfg else 'IP9999T1')
        if has_cfg:
            cfg.items['IP0040T1'] = DictV(items={'c': DictV(items={'start': IntV(19), 'end': IntV(22)})})
        # both representations: the expanded one needs the index trailer as much as the compressed one
        expanded = it.choose(2, 'compressed / expanded extract') == 1
        it.user.update(has_cfg=has_cfg, expanded=expanded)
        return it.instantiate(ci, [f, tid], {'param_config': cfg, 'encoding': codec(it), 'expanded': ConstV(expanded)}, None)
    runs_i = Runs(prog, entry_i, summaries={'mciipm.VbsReader.__next__': vbs_next2}, res=res)

    def trailer_seen(p, since=0, until=None):
        for kind, t, d in p.facts:
            if kind == 'startswith' and t and 'TRAILER' in str(d.get('prefix')):
                return True
        return False

    # locals that become True only on a path that has seen the trailer ("trailer found" flags)
    flags = set()
    bad_flags = set()
    for p0 in runs_i.inv:
        for first, last, s0, s1, head in iterations(p0, func=ifi.short):
            for k, v1 in s1.items():
                if k[0] != 'local':
                    continue
                v1r = p0.interp.resolve(v1) if v1 is not None else None
                v0 = s0.get(k)
                v0r = p0.interp.resolve(v0) if v0 is not None else None
                if isinstance(v1r, ConstV) and v1r.value is True and not (isinstance(v0r, ConstV) and v0r.value is True):
                    (flags if trailer_seen(p0) else bad_flags).add(k)
    flags -= bad_flags

    def chk_i(p, mode):
        if p.outcome == 'loopback':
            return []
        it = p.interp
        fails = []
        if not it.user['has_cfg']:
            if not (p.outcome == 'raise' and exc_key(p.value.cls) == MLIB):
                fails.append(definite(f'a table without configuration is not refused with the library error ({p.outcome} {p.value!r})'))
            elif it.user.get('reads'):
                fails.append(definite('the file is read before the missing configuration is refused'))
            return fails
        if p.outcome == 'return':
            ok = trailer_seen(p)
            if not ok and mode == 'inv':
                # left through a loop condition on a flag that is only ever set after the trailer was seen
                heads = [e for e in p.events if e.kind == 'loop-head' and e.under(ifi.short)]
                for h in heads:
                    for k, g in h.data['gen'].items():
                        if k in flags and isinstance(g, SymV) and p.binds.get(('truth', g.name)) is True:
                            ok = True
            if not ok:
                fails.append(definite('construction succeeds although no index trailer record was seen'))
        elif p.outcome == 'raise' and exc_key(p.value.cls) != MLIB:
            fails.append(definite(f'constructor raises {p.value!r}'))
        return fails
    res.add(runs_i.judge('C18.d', 'a table without configuration, or a file without the index trailer, is refused with the library error',
                         func_where(ifi), "raise MciIpmDataError(...)", chk_i))

    def chk_idx(p, mode):
        """index rows: table_index[row[243:246]] = row[19:27] for rows whose [11:19] is IP0000T1"""
        fails = []
        for e in p.events:
            if e.kind == 'setitem' and e.under(ifi.short) and isinstance(e.data['obj'], DictV) and e.data['obj'].desc is None:
                k, v = e.data['key'], e.data['value']
                st = p.store

                def at(x, lo, hi):
                    return isinstance(x, SeqV) and len(x.segs) == 1 and isinstance(x.segs[0], Sl) and \
                        st.decide_eq0(x.segs[0].lo - lo) is True and st.decide_eq0(x.segs[0].hi - hi) is True
                if not at(k, 243, 246):
                    fails.append(definite(f'index key is {k!r}, not row[243:246]', e.node))
                if not at(v, 19, 27):
                    fails.append(definite(f'index value is {v!r}, not row[19:27]', e.node))
                okf = any(kind == 'seq-eq' and t and ((isinstance(d['b'], SeqV) and d['b'].is_lit() and d['b'].lit_value() == 'IP0000T1' and at(d['a'], 11, 19))
                                                       or (isinstance(d['a'], SeqV) and d['a'].is_lit() and d['a'].lit_value() == 'IP0000T1' and at(d['b'], 11, 19)))
                          for kind, t, d in p.facts)
                if not okf:
                    fails.append(definite('an index entry is stored for a row whose key [11:19] is not IP0000T1', e.node))
        return fails
    res.add(runs_i.judge('C18.c', 'the table index maps row[243:246] to row[19:27] for IP0000T1 rows', func_where(ifi),
                         'self.table_index[record[243:246]] = record[19:27]', chk_idx, rule='C18.c.index'))

    # ---- C18.e table sanity
    tables = prog.config_literal().get('mci_parameter_tables', {})
    ob = Ob('C18.e', 'packaged table layouts: 0 <= start < end, columns ascending and non-overlapping, after the 19-byte expanded header',
            'cardutil/config.py:config', 'mci_parameter_tables')
    bad = []
    ncols = 0
    for t, cols in tables.items():
        prev = 19
        for name, c in cols.items():
            ncols += 1
            s, e = c.get('start'), c.get('end')
            if not (isinstance(s, int) and isinstance(e, int) and 0 <= s < e):
                bad.append(f'{t}.{name}: start={s} end={e}')
            elif s < prev:
                bad.append(f'{t}.{name}: starts at {s} before the previous column ends at {prev}')
            else:
                prev = e
    if not tables:
        ob.verdict, ob.detail = UNDECIDED, 'no parameter tables configured'
    elif bad:
        ob.verdict, ob.detail, ob.witness = REFUTED, f'inconsistent column layout: {bad[:3]}', {'columns': bad[:5]}
    else:
        ob.verdict, ob.detail = PROVED, f'{len(tables)} tables, {ncols} columns'
    res.add(ob)

    # ---- C18 through the extraction tool: what the operator gives on the command line reaches the reader
    from .tools import cli_argv_io_ob
    ob = cli_argv_io_ob(prog, res, 'C18.a', 'cli.mci_ipm_param_to_csv', out_flags=('--out-filename',),
                        ctor_expect=((1, 'IpmParamReader', 'table_id', 'value'), ('--expanded', 'IpmParamReader', 'expanded', 'bool'),
                                     ('--in-encoding', 'IpmParamReader', 'encoding', 'value')))
    if ob is not None:
        res.add(ob)
