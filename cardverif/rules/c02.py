"""C02 - ISO8583 wire format: encoder layout descriptors per partition, assembly, refusal of unrepresentable values."""
from __future__ import annotations

import ast

from ..lin import Lin, Infeasible
from ..avals import *   # noqa
from ..avals import value_tags
from ..decide import require_instances, benign_unknown, Runs, need_ge0, need_eq0, definite, soft, iterations
from ..report import Ob, PROVED, REFUTED, UNDECIDED, func_where, ASSUMPTIONS, Failure
from ..model import norm_text, AnalysisError
from ..units import exc_key
from .. import seqops
from . import common
from .decode import codec

FIELD = 'iso8583._field_to_iso8583'
LIB = 'cardutil.iso8583.Iso8583DataError'


def field_entry(prog):
    fi = prog.func(FIELD)

    def entry(it):
        e = common.generic_entry(it)
        kind = it.choose(3, 'value kind')
        if kind in (0, None):
            v = it.sym_str('value')
        elif kind == 1:
            v = it.sym_bytes('value')
        else:
            v = it.sym_int('value', 0, None)
            # integer values are meaningful for numeric fields only
            e.items['field_python_type'] = SymV(f'{e.entry_name}.field_python_type', 'str', choices=('int', 'long'))
            e.items['field_processor'] = ConstV(None)
        it.user.update(entry=e, value=v, vkind=('str', 'bytes', 'int')[kind or 0])
        return it.call_function(fi, [e, v], {'encoding': codec(it)})
    return entry


def partition(p):
    e = p.interp.user['entry']
    it = p.interp
    ft = it.py_key(it.resolve(e.items['field_type']))
    pt = it.py_key(it.resolve(e.items['field_python_type']))
    return ft, pt, it.user['vkind']


def is_space_fill(g):
    # in the encoded output the fill must be the *encoded* space (0x40 under EBCDIC): a raw b' ' repeat did not pass
    # through the codec
    if isinstance(g, Rep):
        return g.unit == ' '
    return isinstance(g, Opq) and isinstance(g.desc, tuple) and g.desc[0] == 'recode-rep' and g.desc[1] == ' '


def is_zero_fill(g):
    if isinstance(g, Rep):
        return g.unit in ('0', b'0')
    return isinstance(g, Opq) and isinstance(g.desc, tuple) and g.desc[0] == 'recode-rep' and g.desc[1] == '0'


def check(prog, res, tier):
    res.assumptions = [ASSUMPTIONS['A1'], ASSUMPTIONS['A2'], ASSUMPTIONS['A4']]
    res.explanation = (
        'The element encoder is interpreted once per partition field_type x python type x value kind with a symbolic '
        'value and configured length; its output descriptor is compared with the documented layout (k-digit zero-filled '
        'decimal count of the payload that follows, payload exactly the declared length, text left-justified and space '
        'filled, numbers zero filled, bytes untouched).  The message assembler is checked for MTI ++ bitmap ++ elements, '
        'bit n set iff element n emitted, ascending order.  Decoder framing is decided under C08.')
    fi = prog.func(FIELD)
    runs = Runs(prog, field_entry(prog), hooks=common.HOOKS, res=res)
    K = {'LLVAR': 2, 'LLLVAR': 3}

    # ---- C02.a prefix
    def chk_a(p, mode):
        ft, pt, vk = partition(p)
        if ft not in K or p.outcome != 'return':
            return []
        k = K[ft]
        v = p.value
        st = p.store
        if not (isinstance(v, SeqV) and v.kind == 'bytes' and v.segs):
            return [definite(f'{ft}: encoder output is {v!r}')]
        pre = v.segs[0]
        if not (isinstance(pre, Num) and pre.base == 10 and pre.fill == '0' and pre.minw == k and pre.val is not None):
            return [definite(f'{ft}: output does not start with a {k}-digit zero-filled decimal count: {pre!r}')]
        rest = Lin.const(0)
        for g in v.segs[1:]:
            rest = rest + g.length()
        fails = need_eq0(st, pre.val - rest, f'{ft}: the count {st.canon(pre.val)} is not the length of the payload that follows '
                                             f'({st.canon(rest)})')
        lim = 10 ** k - 1
        if st.decide_eq0(pre.width - k) is not True:
            fails.append(Failure(f'{ft}: a value of {st.canon(pre.val)} bytes is emitted with a prefix wider than {k} digits '
                                 f'(prefix width in {st.bounds(pre.width)}): values longer than {lim} must be refused',
                                 neg=[[pre.val - lim - 1]]))
        return fails
    res.add(runs.judge('C02.a', 'LLVAR/LLLVAR: exactly 2/3 zero-filled decimal digits counting the payload; longer values are refused',
                       func_where(fi), "output += format(field_length, '0' + str(length_size)).encode(encoding)", chk_a,
                       sample=lambda ps: sorted({f'{partition(p)}: {p.value!r}' for p in ps if p.outcome == 'return'})[:6]))

    # ---- C02.a' refusal uses the library error
    def chk_ref(p, mode):
        if p.outcome == 'raise' and p.value.raise_node is not None and exc_key(p.value.cls) != LIB:
            return [definite(f'an unrepresentable value is refused with {p.value!r}, not the library error')]
        return []
    res.add(runs.judge('C02.a', 'a refusal by the element encoder uses Iso8583DataError', func_where(fi),
                       'raise Iso8583DataError(...)', chk_ref, rule='C02.a.error'))

    # ---- C02.a'' ... and only then: a value that the prefix can count is not refused
    def chk_acc(p, mode):
        ft, pt, vk = partition(p)
        if ft not in K or p.outcome != 'raise' or pt is not None or vk not in ('str', 'bytes'):
            return []
        exc = p.value
        node = exc.raise_node
        if not isinstance(node, ast.Raise) or exc.op is not None:
            return []
        par = node
        while par is not None:
            par = getattr(par, '_parent', None)
            if isinstance(par, ast.ExceptHandler):
                return []
        val = p.interp.user['value']
        if not (isinstance(val, SeqV) and len(val.segs) == 1 and isinstance(val.segs[0], Sl)):
            return []
        n = val.segs[0].src.length
        lim = 10 ** K[ft] - 1
        trial = p.store.copy()
        try:
            if trial.refutes_ge0(Lin.const(lim) - n):
                return []
            trial.assume_ge0(Lin.const(lim) - n)
        except Infeasible:
            return []
        return [Failure(f'{ft}: a {vk} value of {p.store.canon(n)} characters in {p.store.bounds(n)} is refused by '
                        f'{norm_text(node)[:70]} although a {K[ft]}-digit prefix counts up to {lim}', node=node,
                        neg=[[Lin.const(lim) - n]])]
    chk_acc.no_return_ok = True
    res.add(runs.judge('C02.a', 'LLVAR/LLLVAR: a text or bytes value of up to 99/999 characters is never refused', func_where(fi),
                       "if field_length >= 10 ** length_size: raise", chk_acc, rule='C02.a.accept'))

    # ---- C02.b payload
    def chk_b(p, mode):
        ft, pt, vk = partition(p)
        if p.outcome != 'return':
            return []
        v = p.value
        st = p.store
        if not (isinstance(v, SeqV) and v.kind == 'bytes'):
            return [definite(f'encoder output is {v!r}')]
        e = p.interp.user['entry']
        fl = e.items['field_length'].lin
        val = p.interp.user['value']
        segs = list(v.segs)
        fails = []
        if pt == 'decimal':
            # a Decimal is written in fixed-point notation: without the 'f' presentation type format() follows str(), which
            # is exponent notation for values such as Decimal('1E+2') or Decimal('100').normalize()
            for e in p.evs('format-obj'):
                v = p.interp.resolve(e.data['value'])
                if isinstance(v, SymV) and v.kind == 'decimal' and fi.short in e.stack and e.data['spec_type'] not in ('f', 'F'):
                    fails.append(definite(f'a Decimal value is formatted with presentation type {e.data["spec_type"]!r}, not fixed point: a '
                                          f'value held in exponent form goes on the wire as digits, "E", sign and exponent', e.node, firm=True))
        if ft in K:
            segs = segs[1:]
            if pt is None and vk in ('str', 'bytes'):
                src = val.segs[0].src
                whole = len(segs) == 1 and isinstance(segs[0], Sl) and segs[0].src is src and st.decide_eq0(segs[0].lo) is True \
                    and st.decide_eq0(segs[0].hi - src.length) is True
                if not whole and not (not segs and st.decide_eq0(src.length) is True):
                    fails.append(definite(f'{ft}/{vk}: payload is {segs!r}, not the whole value unchanged'))
            return fails
        # FIXED
        total = Lin.const(0)
        for g in segs:
            total = total + g.length()
        if vk == 'bytes' and pt is None:
            src = val.segs[0].src
            ok = (len(segs) == 1 and isinstance(segs[0], Sl) and segs[0].src is src and st.decide_eq0(segs[0].lo) is True) or not segs
            if not ok:
                fails.append(definite(f'FIXED/bytes: binary value is not emitted untouched: {segs!r}'))
            fails += need_ge0(st, fl - total, 'FIXED/bytes: more than the field width is emitted')
            return fails
        fails += need_eq0(st, total - fl, f'FIXED/{pt or "text"}/{vk}: emitted {st.canon(total)} bytes for a field of width {st.canon(fl)}')
        if pt is None and vk == 'str':
            src = val.segs[0].src
            if segs and not (isinstance(segs[0], Sl) and segs[0].src is src and st.decide_eq0(segs[0].lo) is True):
                fails.append(Failure(f'FIXED/text: value is not left-justified: {segs!r}', neg=[[src.length - 1]]))
            for g in segs[1:]:
                if not is_space_fill(g):
                    why = ' (a raw 0x20 byte that did not pass through the text codec: wrong under EBCDIC)' \
                        if isinstance(g, Rep) and g.unit == b' ' else ''
                    fails.append(Failure(f'FIXED/text: fill is {g!r}, not the encoded space character{why}',
                                         neg=[[g.length() - 1]]))
        if pt in ('int', 'long') and vk in ('int', 'str'):
            # zero fill on the left, numeral (or its leading part when too wide)
            for g in segs[:-1]:
                if not is_zero_fill(g):
                    fails.append(definite(f'FIXED/number: left fill is {g!r}, not zeros'))
            if segs and not (isinstance(segs[-1], Num) or (isinstance(segs[-1], Opq) and isinstance(segs[-1].desc, tuple)
                                                          and segs[-1].desc[0] == 'numpart')):
                fails.append(definite(f'FIXED/number: value part is {segs[-1]!r}, not the decimal numeral'))
            if segs and isinstance(segs[-1], Num) and segs[-1].base != 10:
                fails.append(definite(f'FIXED/number: rendered in base {segs[-1].base}'))
        return fails
    res.add(runs.judge('C02.b', 'payload has exactly the declared length; text left-justified/space-filled, numbers zero-filled, bytes untouched',
                       func_where(fi), "output += format(field_value[:field_length], '<' + str(field_length)).encode(encoding)", chk_b))

    # ---- C02.b' binary untouched / text encoded with the chosen codec
    def chk_codec(p, mode):
        ft, pt, vk = partition(p)
        fails = []
        for e in p.evs('codec'):
            if not e.under(fi.short):
                continue
            c = e.data['codec']
            if not (isinstance(c, SymV) and c.name == 'encoding'):
                fails.append(definite(f'text is encoded with {c!r}, not the encoding chosen by the caller', e.node))
            if vk == 'bytes' and pt is None:
                v = e.data['value']
                if isinstance(v, SeqV) and any(isinstance(g, Sl) and g.src is p.interp.user['value'].segs[0].src for g in v.segs):
                    fails.append(definite('a binary value is passed through a text codec', e.node))
        return fails
    res.add(runs.judge('C02.b', 'text is encoded with the caller\'s encoding; binary values bypass the codec', func_where(fi),
                       '.encode(encoding)', chk_codec, rule='C02.b.codec'))

    # ---- C02.c assembly
    dfi = prog.func('iso8583._dict_to_iso8583')

    def field_summary(it, fi_, args, kwargs, node, self_obj):
        r = it.sym_bytes('element')
        it.user.setdefault('elements', []).append((r, args, kwargs, it.seqno))
        return r

    def pds_summary(it, fi_, args, kwargs, node, self_obj):
        return ListV(items=[], desc='pds strings')

    def entry_d(it):
        msg = DictV(open_=True, desc='message')
        msg.default = lambda it2, key, n, strict: SymV(it2.fresh(f'message[{key!r}]'[:40]), 'any', origin=('item', 'message', key))
        mti = it.sym_str('MTI', lo=4, hi=4, charset='digits')
        msg.items['MTI'] = mti
        hb = SymV('hex_bitmap', 'bool')
        # an element of the message may have no entry in the configuration (cfg[n] raises KeyError): whatever the encoder
        # does then, a message it returns must still have bit n set iff element n was emitted
        cfg = common.generic_bit_config(it, strict_may_miss=True)
        it.user.update(msg=msg, mti=mti, cfg=cfg)
        return it.call_function(dfi, [msg, cfg, codec(it), hb], {})
    runs_d = Runs(prog, entry_d, summaries={FIELD: field_summary, 'iso8583._pds_to_de': pds_summary}, hooks=common.HOOKS, res=res)

    seen_c = {'pos': 0, 'range': 0, 'bit1': 0}
    paired = set()

    def paired_known():
        """loops that, on some inductive path, set a bitmap position and emit an element in the same iteration"""
        if not paired_known.done:
            paired_known.done = True
            for q in runs_d.inv:
                for f0, l0, _s0, _s1, hd in iterations(q, func=dfi.short):
                    ss = [e for e in q.events if f0 < e.seq < l0 and e.kind == 'setitem' and isinstance(e.data['obj'], ListV) and e.under(dfi.short)]
                    cc = [x for x in q.interp.user.get('elements', []) if f0 < x[3] < l0]
                    if ss and cc and len(ss) == len(cc):
                        paired.add(id(hd.node))
        return paired
    paired_known.done = False

    def chk_c(p, mode):
        fails = []
        st = p.store
        it = p.interp
        # per iteration: bit set <=> element appended, index == bit-1, same bit
        for first, last, s0, s1, head in iterations(p, func=dfi.short):
            if not isinstance(head.node, ast.For):
                continue
            sets = [e for e in p.events if first < e.seq < last and e.kind == 'setitem' and isinstance(e.data['obj'], ListV)
                    and e.under(dfi.short)]
            calls = [x for x in it.user.get('elements', []) if first < x[3] < last]
            li = [e for e in p.events if e.kind == 'loop-iter' and first <= e.seq < last and e.node is head.node]
            bit = li[-1].data.get('elem') if li else None
            if not isinstance(bit, IntV):
                # the loop does not run over the element numbers themselves (a table of keys, pairs ...): the element of
                # this iteration is the one whose message entry 'DE' ++ numeral(n) is looked up
                ns = []
                for e in p.events:
                    if not (first < e.seq < last) or not e.under(dfi.short):
                        continue
                    key = None
                    if e.kind == 'method' and e.data['name'] == 'get' and isinstance(e.data.get('recv'), DictV) and \
                            e.data['recv'].desc == 'message' and e.data['args']:
                        key = it.resolve(e.data['args'][0])
                    elif e.kind == 'getitem' and isinstance(e.data.get('obj'), DictV) and e.data['obj'].desc == 'message':
                        key = it.resolve(e.data.get('key'))
                    if isinstance(key, SeqV) and len(key.segs) == 2 and isinstance(key.segs[0], Lit) and key.segs[0].data == 'DE' and \
                            isinstance(key.segs[1], Num) and key.segs[1].base == 10 and key.segs[1].val is not None:
                        ns.append(key.segs[1].val)
                if ns and all(st.decide_eq0(x - ns[0]) is True for x in ns):
                    bit = IntV(ns[0])
            if sets and calls and len(sets) == len(calls):
                paired.add(id(head.node))
            if len(sets) != len(calls):
                if (not sets or not calls) and id(head.node) not in paired_known():
                    # the bitmap and the data are built in different loops (or the bitmap is not a list of flags at all)
                    fails.append(soft(f'in one iteration {len(sets)} bitmap positions are set and {len(calls)} elements are emitted: '
                                      f'the bitmap is not built next to the data', head.node))
                else:
                    fails.append(definite(f'in one iteration {len(sets)} bitmap bits are set but {len(calls)} elements are emitted '
                                          f'(bit n must be set iff element n is present)', head.node))
                continue
            for e, c in zip(sets, calls):
                idx = e.data['key']
                if not (isinstance(bit, IntV) and isinstance(idx, IntV)):
                    fails.append(soft('the element number of the loop iteration or the bitmap index is not an integer the '
                                      'analysis follows', e.node))
                else:
                    seen_c['pos'] += mode == 'inv'
                    fails += need_eq0(st, idx.lin - bit.lin + 1, f'bitmap position {st.canon(idx.lin)} is set for element '
                                                                 f'{st.canon(bit.lin)} (bit n lives at index n-1)', e.node)
                v = it.resolve(e.data['value'])
                if not (isinstance(v, ConstV) and v.value is True):
                    fails.append(definite('bitmap position is not set to True', e.node))
            # the emitted element is appended at the end of the data
            outs = [(k, v) for k, v in s1.items()] if mode == 'inv' else []
        if p.outcome == 'return':
            v = p.value
            if not (isinstance(v, SeqV) and v.kind == 'bytes'):
                return fails + [definite(f'message is {v!r}')]
            segs = list(v.segs)
            mti = it.user['mti'].segs[0].src
            if not (segs and isinstance(segs[0], Sl) and segs[0].src is mti and st.decide_eq0(segs[0].hi - segs[0].lo - 4) is True):
                fails.append(definite(f'message does not start with the encoded MTI: {v!r}'))
            else:
                segs = segs[1:]
            hb = p.binds.get(('truth', 'hex_bitmap'))
            if not segs or not isinstance(segs[0], Opq):
                fails.append(definite(f'no bitmap after the MTI: {v!r}'))
            else:
                bm = segs[0]
                want = 32 if hb else 16
                fails += need_eq0(st, bm.length() - want, f'bitmap is {st.canon(bm.length())} bytes, expected {want}')
                d = bm.desc
                if hb:
                    if not (isinstance(d, tuple) and d[0] == 'hexlify'):
                        fails.append(definite(f'hex bitmap is not hexlify of the binary bitmap: {d!r}'))
                else:
                    if not (isinstance(d, tuple) and d[0] == 'to_bytes' and d[2] == 'big'):
                        fails.append(definite(f'binary bitmap is not the big-endian packing of the bit list: {d!r}'))
                segs = segs[1:]
            # elements in emission order
            els = [x[0].segs[0].src for x in it.user.get('elements', [])]
            got = [g.src for g in segs if isinstance(g, Sl)]
            if mode == 'unroll' and got != els:
                fails.append(definite(f'elements are not appended in emission order: {segs!r}'))
        return fails
    res.add(require_instances(
        runs_d.judge('C02.c', 'message = MTI ++ bitmap(16 raw | 32 hex) ++ elements; bit n set iff element n emitted, in loop order',
                     func_where(dfi), 'bitmap_values[bit - 1] = True; output_data += _field_to_iso8583(...)', chk_c),
        seen_c['pos'], 'a bitmap position set next to an emitted element inside the element loop'))

    res.add(presence_ob(prog, res, dfi))
    # ---- C02.f derived merchant entries: the values of the DE43_* keys are the groups of the configured pattern, as matched;
    # only trailing blanks of the postcode may be removed
    from .decode import DecodeUnits as _DU
    du43 = _DU(prog, res)
    if 'de43' in du43.units:
        u43 = du43.units['de43']

        def group_of(v):
            """(group name, chain of string methods applied to it) for a value derived from a regex group"""
            chain = []
            for _ in range(4):
                if not (isinstance(v, SeqV) and len(v.segs) == 1 and isinstance(v.segs[0], Opq) and isinstance(v.segs[0].desc, tuple)):
                    return None, chain
                d = v.segs[0].desc
                if d[0] == 'group' or (isinstance(d[0], str) and d[0].startswith('group')):
                    return d[1] if len(d) > 1 else d[0], chain
                if d[0] in ('strip', 'lstrip', 'rstrip', 'upper', 'lower', 'title', 'casefold') and len(d) > 1:
                    chain.append(d[0])
                    v = d[1]
                    continue
                return None, chain
            return None, chain

        def chk_43(p, mode):
            if p.outcome != 'return' or not isinstance(p.value, DictV):
                return []
            fails = []
            for k, v in p.value.items.items():
                v = p.interp.resolve(v)
                _g, chain = group_of(v)
                bad = [m for m in chain if not (m == 'rstrip' and k == 'DE43_POSTCODE')]
                if bad:
                    fails.append(definite(f'the derived entry {k} is the matched group passed through {"().".join(chain)}(): characters of '
                                          f'the merchant field that belong to the value (leading blanks, case) are lost', firm=True))
            return fails
        res.add(u43.runs.judge('C02.f', 'the DE43_* entries are the groups of the configured pattern as matched (only trailing blanks of the '
                                        'postcode are removed)', func_where(u43.fi), "field_dict['DE43_POSTCODE'].rstrip()", chk_43,
                               rule='C02.f.de43', unknown_ok=benign_unknown))
    for ob in common.state_obs(res, 'C02.c', func_where(dfi), [('_field_to_iso8583', runs), ('_dict_to_iso8583', runs_d)], 'message encoding'):
        res.add(ob)
    for ob in common.strict_codec_obs(res, 'C02.b', func_where(dfi), [('_field_to_iso8583', runs)], 'element encoding'):
        res.add(ob)
    if prog.has_func('iso8583._icc_to_dict'):
        res.add(icc_tag_ob(prog, res))

    # loop domain and initial bitmap
    def chk_c2(p, mode):
        fails = []
        st = p.store
        for e in p.events:
            if e.kind == 'for-iter' and e.under(dfi.short) and isinstance(e.data['iterable'], RangeV):
                r = e.data['iterable']
                seen_c['range'] += mode == 'inv'
                fails += need_eq0(st, Lin.of(r.lo) - 2, f'element loop starts at {r.lo}, not 2', e.node)
                fails += need_eq0(st, Lin.of(r.hi) - 128, f'element loop ends before {r.hi}, not 128 (elements 2..127)', e.node)
                if r.step != 1:
                    fails.append(definite(f'element loop runs with step {r.step}: elements are not visited in ascending order one by one', e.node))
        if not any(e.kind == 'for-iter' and e.under(dfi.short) and isinstance(e.data['iterable'], RangeV) for e in p.events):
            # not driven by range(): the elements are those whose message entry is looked up ('DE' ++ numeral of n)
            for e in p.events:
                key = None
                if not e.under(dfi.short):
                    continue
                if e.kind == 'method' and e.data['name'] == 'get' and isinstance(e.data.get('recv'), DictV) and \
                        e.data['recv'].desc == 'message' and e.data['args']:
                    key = p.interp.resolve(e.data['args'][0])
                elif e.kind == 'getitem' and isinstance(e.data.get('obj'), DictV) and e.data['obj'].desc == 'message':
                    key = p.interp.resolve(e.data.get('key'))
                if isinstance(key, SeqV) and len(key.segs) == 2 and isinstance(key.segs[0], Lit) and key.segs[0].data == 'DE' and \
                        isinstance(key.segs[1], Num) and key.segs[1].base == 10 and key.segs[1].val is not None:
                    lo, hi = st.bounds(key.segs[1].val)
                    seen_c['range'] += mode == 'inv'
                    if lo is None or hi is None:
                        fails.append(soft('no bounds derived for the element numbers that are looked up', e.node))
                    elif (lo, hi) != (2, 127):
                        fails.append(definite(f'the assembler looks up elements {lo}..{hi}, not 2..127', e.node))
        return fails
    res.add(require_instances(runs_d.judge('C02.c', 'the assembler visits elements 2..127 in ascending order', func_where(dfi),
                                           'for bit in range(2, 128)', chk_c2, rule='C02.c.range'),
                              seen_c['range'], 'an element loop over range() or a look-up of message[\'DE\' + n]'))

    def chk_c3(p, mode):
        if p.outcome != 'return':
            return []
        # the list handed to fromlist: 128 entries, entry 0 True
        for e in p.events:
            if e.kind == 'enter' and e.data['callee'].endswith('BitArray.fromlist'):
                lst = e.data['args'][0] if e.data['args'] else None
                if not isinstance(lst, ListV):
                    return [definite('bit list is not a list')]
                items = lst.items if lst.items is not None else getattr(lst, 'prev_items', None)
                fails = []
                if lst.len is None or p.store.decide_eq0(lst.len - 128) is not True:
                    fails.append(definite(f'bit list has {lst.len} entries, not 128'))
                if items is not None:
                    v0 = p.interp.resolve(items[0])
                    if not (isinstance(v0, ConstV) and v0.value is True):
                        fails.append(definite('bit 1 (bitmap present) is not forced on'))
                else:
                    fails.append(soft('the entries of the bit list are not known individually: bit 1 forced on is not shown'))
                return fails
        return [soft('BitArray.fromlist call not found')]
    res.add(runs_d.judge('C02.c', 'the bit list has 128 entries and bit 1 is always set', func_where(dfi),
                         'bitmap_values = [False] * 128; bitmap_values[0] = True', chk_c3, rule='C02.c.bits'))



def presence_ob(prog, res, dfi):
    """C02.c: numeric zero values are emitted, absent / empty values are not (the bit is set accordingly)."""
    PROBES = ('int0', 'dec0', 'none', 'empty')

    def field_summary(it, fi_, args, kwargs, node, self_obj):
        it.user.setdefault('emitted', []).append(it.seqno)
        return it.sym_bytes('element')

    def pds_summary(it, fi_, args, kwargs, node, self_obj):
        return ListV(items=[], desc='pds strings')

    def entry(it):
        msg = DictV(open_=True, desc='message')

        def default(it2, key, node, strict):
            c = it2.choose(len(PROBES), 'probe value')
            name = PROBES[c or 0]
            it2.user['probe'] = name
            it2.user.setdefault('probes', []).append((it2.seqno, name))
            if name == 'int0':
                return IntV(0)
            if name == 'dec0':
                v = SymV('decimal_zero', 'decimal')
                it2.binds[('truth', 'decimal_zero')] = False
                it2.binds[('eqs', 'decimal_zero')] = {0: True}
                return v
            if name == 'none':
                return ConstV(None)
            return seqops.lit('')
        msg.default = default
        msg.items['MTI'] = it.sym_str('MTI', lo=4, hi=4, charset='digits')
        return it.call_function(dfi, [msg, common.generic_bit_config(it), codec(it), ConstV(False)], {})
    runs = Runs(prog, entry, summaries={FIELD: field_summary, 'iso8583._pds_to_de': pds_summary}, hooks=common.HOOKS, res=res)

    judged = set()

    def chk(p, mode):
        fails = []
        for first, last, s0, s1, head in iterations(p, func=dfi.short):
            if not isinstance(head.node, ast.For):
                continue
            mine = [n for sq, n in p.interp.user.get('probes', []) if first <= sq <= last]
            if len(set(mine)) != 1:
                continue
            probe = mine[0]
            if mode == 'inv':
                judged.add(probe)
            emitted = [x for x in p.interp.user.get('emitted', []) if first < x < last]
            bits = [e for e in p.events if first < e.seq < last and e.kind == 'setitem' and isinstance(e.data['obj'], ListV)
                    and e.under(dfi.short)]
            want = probe in ('int0', 'dec0')
            label = {'int0': 'the integer 0', 'dec0': 'a zero Decimal', 'none': 'an absent value (None)', 'empty': 'an empty string'}[probe]
            if want and not (emitted and bits):
                fails.append(definite(f'{label} is not emitted: zero amounts are dropped from the message', head.node))
            if not want and (emitted or bits):
                fails.append(definite(f'{label} is emitted as an element', head.node))
        return fails
    ob = runs.judge('C02.c', 'an element is emitted (and its bit set) for numeric zero values, and not for absent or empty values',
                    func_where(dfi), "if message.get('DE' + str(bit)) or message.get('DE' + str(bit)) == 0", chk, rule='C02.c.presence',
                    unknown_ok=benign_unknown)
    if ob.verdict == PROVED and judged != set(PROBES):
        # the presence test is not made inside the element loop (a collection built beforehand...): nothing was judged
        ob.verdict = UNDECIDED
        ob.detail = ('the presence test of the element value was not observed inside the element loop for the probe values '
                     f'{sorted(set(PROBES) - judged)}: which values are emitted is not decided')
    return ob


def icc_tag_ob(prog, res):
    """C02.e: TLV tags are two bytes exactly when the first byte is 0x9f or 0x5f (documented reading)."""
    fi = prog.func('iso8583._icc_to_dict')
    PROBES = ((0x9f, 2), (0x5f, 2), (0x82, 1), (0x1f, 1), (0x9a, 1), (0xbf, 1), (0x5a, 1))

    def entry(it):
        c = it.choose(len(PROBES), 'first tag byte')
        first, want = PROBES[c or 0]
        rest = it.sym_bytes('rest', lo=4, tags=frozenset(['wire']))
        data = seqops.concat(it, seqops.lit(bytes([first])), rest)
        it.user.update(first=first, want=want, rest=rest)
        return it.call_function(fi, [data], {})
    runs = Runs(prog, entry, res=res)

    def tag_keys(p, first=0, last=None):
        for e in p.events:
            if e.seq <= first or (last is not None and e.seq >= last):
                continue
            if e.kind == 'setitem' and e.under(fi.short) and isinstance(e.data['key'], SeqV) and e.data['key'].segs \
                    and isinstance(e.data['key'].segs[0], Lit) and str(e.data['key'].segs[0].data).startswith('TAG'):
                yield e

    def chk(p, mode):
        first, want = p.interp.user['first'], p.interp.user['want']
        st = p.store
        if mode == 'unroll':
            # the first TAG key stored belongs to the probe byte: 'TAG' + hex of the tag bytes
            for e in tag_keys(p):
                n = st.canon(e.data['key'].length() - 3)
                if n.is_const():
                    got = n.c // 2
                    if got != want:
                        return [definite(f'a tag starting with byte {first:#04x} is read as {got} byte(s), the documented reading is {want}', e.node)]
                return []
            return []
        # inductive run: per iteration, the tag is two bytes iff its first byte compared equal to 9F or 5F
        fails = []
        for f0, l0, s0, s1, head in iterations(p, func=fi.short):
            keys = list(tag_keys(p, f0, l0))
            if not keys:
                continue
            n = st.canon(keys[0].data['key'].length() - 3)
            if not n.is_const():
                fails.append(soft('tag key width is not constant'))
                continue
            got = n.c // 2
            lits = {}
            for kind, truth, data in p.facts:
                if kind == 'seq-eq':
                    for x, y in ((data['a'], data['b']), (data['b'], data['a'])):
                        if isinstance(y, SeqV) and y.is_lit() and isinstance(y.lit_value(), bytes) and len(y.lit_value()) == 1:
                            lits[y.lit_value()] = truth
            if set(lits) - {b'\x9f', b'\x5f'}:
                fails.append(definite(f'two-byte tags are recognised by first bytes {sorted(lits)}, documented are 9F and 5F', keys[0].node))
            elif not lits:
                fails.append(soft('the two-byte tag rule is not a comparison with the documented prefixes'))
            else:
                two = any(lits.values())
                if (got == 2) != two:
                    fails.append(definite(f'tag width {got} although the 9F/5F test was {two}', keys[0].node))
                if not two and set(lits) != {b'\x9f', b'\x5f'}:
                    fails.append(definite(f'a one-byte tag is assumed after testing only {sorted(lits)}', keys[0].node))
        return fails
    return runs.judge('C02.e', 'ICC TLV tags are two bytes exactly for first bytes 9F and 5F, one byte otherwise', func_where(fi),
                      "if field_tag in TWO_BYTE_TAG_PREFIXES", chk, rule='C02.e.icc_tags', unknown_ok=benign_unknown)
