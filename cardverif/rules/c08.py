"""C08 - exact framing on decode: tiling, cursor discipline, non-negative wire lengths, final length check,
not-too-strict guards, sub-element tiling."""
from __future__ import annotations

import ast

from ..lin import Lin, Infeasible
from ..avals import *   # noqa
from ..avals import value_tags
from ..decide import require_instances, Runs, need_ge0, need_eq0, definite, soft, iterations
from ..report import Ob, PROVED, REFUTED, UNDECIDED, func_where, ASSUMPTIONS, Failure, find_witness
from ..model import norm_text, AnalysisError
from .decode import DecodeUnits
from . import common


def src_slices(p, src, func=None, since=0):
    """slice events whose object is a view of `src` (in event order) -> [(event, lo_abs, hi_abs requested)]"""
    out = []
    for e in p.events:
        if e.seq <= since or e.kind != 'slice':
            continue
        if func is not None and not e.under(func):
            continue
        obj = e.data['obj']
        if not (isinstance(obj, SeqV) and len(obj.segs) == 1 and isinstance(obj.segs[0], Sl) and obj.segs[0].src is src):
            continue
        if obj.kind != src.kind:
            continue      # a slice of the decoded value (processing), not of the data being framed
        base = obj.segs[0].lo
        lo = e.data['lo']
        hi = e.data['hi']
        lo_abs = base + (lo if lo is not None else 0)
        hi_abs = base + hi if hi is not None else obj.segs[0].hi
        out.append((e, lo_abs, hi_abs, hi is None))
    return out


def check(prog, res, tier):
    res.assumptions = [ASSUMPTIONS['A1'], ASSUMPTIONS['A2'], ASSUMPTIONS['A4']]
    res.explanation = (
        'Framing arithmetic of the decoder decided on abstract paths over symbolic message lengths, configured '
        'lengths and wire-parsed integers: slices of the message are compared with the running cursor as linear '
        'expressions; integers parsed from the wire range over every value their text width allows (including '
        'negative numerals).')
    du = DecodeUnits(prog, res)
    if 'field' not in du.units:
        raise AnalysisError('anchor iso8583._iso8583_to_field not found')
    uf = du.units['field']
    ffi = uf.fi
    fname = ffi.short

    def md_src(p):
        return p.interp.user['md'].segs[0].src

    # ---- C08.a tiling of one element
    def chk_a(p, mode):
        if p.outcome != 'return':
            return []
        v = p.value
        if not (isinstance(v, TupleV) and len(v.items) == 2 and isinstance(v.items[1], IntV)):
            return [definite('element parser does not return (values, increment)')]
        inc = v.items[1].lin
        st = p.store
        cursor = Lin.const(0)
        fails = []
        starts = []
        sl = src_slices(p, md_src(p), func=fname)
        if not sl:
            return [soft('no slice of the message data found in the element parser')]
        for e, lo, hi, open_end in sl:
            if open_end:
                fails.append(definite('element value is read with an open-ended slice (takes the rest of the message)', e.node))
                continue
            if st.decide_eq0(lo - cursor) is not True and not any(st.decide_eq0(lo - s) is True for s in starts):
                fails += need_eq0(st, lo - cursor, f'slice {norm_text(e.node)} starts at {st.canon(lo)} but the previous '
                                                   f'part of the element ended at {st.canon(cursor)} (gap or overlap)', e.node)
            restart = st.decide_eq0(lo - cursor) is not True
            starts.append(lo)
            if not restart or st.prove_ge0(hi - cursor):
                cursor = hi
        fails += need_eq0(st, inc - cursor, f'returned increment {st.canon(inc)} differs from the end of the last slice '
                                            f'{st.canon(cursor)}')
        return fails
    res.add(uf.runs.judge('C08.a', 'length prefix and value tile the element: no gap, no overlap, increment = end of value',
                          func_where(ffi), 'message_data[:ls], message_data[ls:ls+L], return ls+L', chk_a,
                          sample=lambda ps: [{'slices': [(repr(p.store.canon(a)), repr(p.store.canon(b))) for _e, a, b, _o in
                                                         src_slices(p, md_src(p), func=fname)],
                                              'increment': repr(p.value.items[1]) if p.outcome == 'return' else None}
                                             for p in ps if p.outcome == 'return'][:3]))

    # ---- C08.c declared lengths are non-negative
    seen_c = {}

    def chk_c(unit_name):
        def chk(p, mode):
            fails = []
            st = p.store
            for e in p.events:
                if e.kind != 'slice' or not e.under(unit_name):
                    continue
                lo, hi = e.data['lo'], e.data['hi']
                if lo is None or hi is None:
                    continue
                d = hi - lo
                wire_dep = any(('wire-int' in _sym_tags(p, s)) for s in st.canon(d).syms())
                if not wire_dep:
                    continue
                seen_c[unit_name] = seen_c.get(unit_name, 0) + (mode == 'inv')
                if not st.prove_ge0(d):
                    fails.append(Failure(f'length parsed from the message may be negative: slice {norm_text(e.node)} has '
                                         f'extent {st.canon(d)} in {st.bounds(d)}', node=e.node, neg=[[-d - 1]]))
            if p.outcome == 'return' and isinstance(p.value, TupleV) and len(p.value.items) == 2 and \
                    isinstance(p.value.items[1], IntV):
                inc = p.value.items[1].lin
                if not st.prove_ge0(inc):
                    fails.append(Failure(f'cursor increment {st.canon(inc)} may be negative', neg=[[-inc - 1]]))
            return fails
        return chk
    res.add(require_instances(
        uf.runs.judge('C08.c', 'every length parsed from the message is non-negative where it frames data',
                      func_where(ffi), 'field_length = int(field_length_string)', chk_c(fname), rule='C08.c.field'),
        seen_c.get(fname), 'a slice whose extent is a length parsed from the message'))
    if 'pds' in du.units:
        up = du.units['pds']
        res.add(require_instances(
            up.runs.judge('C08.c', 'every PDS sub-element length parsed from the message is non-negative',
                          func_where(up.fi), 'pds_field_length = int(...)', chk_c(up.name), rule='C08.c.pds'),
            seen_c.get(up.name), 'a slice whose extent is a length parsed from the message'))

    # ---- C08.e not too strict
    def chk_e(p, mode):
        if p.outcome != 'raise':
            return []
        exc = p.value
        node = exc.raise_node
        if not isinstance(node, ast.Raise) or exc.op is not None:
            return []
        # a raise that converts a caught low-level failure is not a length guard
        par = node
        in_handler = False
        while par is not None:
            par = getattr(par, '_parent', None)
            if isinstance(par, ast.ExceptHandler):
                in_handler = True
        if in_handler or getattr(exc, 'unit', None) is not None:
            return []
        # a rejection taken because a length numeral is not plain decimal digits is a don't-care of the property
        for kind, truth, data in p.facts:
            if kind in ('isdigit', 'isdecimal', 'isnumeric') and not truth:
                return []
        st = p.store
        extra = []
        for s in list(st.iv):
            if 'wire-int' in _sym_tags(p, s):
                extra.append(Lin.sym(s))          # L >= 0
        md = p.interp.user['md']
        extra.append(md.length() - 5000)           # message long enough for any declared length
        trial = st.copy()
        try:
            for x in extra:
                if trial.refutes_ge0(x):
                    return []
                trial.assume_ge0(x)
        except Infeasible:
            return []
        return [Failure(f'explicit rejection {norm_text(node)[:80]} is reachable for a well-framed element',
                        node=node, neg=[extra])]
    chk_e.check_abandoned = False
    res.add(uf.runs.judge('C08.e', 'no guard rejects an element whose declared length is within 0..10^k-1 and whose '
                                   'bytes are present', func_where(ffi), 'raise Iso8583DataError(...) guards', chk_e))

    # the same for the sub-element walks: an explicit `raise` must not be reachable for a sub-element whose declared length
    # is a plain non-negative number (zero included: empty PDS values and empty tags are well-formed)
    for key in ('pds', 'icc'):
        if key not in du.units:
            continue
        u = du.units[key]

        def chk_e_sub(p, mode, u=u):
            if p.outcome != 'raise':
                return []
            exc = p.value
            node = exc.raise_node
            if not isinstance(node, ast.Raise) or exc.op is not None:
                return []
            par, in_handler = node, False
            while par is not None:
                par = getattr(par, '_parent', None)
                if isinstance(par, ast.ExceptHandler):
                    in_handler = True
            if in_handler:
                return []
            for kind, truth, data in p.facts:
                if kind in ('isdigit', 'isdecimal', 'isnumeric') and not truth:
                    return []
            st = p.store
            extra = [Lin.sym(s) for s in list(st.iv) if 'wire-int' in _sym_tags(p, s)]
            # ... and whose header and value bytes are all there: the field is long enough, seen from wherever the walk stands
            src = p.interp.user['unit_args'][0][0].segs[0].src
            extra.append(src.length - 5000)
            for e in p.events:
                if e.kind == 'loop-head' and e.under(u.name):
                    extra += [src.length - g.lin - 2000 for k, g in e.data['gen'].items() if k[0] == 'local' and isinstance(g, IntV)]
            trial = st.copy()
            try:
                for x in extra:
                    if trial.refutes_ge0(x):
                        return []
                    trial.assume_ge0(x)
            except Infeasible:
                return []
            return [Failure(f'explicit rejection {norm_text(node)[:80]} is reachable for a sub-element with a non-negative '
                            f'declared length (an empty value is well-formed)', node=node, neg=[extra])]
        chk_e_sub.check_abandoned = False
        res.add(u.runs.judge('C08.e', f'{key.upper()} walk: no guard rejects a sub-element whose declared length is >= 0',
                             func_where(u.fi), 'if pds_field_length < 0: raise ...', chk_e_sub, rule=f'C08.e.{key}'))

    # ---- C08.b cursor discipline / C08.d final check (loads with the element parser summarised)
    dfi = prog.func('iso8583._iso8583_to_dict') if prog.has_func('iso8583._iso8583_to_dict') else prog.func('iso8583.loads')

    seen = {'b': 0, 'c': 0}

    def chk_b(p, mode):
        fails = []
        st = p.store
        for first, last, s0, s1, head in iterations(p, func=dfi.short):
            calls = [e for e in p.events if e.kind == 'unit-call' and e.data['unit'] == fname and first < e.seq < last]
            if not calls:
                continue
            seen['b'] += mode == 'inv'
            call = calls[-1]
            arg = call.data['args'][2] if len(call.data['args']) > 2 else None
            if not (isinstance(arg, SeqV) and len(arg.segs) <= 1):
                fails.append(soft('message data argument has an unexpected shape', call.node))
                continue
            rets = [e for e in p.events if e.kind == 'unit-ret' and e.data['unit'] == fname and call.seq < e.seq < last]
            ok = False
            for k, g in s0.items():
                post = s1.get(k)
                if k[0] != 'local' or not isinstance(g, IntV) or not isinstance(post, IntV):
                    continue
                if not rets or not (isinstance(rets[-1].data['value'], TupleV) and len(rets[-1].data['value'].items) == 2
                                    and isinstance(rets[-1].data['value'].items[1], IntV)):
                    continue
                inc = rets[-1].data['value'].items[1].lin
                if st.decide_eq0(post.lin - g.lin - inc) is not True:
                    continue
                if not arg.segs:
                    ok = True
                    continue
                # the argument must be data[cursor:] : find the slice operation that produced it
                sev = [e for e in p.events if e.kind == 'slice' and e.under(dfi.short) and first < e.seq < call.seq
                       and (e.data['result'] is arg or seqops_eq(p, e.data['result'], arg))]
                for e in sev[-1:]:
                    lo, hi = e.data['lo'], e.data['hi']
                    if hi is None and lo is not None and st.decide_eq0(Lin.of(lo) - g.lin) is True:
                        ok = True
            if not ok:
                fails.append(Failure('the element parser is not handed message_data[cursor:] / the cursor does not advance '
                                     'by exactly the returned increment', node=call.node, neg=[[]]))
        return fails
    res.add(require_instances(
        du.loads.judge('C08.b', 'each element is parsed from data[cursor:] and the cursor advances by exactly the '
                                'returned increment', func_where(dfi), 'message_pointer += message_increment', chk_b),
        seen['b'], 'a loop iteration of the message parser that calls the element parser'))

    # ---- C08.e (message header): a message that holds its complete type indicator and bitmap is not refused for its length
    hdr_seen = {'n': 0}
    CONTENT_OPS = ('int(', 'decode(', 'unhexlify', 'codec')   # failures of the content (don't-care / undecodable text), not of the framing

    def chk_e_hdr(p, mode):
        if p.outcome != 'raise':
            return []
        if any(e.kind in ('loop-head', 'loop-iter', 'unit-call') for e in p.events if e.seq > 0 and dfi.short in e.stack):
            return []          # the header was split: the element walk has begun
        # ... and nothing but the length of the message (and the kind of bitmap) was consulted on the way: from the first
        # comparison of len(message) on, every decision of the path is such a comparison.  (A loop over a collection that turned
        # out empty leaves no loop events; the decisions that made it empty are on the path.)
        import re
        seen_len = False
        for lab, c in zip(p.labels, p.choices):
            lab = lab or ''
            if re.fullmatch(r'-?len\(message\)([+-]\d+)?(>=|==)0', lab):
                seen_len = True
            elif lab.startswith('raise ') and c == 1:
                seen_len = True       # the operation that failed (its condition is in the store)
            elif not seen_len and not lab.startswith(('for:', 'while:', 'raise ')):
                continue              # which bitmap rendering, which configuration, whether logging is on: settled before the
                #                       length of the message is looked at (no loop entered, no operation survived)
            else:
                return []
        if not seen_len:
            return []
        exc = p.value
        cause = exc.op
        caught = [e for e in p.events if e.kind == 'caught']
        if cause is None and caught:
            cause = getattr(caught[-1].data['exc'], 'op', None) or 'an exception raised by the program'
        if cause is not None and any(str(cause).startswith(c) or c in str(cause)[:40] for c in CONTENT_OPS):
            return []
        msg = p.interp.user['message']
        if not (isinstance(msg, SeqV) and len(msg.segs) == 1 and hasattr(msg.segs[0], 'src')):
            return [soft('message argument has an unexpected shape')]
        n = msg.segs[0].src.length
        hb = p.interp.binds.get(('truth', 'hex_bitmap'))
        need = 20 if hb is False else 36
        hdr_seen['n'] += mode == 'inv'
        st = p.store
        if st.refutes_ge0(n - need):
            return []
        trial = st.copy()
        try:
            trial.assume_ge0(n - need)
        except Infeasible:
            return []
        node = getattr(exc, 'raise_node', None) or exc.node
        if cause is not None and not str(cause).startswith('struct.'):
            return [soft(f'a message of {need} bytes or more is refused before its bitmap is examined, because of {cause}', node)]
        return [Failure(f'a message that holds its complete type indicator and bitmap ({need} bytes or more'
                        f'{"" if hb is None else ", hex bitmap" if hb else ", binary bitmap"}) is refused before the bitmap is '
                        f'examined: a message without elements is well-framed', node=node, neg=[[n - need]])]
    chk_e_hdr.check_abandoned = False
    res.add(require_instances(
        du.loads.judge('C08.e', 'the header split refuses a message only when its type indicator and bitmap are incomplete '
                                '(or not decodable)', func_where(dfi), 'struct.unpack("4s16s<n>s", message) / except struct.error',
                       chk_e_hdr, rule='C08.e.header'),
        hdr_seen['n'], 'a rejection of a message before its bitmap is examined'))

    cursor_names = set()
    true_cursor = set()       # the local(s) that chk_d found equal to the length of the element data on accepting paths

    def chk_d(p, mode):
        if p.outcome != 'return':
            return []
        st = p.store
        rets = [e for e in p.events if e.kind == 'return' and e.under(dfi.short)]
        if not rets:
            return [soft('return of the message parser not found')]
        loc = rets[-1].data['locals']
        msg = p.interp.user['message'].segs[0].src
        datas = [v for v in loc.values() if isinstance(v, SeqV) and v.kind == 'bytes' and len(v.segs) <= 1
                 and (not v.segs or (isinstance(v.segs[0], Sl) and v.segs[0].src is msg
                                     and st.decide_eq0(v.segs[0].hi - msg.length) is True
                                     and st.decide_eq0(v.segs[0].lo) is not True))]
        ints = [v for v in loc.values() if isinstance(v, IntV) and not st.canon(v.lin).is_const()
                or isinstance(v, IntV) and mode == 'unroll']
        heads = [e for e in p.events if e.kind == 'loop-head']
        cur = []
        if heads:
            for k, g in heads[-1].data['gen'].items():
                if isinstance(g, IntV):
                    cur.append(g)
                    cursor_names.add(k[1])
        if mode == 'unroll':
            cur = [v for n, v in loc.items() if n in cursor_names and isinstance(v, IntV)]
        cands = cur or ints
        if not datas or not cands:
            return [soft('cursor / data variables not recognised at return')]
        for d in datas:
            for c in cands:
                if st.decide_eq0(c.lin - d.length()) is True:
                    if cur and mode == 'inv':
                        # a loop-carried integer: the cursor of the walk (a local that merely holds the data length is not)
                        for k_, g_ in heads[-1].data['gen'].items():
                            if g_ is c and k_[0] == 'local':
                                true_cursor.add(k_[1])
                    return []
        d, c = datas[0], cands[0]
        diff = c.lin - d.length()
        return [Failure(f'message accepted although the cursor ({st.canon(c.lin)}) need not equal the data length '
                        f'({st.canon(d.length())}): bytes left over or read past the end', node=rets[-1].node,
                        neg=[[diff - 1], [-diff - 1]])]
    res.add(du.loads.judge('C08.d', 'a message is accepted only when the cursor equals the length of the message data',
                           func_where(dfi), 'if message_pointer != len(message_data): raise', chk_d))

    # ---- C08.d (converse) when the walk ends exactly at the end of the message the message is accepted
    def chk_d_conv(p, mode):
        if p.outcome != 'raise' or not true_cursor:
            return []
        exc = p.value
        node = getattr(exc, 'raise_node', None)
        if exc.op is not None or not isinstance(node, ast.Raise):
            return []
        par = node
        while par is not None:
            par = getattr(par, '_parent', None)
            if isinstance(par, (ast.ExceptHandler, ast.For, ast.While)):
                return []          # a converted failure, or a refusal inside the element walk
        rv = [e for e in p.events if e.kind == 'raise' and e.data['exc'] is exc]
        if not rv or not rv[-1].stack or rv[-1].stack[-1] != dfi.short:
            return []
        if not any(e.kind in ('loop-exit', 'loop-end-snap') and dfi.short in e.stack and e.seq < rv[-1].seq for e in p.events):
            return []              # before or without the walk
        loc = rv[-1].data.get('locals') or {}
        msg = p.interp.user['message']
        if not (isinstance(msg, SeqV) and len(msg.segs) == 1 and hasattr(msg.segs[0], 'src')):
            return []
        n = msg.segs[0].src.length
        hb = p.interp.binds.get(('truth', 'hex_bitmap'))
        if hb is None:
            return []
        need = 36 if hb else 20
        st = p.store
        for name in sorted(true_cursor):
            c = loc.get(name)
            if not isinstance(c, IntV):
                continue
            gap = c.lin - (n - need)
            trial = st.copy()
            try:
                trial.assume_eq0(gap)
            except Infeasible:
                continue
            return [Failure(f'the message is refused after the walk ({norm_text(node)[:70]}) although the cursor {name} stands exactly at '
                            f'the end of the message: len(message) - {need} bytes of element data were consumed, nothing is left over',
                            node=node, neg=[[gap, -gap]])]
        return []
    chk_d_conv.check_abandoned = False
    res.add(du.loads.judge('C08.d', 'a message whose elements tile its data exactly is not refused by the final length check',
                           func_where(dfi), 'if message_pointer != len(message_data): raise', chk_d_conv, rule='C08.d.converse'))


    res.add(flagged_parsed_ob(prog, res, du, dfi))

    # ---- C08.c each value is the content of its own bytes: nothing on the decode path decodes leniently
    for ob in common.strict_codec_obs(res, 'C08.c', func_where(ffi), [(u_.name.split('.')[-1], u_.runs) for u_ in du.units.values()],
                                      'element decoding'):
        res.add(ob)

    # ---- C08.f sub-element tiling
    seen_f = {}
    for key, title in (('pds', 'PDS sub-elements tag(4) length(3) value(L) tile the carrier; cursor steps by 7+L'),
                       ('icc', 'ICC TLV parts tag(1|2) length(1) value(L) tile the field; cursor steps by t+1+L')):
        if key not in du.units:
            continue
        u = du.units[key]

        def chk_f(p, mode, u=u):
            st = p.store
            args = p.interp.user['unit_args'][0]
            src = args[0].segs[0].src
            fails = []
            for first, last, s0, s1, head in iterations(p, func=u.name):
                seen_f[u.name] = seen_f.get(u.name, 0) + (mode == 'inv')
                curs = [(k, g) for k, g in s0.items() if k[0] == 'local' and isinstance(g, IntV)
                        and isinstance(s1.get(k), IntV)]
                if len(curs) != 1:
                    fails.append(soft('expected exactly one integer cursor in the sub-element loop'))
                    continue
                k, g = curs[0]
                post = s1[k]
                top = g.lin
                starts = []
                last_part = None
                for e, lo, hi, open_end in src_slices(p, src, func=u.name, since=first):
                    if e.seq > last:
                        break
                    if open_end:
                        fails.append(definite('open-ended slice inside the sub-element walk', e.node))
                        continue
                    if st.decide_eq0(lo - top) is True or any(st.decide_eq0(lo - s_) is True for s_ in starts):
                        pass
                    else:
                        fails += need_eq0(st, lo - top, f'{norm_text(e.node)} starts at {st.canon(lo)}, previous part ended '
                                                        f'at {st.canon(top)} (gap/overlap inside a sub-element)', e.node)
                    starts.append(lo)
                    last_part = (lo, hi)
                    if st.prove_ge0(hi - top):
                        top = hi
                fails += need_eq0(st, post.lin - top, f'cursor after the sub-element is {st.canon(post.lin)}, parts end at '
                                                      f'{st.canon(top)}', head.node)
                if u.name.endswith('_icc_to_dict') and last_part is not None:
                    # the header of an ICC sub-element is its tag (one or two bytes) and ONE length byte: this library's form of
                    # the TLV (the reference reading of C08; no encoder exists that could move with a different form)
                    lo_, hi_ = last_part
                    head_len = post.lin - g.lin - (hi_ - lo_)
                    fails += need_ge0(st, Lin.const(3) - head_len,
                                      f'an ICC sub-element takes {st.canon(head_len)} header bytes in front of its value: more than a '
                                      f'two-byte tag and one length byte (a length byte of 0x81..0xFF is not a long-form marker here)',
                                      head.node)
            return fails
        res.add(require_instances(u.runs.judge('C08.f', title, func_where(u.fi), 'field_pointer += ...', chk_f, rule=f'C08.f.{key}'),
                                  seen_f.get(u.name), 'a loop iteration of the sub-element walk'))

        def chk_exit(p, mode, u=u):
            """leaving the walk through its loop condition means no unread bytes remain"""
            if p.outcome != 'return':
                return []
            st = p.store
            src = p.interp.user['unit_args'][0][0].segs[0].src
            fails = []
            if mode == 'inv':
                exits = [e for e in p.events if e.kind == 'loop-exit' and e.under(u.name) and e.data['how'] == 'cond']
                heads = [e for e in p.events if e.kind == 'loop-head' and e.under(u.name)]
                if not exits and heads:
                    # `while True: if not cursor < len(data): break`: a break that is only taken when nothing is left plays the
                    # part of the loop condition (a break that leaves data behind, like the ICC stop tag, is not judged here)
                    brk = [e for e in p.events if e.kind == 'loop-exit' and e.under(u.name) and e.data['how'] == 'break']
                    ints = [g for k, g in heads[-1].data['gen'].items() if k[0] == 'local' and isinstance(g, IntV)]
                    if brk and ints and all(st.prove_ge0(c.lin - src.length) for c in ints):
                        seen_f[u.name + '.exit'] = seen_f.get(u.name + '.exit', 0) + 1
                    return []
                if not exits or not heads:
                    return []
                curs = [g for k, g in heads[-1].data['gen'].items() if k[0] == 'local' and isinstance(g, IntV)]
            else:
                ends = [e for e in p.events if e.kind == 'loop-end-snap' and e.under(u.name)]
                if not ends:
                    return []
                names = chk_exit.names
                curs = [v for k, v in ends[-1].data['snap'].items() if k[0] == 'local' and k[1] in names and isinstance(v, IntV)]
                # a walk left by break does not record an end snapshot for the condition exit; only condition exits here
            if mode == 'inv':
                for k, g in heads[-1].data['gen'].items():
                    if k[0] == 'local' and isinstance(g, IntV):
                        chk_exit.names.add(k[1])
            seen_f[u.name + '.exit'] = seen_f.get(u.name + '.exit', 0) + (mode == 'inv' and bool(curs))
            for c in curs:
                fails += need_ge0(st, c.lin - src.length, f'the sub-element walk stops at offset {st.canon(c.lin)} although '
                                                          f'{st.canon(src.length)} bytes are present: trailing sub-elements are dropped')
            return fails
        chk_exit.names = set()
        res.add(require_instances(
            u.runs.judge('C08.f', f'{key.upper()} walk: leaving the loop through its condition means the whole field was consumed',
                         func_where(u.fi), 'while field_pointer < len(field_data)', chk_exit, rule=f'C08.f.exit.{key}'),
            seen_f.get(u.name + '.exit'), 'an exit of the sub-element walk through its loop condition with an integer cursor'))


def flagged_parsed_ob(prog, res, du, dfi):
    from .c01 import decoder_iterations
    ob = Ob('C08.g', 'an element is parsed if and only if its own bitmap flag is set (no flagged element is skipped, none is invented)',
            func_where(dfi), 'if bitmap_list[bit]: ... _iso8583_to_field(...)')
    recs = decoder_iterations(du, dfi)
    seen = [r for r in recs if r['flag'] is not None]
    bad = [r for r in seen if r['flag'] != r['parsed']]
    res.count(evaluations=len(recs))
    early = []
    for p in du.loads.inv:
        if p.unknowns or p.tainted:
            continue
        for e in p.events:
            if e.kind == 'loop-exit' and e.data.get('how') == 'break' and e.under(dfi.short) and isinstance(e.node, ast.For):
                early.append((p, e))
    if early:
        p, e = early[0]
        w = p.store.witness()
        if w is not None:
            ob.verdict = REFUTED
            ob.detail = ('the element loop is left by `break` before the remaining bitmap flags were examined: an element flagged '
                         'after that point (or an unconfigured one) is silently ignored and the message is accepted')
            ob.witness = {k: v for k, v in w.items() if not k.startswith('len<')}
            return ob
    unk = [u for r in recs for u in r['path'].unknowns]
    if unk:
        ob.verdict, ob.detail = UNDECIDED, f'construct outside the interpreted fragment: {unk[0][0]}'
    elif not seen:
        ob.verdict, ob.detail = UNDECIDED, 'no test of the element flag observed in the element loop'
    elif any(r.get('extra_filters') for r in recs) and not bad:
        e = next(r['extra_filters'][0] for r in recs if r.get('extra_filters'))
        ob.verdict, ob.detail = UNDECIDED, (f'the collection the element loop runs over is built with the filter `{e.data["text"]}`, which is not '
                                            'the test of the element\'s own bitmap flag: it is not shown that no flagged element is dropped')
    elif bad:
        r = bad[0]
        other = r.get('other_tests')
        why = 'is set but the element is not parsed' if r['flag'] else 'is clear but an element is parsed'
        extra = f' (the path also tests bit-list positions {[str(r["path"].store.canon(i)) for i, _t in other]})' if other else ''
        w = r['path'].store.witness()
        if w is None:
            ob.verdict, ob.detail = UNDECIDED, f'the flag of an element {why}, but no witness was found'
        else:
            ob.verdict, ob.detail, ob.witness = REFUTED, f'the bitmap flag of an element {why}{extra}: framing no longer follows the bitmap', \
                {k: v for k, v in w.items() if not k.startswith('len<')}
            ob.construct = norm_text(r['node'])[:120] if False else ob.construct
    else:
        ob.verdict, ob.detail = PROVED, f'{len(seen)} iteration paths: flag set <=> element parsed'
    return ob


def seqops_eq(p, a, b):
    from .. import seqops
    return isinstance(a, SeqV) and isinstance(b, SeqV) and seqops.seq_eq_structural(p.interp, a, b) is True


def _sym_tags(p, sym):
    o = p.interp.origin.get(sym)
    if o is None:
        return ()
    if o[0] in ('int', 'unpack'):
        v = o[1] if o[0] == 'int' else o[2]
        if 'wire' in value_tags(v):
            return ('wire-int',)
    return ()


def _locals_at(p, ev):
    """values of the caller frame's locals at the time of event `ev` (approximated by the latest snapshot)."""
    vals = []
    for e in p.events:
        if e.seq > ev.seq:
            break
        if e.kind == 'enter' and e.data['callee'] == ev.func:
            vals = list(e.data['locals'].values())
        if e.kind == 'loop-head' and e.under(ev.func):
            vals = vals + [v for v in e.data['pre'].values() if v is not None]
    # plus every value assigned so far: collect from slice results and unpack results
    for e in p.events:
        if e.seq > ev.seq:
            break
        if e.kind == 'ext-call' and e.under(ev.func) and isinstance(e.data.get('result'), TupleV):
            vals.extend(e.data['result'].items)
        if e.kind == 'slice' and e.under(ev.func):
            vals.append(e.data['result'])
    return vals
