"""C05 - 1014 unblocking: refill, sufficiency, partition, read-all, validation ladder, termination."""
from __future__ import annotations

import ast

from ..lin import Lin, Infeasible
from ..avals import *   # noqa
from ..decide import require_instances, Runs, need_ge0, need_eq0, definite, soft, iterations
from ..report import Ob, PROVED, REFUTED, UNDECIDED, func_where, ASSUMPTIONS, Failure
from ..model import norm_text, AnalysisError
from ..units import exc_key
from .. import seqops
from .vbs import same_seq, MLIB
from .c04 import is_pad_seg, PAYLOAD, BLOCK, TRAILER, PAD

WIRE = frozenset(['wire'])
READ = 'mciipm.Unblock1014.read'


def unblock_entry(prog, with_size=True, keyword=None):
    ufi = prog.func(READ)
    ci = prog.cls('mciipm.Unblock1014')

    def entry(it):
        f = it.new_file('in', tags=WIRE)
        obj = it.instantiate(ci, [f], {}, None)
        buf = it.sym_bytes('buffered', tags=WIRE)
        from .common import set_state
        if not set_state(it, obj, 'buffer', buf):
            raise AnalysisError('Unblock1014.buffer (anchored state) is not initialised by the constructor')
        it.user.update(file=f, obj=obj, buf0=buf)
        args = []
        if with_size:
            n = it.sym_int('n', 1, None)
            it.user['n'] = n
            args = [n]
        if keyword and args:
            return it.call_function(ufi, [], {keyword: args[0]}, self_obj=obj)
        return it.call_function(ufi, args, {}, self_obj=obj)
    return entry


def buffer_at_exit(p):
    """The buffer value when the refill loop was left (generalised loop-head value, or entry value)."""
    heads = [e for e in p.events if e.kind == 'loop-head' and e.under(READ)]
    if heads:
        head = heads[-1]
        # left through a break after the body extended the buffer: the value stored last before the exit
        exits = [e for e in p.events if e.kind == 'loop-exit' and e.seq > head.seq and e.under(READ)]
        if exits and exits[-1].data.get('how') == 'break':
            sets = [e for e in p.events if e.kind == 'setattr' and e.data['attr'] == 'buffer' and head.seq < e.seq < exits[-1].seq]
            if sets:
                return sets[-1].data['value']
        for k, g in head.data['gen'].items():
            if k[0] in ('attr', 'cattr') and k[1] == 'buffer' and g is not None:
                return g
    # unrolled run: the buffer after the last refill = value stored by the assignment that follows the last
    # non-empty file read (refill append), else the entry value
    val = p.interp.user['buf0']
    f = p.interp.user['file']
    evs = [e for e in p.events if e.under(READ)]
    for i, e in enumerate(evs):
        if e.kind == 'read' and e.data['file'] is f:
            nxt = next((x for x in evs[i + 1:] if (x.kind == 'setattr' and x.data['attr'] == 'buffer')
                        or (x.kind == 'read' and x.data['file'] is f) or x.kind == 'return'), None)
            if nxt is not None and nxt.kind == 'setattr' and st_nonempty(p, e):
                val = nxt.data['value']
    return val


def st_nonempty(p, read_event):
    return p.store.decide_eq0(read_event.data['data'].length()) is not True


def check(prog, res, tier):
    res.assumptions = [ASSUMPTIONS['A3'], ASSUMPTIONS['A4']]
    res.explanation = (
        'Abstract interpretation of Unblock1014.read over a symbolic buffer, file and request size (with and without '
        'a size argument): each refill reads one block and appends its first 1012 bytes at the end of the buffer; '
        'leaving the loop through its condition implies enough bytes; returned value ++ kept buffer == buffer; '
        'read-all returns everything.  unblock_1014: both validations dominate the payload write (decision ladder).')
    ufi = prog.func(READ)
    runs_n = Runs(prog, unblock_entry(prog, True), res=res)
    runs_all = Runs(prog, unblock_entry(prog, False), res=res)

    # ---- C05.a refill
    def chk_a(p, mode):
        fails = []
        st = p.store
        for first, last, s0, s1, head in iterations(p, func=READ):
            f = p.interp.user['file']
            reads = [e for e in p.events if e.kind == 'read' and e.data['file'] is f and first < e.seq < last]
            if len(reads) != 1:
                fails.append(definite(f'{len(reads)} reads per refill iteration, expected one block'))
                continue
            r = reads[0]
            sz = r.data['size']
            if sz is None:
                fails.append(definite('refill reads the whole file at once', r.node))
                continue
            szc = st.canon(Lin.of(sz))
            if szc.is_const() and szc.c > BLOCK and szc.c % BLOCK == 0:
                # several whole blocks per read: a different design of the refill, which this rule (one block per iteration,
                # its first 1012 bytes appended) does not model
                fails.append(soft(f'refill reads {szc.c // BLOCK} blocks ({szc.c} bytes) at a time: a multi-block refill is '
                                  f'outside the model of this rule', r.node))
                continue
            fails += need_eq0(st, Lin.of(sz) - BLOCK, f'refill reads {st.canon(Lin.of(sz))} bytes, not one {BLOCK}-byte block', r.node)
            block = r.data['data']
            pre = s0.get(('attr', 'buffer'))
            post = s1.get(('attr', 'buffer'))
            if not (isinstance(pre, SeqV) and isinstance(post, SeqV)):
                # unrolled mode: buffer values are not in the int snapshot; use setattr events
                sets = [e for e in p.events if e.kind == 'setattr' and e.data['attr'] == 'buffer' and first < e.seq <= last]
                if not sets:
                    # the iteration that meets the end of the data reads nothing and adds nothing
                    fails += need_eq0(st, block.length(), 'a refill iteration reads a non-empty block but does not extend the buffer', r.node)
                    continue
                pre, post = sets[-1].data['old'], sets[-1].data['value']
            if not (isinstance(pre, SeqV) and isinstance(post, SeqV)):
                fails.append(soft('buffer is not a byte sequence'))
                continue
            npre = len(pre.segs)
            head_ok = len(post.segs) >= npre and seqops.seq_eq_structural(p.interp, pre, SeqV(post.kind, post.segs[:npre])) is True
            if not head_ok:
                fails.append(definite(f'refill does not append at the end of the buffer: before {pre!r}, after {post!r}', r.node))
                continue
            tail = post.segs[npre:]
            bs = block.segs[0] if block.segs else None
            if bs is None:
                continue
            if len(tail) != 1 or not isinstance(tail[0], Sl) or tail[0].src is not bs.src:
                fails.append(definite(f'refill appends {tail!r}, not a prefix of the block just read', r.node))
                continue
            t = tail[0]
            fails += need_eq0(st, t.lo - bs.lo, 'appended payload does not start at the beginning of the block', r.node)
            ln = t.hi - t.lo
            fails += need_ge0(st, Lin.const(PAYLOAD) - ln, f'more than {PAYLOAD} bytes of a block are kept (trailer leaks into the data)', r.node)
            # either the whole (short) block or exactly 1012 bytes
            if st.decide_eq0(t.hi - bs.hi) is not True:
                fails += need_eq0(st, ln - PAYLOAD, f'only {st.canon(ln)} payload bytes of a full block are kept', r.node)
        return fails
    res.add(runs_n.judge('C05.a', 'each refill reads one 1014-byte block and appends its first 1012 bytes at the end of the buffer',
                         func_where(ufi), 'self.buffer += block[:1012]', chk_a))

    # ---- C05.b sufficiency + C05.c partition
    def chk_b(p, mode):
        if p.outcome != 'return':
            return []
        exits = [e for e in p.events if e.kind == 'loop-exit' and e.under(READ)]
        if mode == 'inv' and exits and exits[-1].data['how'] == 'cond':
            # the condition itself may have tried to refill and met the end of the file:  while short and self._refill(): ...
            heads = [e for e in p.events if e.kind == 'loop-head' and e.node is exits[-1].node]
            f = p.interp.user['file']
            if heads:
                late = [e for e in p.events if e.kind == 'read' and e.data['file'] is f and heads[-1].seq < e.seq < exits[-1].seq]
                if late and p.store.decide_eq0(late[-1].data['data'].length()) is True:
                    return []
            g = buffer_at_exit(p)
            n = p.interp.user['n']
            return need_ge0(p.store, g.length() - n.lin, 'the refill loop can stop with fewer buffered bytes than requested '
                                                         'although the file is not exhausted', exits[-1].node)
        if mode == 'unroll':
            # left by condition (no break): last read was not empty
            f = p.interp.user['file']
            reads = [e for e in p.events if e.kind == 'read' and e.data['file'] is f]
            eof = reads and p.store.decide_eq0(reads[-1].data['data'].length()) is True
            if not eof:
                g = buffer_at_exit(p)
                n = p.interp.user['n']
                return need_ge0(p.store, g.length() - n.lin, 'the refill loop stops with fewer buffered bytes than requested '
                                                             'although the file is not exhausted')
        return []
    res.add(runs_n.judge('C05.b', 'when the refill loop ends before end of file the buffer holds at least the requested bytes',
                         func_where(ufi), 'while ... len(self.buffer) <= bytes_to_read', chk_b))

    def chk_c(p, mode):
        if p.outcome != 'return':
            return [definite('read() raises')] if p.outcome == 'raise' else []
        g = buffer_at_exit(p)
        out = p.value
        keep = p.interp.user['obj'].fields.get('buffer')
        if not (isinstance(out, SeqV) and isinstance(keep, SeqV) and isinstance(g, SeqV)):
            return [soft('read() result is not a byte sequence')]
        both = seqops.concat(p.interp, out, keep)
        fails = []
        if not same_seq(p, both, g):
            fails.append(definite(f'returned bytes ++ kept buffer != buffer: returned {out!r}, kept {keep!r}, buffer {g!r}'))
        n = p.interp.user.get('n')
        if n is not None:
            fails += need_ge0(p.store, n.lin - out.length(), 'more bytes than requested are returned')
            if p.store.decide_eq0(out.length() - n.lin) is not True:
                fails += need_eq0(p.store, keep.length(), 'fewer bytes than requested are returned although more are buffered')
        return fails
    res.add(runs_n.judge('C05.c', 'read(n) returns buffer[:k] and keeps buffer[k:] with the same k = min(n, available)',
                         func_where(ufi), 'output = self.buffer[:n]; self.buffer = self.buffer[n:]', chk_c))

    # ---- C05.b whatever the refill looks like: a sized read comes back short only when the file is exhausted
    def chk_short(p, mode):
        if p.outcome != 'return':
            return []
        out, n, f = p.value, p.interp.user['n'], p.interp.user['file']
        if not isinstance(out, SeqV):
            return [soft('read() result is not a byte sequence')]
        st = p.store
        # (a path that never touched the file has no content yet: coming back short there is coming back short without looking)
        conds = [n.lin - out.length() - 1] + ([f.src.length - f.pos - 1] if f.src is not None else [])
        trial = st.copy()
        try:
            for x in conds:
                if trial.refutes_ge0(x):
                    return []
                trial.assume_ge0(x)
        except Infeasible:
            return []
        return [Failure('read(n) returns fewer bytes than requested although the blocked file is not exhausted (the caller takes '
                        'a short read for the end of the data)', neg=[conds])]
    res.add(runs_n.judge('C05.b', 'a sized read returns fewer bytes than requested only when the wrapped file is exhausted',
                         func_where(ufi), 'output = self.buffer[:bytes_to_read]', chk_short, rule='C05.b.short'))

    # ---- C05.c the same through the documented keyword of the pinned interface: read(bytes_to_read=n)
    runs_kw = Runs(prog, unblock_entry(prog, True, keyword='bytes_to_read'), res=res)

    def chk_kw(p, mode):
        if p.outcome == 'raise':
            exc = p.value
            if getattr(exc, 'cls', None) is TypeError or getattr(getattr(exc, 'cls', None), '__name__', '') == 'TypeError':
                return [definite('read(bytes_to_read=n), the keyword of the documented signature, is no longer accepted', firm=True)]
            return []
        if p.outcome != 'return' or not isinstance(p.value, SeqV):
            return []
        n = p.interp.user['n']
        return need_ge0(p.store, n.lin - p.value.length(), 'read(bytes_to_read=n) returns more bytes than requested (the keyword is '
                                                             'accepted but does not limit the read)')
    res.add(runs_kw.judge('C05.c', 'read(bytes_to_read=n), by keyword, returns at most n bytes', func_where(ufi),
                          'def read(self, bytes_to_read=0)', chk_kw, rule='C05.c.keyword'))

    # ---- C05.d read-all
    def chk_d(p, mode):
        if p.outcome != 'return':
            return [definite('read() raises')] if p.outcome == 'raise' else []
        g = buffer_at_exit(p)
        out = p.value
        keep = p.interp.user['obj'].fields.get('buffer')
        if not (isinstance(out, SeqV) and isinstance(keep, SeqV)):
            return [soft('read() result is not a byte sequence')]
        fails = []
        if not same_seq(p, out, g):
            if any(isinstance(x, Opq) for v in (out, g) for x in v.segs):
                # the refill is not the block-by-block loop this rule follows: what is returned could not be compared
                fails.append(soft(f'read() without a size returns {out!r}, which could not be compared with the buffered data {g!r}'))
            else:
                fails.append(Failure(f'read() without a size returns {out!r} although the buffer holds {g!r}',
                                     neg=[[g.length() - 1]]))
        fails += need_eq0(p.store, keep.length(), 'read() without a size leaves bytes in the buffer (they would be delivered twice)')
        # the loop must have run to end of file
        f = p.interp.user['file']
        src = f.src
        if src is not None:
            fails += need_eq0(p.store, src.length - f.pos, 'read() without a size stops before the end of the file')
        return fails
    res.add(runs_all.judge('C05.d', 'read() without a size returns everything that remains and empties the buffer',
                           func_where(ufi), 'read_all path of Unblock1014.read', chk_d))

    # ---- C05.f termination
    from .c07 import progress_ob
    loops = [n for n in ast.walk(ufi.node) if isinstance(n, ast.While)]
    for p_ in runs_n.inv:
        # refill loops moved into helpers / generators called by read()
        for e in p_.events:
            if e.kind == 'loop-head' and isinstance(e.node, ast.While) and e.under(READ) and e.node not in loops:
                loops.append(e.node)
    for ln in loops:
        ob = progress_ob(prog, res, prog.node_owner.get(id(ln), ufi), ln, runs_n)
        ob.oid = 'C05.f'
        ob.rule = 'C05.f'
        res.add(ob)

    # ---- C05.e validation ladder of unblock_1014
    vfi = prog.func('mciipm.unblock_1014')

    def entry_v(it):
        fin = it.new_file('in', tags=WIRE)
        fout = it.new_file('out')
        it.user.update(fin=fin, fout=fout)
        return it.call_function(vfi, [fin, fout], {})
    runs_v = Runs(prog, entry_v, res=res)

    seen_e = {'reads': 0}

    def chk_e(p, mode):
        fails = []
        st = p.store
        fin, fout = p.interp.user['fin'], p.interp.user['fout']
        last_read = None
        for e in p.events:
            if e.kind == 'read' and e.data['file'] is fin:
                last_read = e
                sz = e.data['size']
                szc = st.canon(Lin.of(sz)) if sz is not None else None
                if szc is None or not szc.is_const() or abs(szc.c - BLOCK) > 2:
                    # a bulk read with the blocks validated and cut out afterwards: not the block-by-block ladder this rule
                    # follows.  Reading the *other* block constant (1012 for 1014) stays a violation.
                    seen_e['reads'] += mode == 'inv'
                    return fails + [soft(f'unblock_1014 reads {sz if sz is not None else "the whole input"} bytes at a time and cuts the '
                                         f'blocks out afterwards: outside the model of this rule', e.node)]
                fails += need_eq0(st, Lin.of(sz) - BLOCK, f'unblock_1014 reads {sz} bytes per block', e.node)
            if e.kind == 'write' and e.data['file'] is fout:
                d = e.data['data']
                if last_read is None:
                    fails.append(definite('payload written before any block was read', e.node))
                    continue
                blk = last_read.data['data']
                fails += need_eq0(st, blk.length() - BLOCK, 'payload of an incomplete block is written (size not validated '
                                                            'before the write)', e.node)
                # trailer validated: a fact blk[-2:] == PAD*2 must be on the path with truth False for '!=' ...
                ok_tr = False
                for kind, truth, data in p.facts:
                    if kind == 'seq-eq' and truth:
                        a, b = data.get('a'), data.get('b')
                        for x, y in ((a, b), (b, a)):
                            if isinstance(y, SeqV) and y.is_lit() and y.lit_value() == bytes([PAD]) * 2 and isinstance(x, SeqV) \
                                    and len(x.segs) == 1 and isinstance(x.segs[0], Sl) and blk.segs and x.segs[0].src is blk.segs[0].src \
                                    and st.decide_eq0(x.segs[0].hi - blk.segs[0].hi) is True \
                                    and st.decide_eq0(x.segs[0].hi - x.segs[0].lo - 2) is True:
                                ok_tr = True
                if not ok_tr:
                    fails.append(definite('payload is written without the block trailer having compared equal to two 0x40 bytes', e.node))
                if not (isinstance(d, SeqV) and len(d.segs) == 1 and isinstance(d.segs[0], Sl) and blk.segs
                        and d.segs[0].src is blk.segs[0].src and st.decide_eq0(d.segs[0].lo - blk.segs[0].lo) is True
                        and st.decide_eq0(d.segs[0].hi - d.segs[0].lo - PAYLOAD) is True):
                    fails.append(definite(f'payload written is {d!r}, not the first {PAYLOAD} bytes of the block', e.node))
        # every block that is read and not refused is written: between a read and the next read / the end of the path
        # its payload goes to the output (only the empty read at the end of the data writes nothing)
        if p.outcome in ('return', 'loopback'):
            evs = [e for e in p.events if (e.kind == 'read' and e.data['file'] is fin) or (e.kind == 'write' and e.data['file'] is fout)]
            for i, e in enumerate(evs):
                if e.kind != 'read':
                    continue
                seen_e['reads'] += mode == 'inv'
                blk = e.data['data']
                nxt = evs[i + 1] if i + 1 < len(evs) else None
                written = nxt is not None and nxt.kind == 'write' and isinstance(nxt.data['data'], SeqV) and blk.segs and \
                    any(isinstance(g, Sl) and g.src is blk.segs[0].src for g in nxt.data['data'].segs)
                if not written:
                    fails += need_eq0(st, blk.length(), 'a block is read and accepted but its payload is not written to the output',
                                      e.node)
        if p.outcome == 'return':
            # normal end only at an empty read
            if last_read is not None:
                fails += need_eq0(st, last_read.data['data'].length(), 'unblock_1014 ends normally on a non-empty read')
        if p.outcome == 'raise' and exc_key(p.value.cls) != MLIB:
            fails.append(definite(f'unblock_1014 raises {p.value!r}'))
        return fails
    res.add(require_instances(
        runs_v.judge('C05.e', 'unblock_1014 writes block[0:1012] of every block, and only after validating size 1014 and trailer '
                              '0x40 0x40; it ends normally only at an empty read', func_where(vfi), 'size / trailer validation ladder', chk_e),
        seen_e['reads'], 'a read of the input by unblock_1014'))

    def chk_e2(p, mode):
        """every short or badly terminated block is refused"""
        if p.outcome != 'raise':
            return []
        return []
    # refusal: a path on which a non-empty block of wrong size or wrong trailer is accepted would have been caught by
    # C05.e (write dominated by both tests); here: the rejecting branches raise the library error
    def chk_e3(p, mode):
        if p.outcome == 'raise' and exc_key(p.value.cls) == MLIB:
            return []
        if p.outcome == 'raise':
            return [definite(f'refusal uses {p.value!r} instead of the library error')]
        return []
    res.add(runs_v.judge('C05.e', 'unblock_1014 refuses invalid input with the library error only', func_where(vfi),
                         'raise MciIpmDataError(...)', chk_e3, rule='C05.e.error'))
