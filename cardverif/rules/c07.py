"""C07 - decoding never hangs or crashes: escape sets, handler adequacy, loop progress, no recursion."""
from __future__ import annotations

import ast
from re import error as re_error

from ..lin import Lin
from ..avals import *   # noqa
from ..avals import value_tags
from ..decide import Runs, need_ge0, need_eq0, definite, soft
from ..report import Ob, PROVED, REFUTED, UNDECIDED, func_where, ASSUMPTIONS, Failure, find_witness, loc
from ..model import norm_text, AnalysisError
from ..units import Unit, exc_key, exc_name, describe_exc
from .decode import DecodeUnits, codec, open_dict, WIRE
from . import common, readers


def refute_in_runs(runs, key):
    """Witness that exception `key` leaves the entry of `runs` (unrolled run; summary raises are refuted in
    their own unit)."""
    for p in runs.unr:
        if p.outcome != 'raise' or exc_key(p.value.cls) != key or p.tainted or p.unknowns:
            continue
        exc = p.value
        inner = None
        if getattr(exc, 'unit', None) is not None:
            inner = exc.unit.refute_escape(exc.unit_key)
            if inner is None:
                continue
        elif not exc.definite:
            continue
        w = find_witness(p, Failure('escape', neg=[[]]))
        if w is not None:
            return {'path': p, 'witness': w, 'inner': inner, 'exc': exc}
    return None


def innermost(ref):
    while ref.get('inner'):
        ref = ref['inner']
    return ref


def escape_obs(prog, res, oid, title, fi, runs, allowed, blocked_extra=()):
    """One PROVED obligation for the entry, or one REFUTED obligation per offending raising site."""
    where = func_where(fi)
    offending = {}
    blocked = list(blocked_extra)
    for p in runs.inv:
        if p.outcome == 'abandon':
            blocked.append(f'path abandoned: {p.value}')
        elif p.outcome == 'raise':
            k = exc_key(p.value.cls)
            if k not in allowed:
                site = (k, id(p.value.node))
                offending.setdefault(site, p)
        if p.tainted:
            blocked.append(f'decision depends on unknown value: {p.tainted[0]}')
        for u in p.unknowns:
            blocked.append(f'construct outside the interpreted fragment: {u[0]}')
    res.count(evaluations=len(runs.inv))
    obs = []
    n_raise = sum(1 for p in runs.inv if p.outcome == 'raise')
    if not offending:
        ob = Ob(oid, title, where, f'escapes({fi.short})')
        if blocked:
            ob.verdict, ob.detail = UNDECIDED, sorted(set(blocked))[0]
        else:
            esc = sorted({exc_name(p.value.cls) for p in runs.inv if p.outcome == 'raise'})
            ob.verdict = PROVED
            ob.detail = f'escape set {{{", ".join(esc)}}} over {len(runs.inv)} abstract paths ({n_raise} raising)'
        ob.abstract = {'escape_set': sorted({exc_name(p.value.cls) for p in runs.inv if p.outcome == 'raise'}),
                       'discharged_operations': sorted({f"{e.data['op']}: {e.data['why']}" for p in runs.inv
                                                        for e in p.evs('op-discharged')})[:12]}
        obs.append(ob)
        return obs
    for (k, _nid), p in sorted(offending.items(), key=lambda kv: kv[0][0]):
        exc = p.value
        node = exc.node
        construct = norm_text(node) if node is not None else k
        owner = prog.node_owner.get(id(node)) if node is not None else None
        ob = Ob(oid, title, func_where(owner) if owner else where, construct,
                rule=f'{oid}.{fi.short}.{exc_name(exc.cls)}')
        ref = refute_in_runs(runs, k)
        desc = f'{describe_exc(prog, exc)} escapes {fi.short} (allowed: {", ".join(sorted(a.split(".")[-1] for a in allowed))})'
        if ref is not None and exc_key(innermost(ref)['exc'].cls) == k:
            ob.verdict = REFUTED
            ob.detail = desc
            w = dict(innermost(ref)['witness'])
            ob.witness = w
        else:
            ob.verdict = UNDECIDED
            ob.detail = 'may escape but no concrete refutation: ' + desc
        obs.append(ob)
    return obs


def check(prog, res, tier):
    res.assumptions = [ASSUMPTIONS['A1'], ASSUMPTIONS['A3'], ASSUMPTIONS['A4']]
    res.explanation = (
        'Exception-escape analysis by abstract interpretation with raising-operation forks: every operation of the '
        'effect table (int(), struct.unpack, unhexlify, decode, strptime, Decimal, indexing, dict lookup, pop, next) '
        'whose safety is not established by an abstract fact forks a path on which it raises; handlers are matched '
        'with the real class hierarchy; escape sets of the decode entry points are compared with the library error. '
        'Loop progress: ranking arguments (cursor / shrinking slice / file position) checked at every back edge.')
    du = DecodeUnits(prog, res)
    lib = 'cardutil.iso8583.Iso8583DataError'
    mlib = 'cardutil.mciipm.MciIpmDataError'

    # ---------------- C07.a escape sets
    loads_fi = prog.func('iso8583.loads')
    blocked = []
    for u in du.units.values():
        blocked += u.blocked()
    for ob in escape_obs(prog, res, 'C07.a', 'only the library data error escapes iso8583.loads', loads_fi,
                         du.loads, {lib}, blocked):
        res.add(ob)

    loads_unit = du.loads_unit()
    loads_unit.runs = du.loads if False else loads_unit.runs
    reader_summ = {loads_unit.name: loads_unit.summary()}

    def vbs_entry(cls, blocked_flag):
        def entry(it):
            kw = {}
            if cls == 'mciipm.IpmReader':
                kw = {'encoding': codec(it), 'iso_config': common.generic_bit_config(it)}
            obj, f = readers.make_vbs_reader(it, prog, cls, blocked=blocked_flag, extra_kwargs=kw)
            vd = obj.fields.get('vbs_data')
            if isinstance(vd, ObjV):
                common.set_state(it, vd, 'buffer', it.sym_bytes('buffered', tags=WIRE))
            r = obj.cls.lookup('__next__')
            return it.call_function(r[1], [], {}, self_obj=obj)
        return entry

    stop = 'builtins.StopIteration'
    ipm_runs = []
    for cls in ('mciipm.VbsReader', 'mciipm.IpmReader'):
        ci = prog.cls(cls)
        nfi = ci.lookup('__next__')[1]
        for bl in (False, True):
            runs = Runs(prog, vbs_entry(cls, bl), raise_ops=True, summaries=reader_summ, hooks=common.HOOKS, res=res)
            if cls == 'mciipm.IpmReader':
                ipm_runs.append(runs)
            for ob in escape_obs(prog, res, 'C07.a',
                                 f'only the library data error or StopIteration escapes {ci.name}.__next__ '
                                 f'({"1014-blocked" if bl else "unblocked"})',
                                 nfi, runs, {mlib, stop}, blocked):
                ob.rule = (ob.rule or 'C07.a') + ('.blocked' if bl else '.vbs')
                ob.construct = ob.construct + (' [blocked]' if bl else ' [vbs]') if ob.verdict == PROVED else ob.construct
                res.add(ob)

    # Unblock1014.read raises nothing
    ufi = prog.func('mciipm.Unblock1014.read')

    def unblock_entry(it):
        ci = prog.cls('mciipm.Unblock1014')
        f = it.new_file('in', tags=WIRE)
        obj = it.instantiate(ci, [f], {}, None)
        common.set_state(it, obj, 'buffer', it.sym_bytes('buffered', tags=WIRE))
        it.user.update(file=f, obj=obj)
        n = it.sym_int('n', 0, None)
        return it.call_function(ufi, [n], {}, self_obj=obj)
    runs_u = Runs(prog, unblock_entry, raise_ops=True, res=res)
    for ob in escape_obs(prog, res, 'C07.a', 'no exception escapes Unblock1014.read', ufi, runs_u, set()):
        res.add(ob)

    # vbs_bytes_to_list
    if prog.has_func('mciipm.vbs_bytes_to_list'):
        lfi = prog.func('mciipm.vbs_bytes_to_list')
        ci = prog.cls('mciipm.VbsReader')
        nfi = ci.lookup('__next__')[1]
        vbs_unit_runs = Runs(prog, vbs_entry('mciipm.VbsReader', None), raise_ops=True, res=res)
        esc = {exc_key(p.value.cls) for p in vbs_unit_runs.inv if p.outcome == 'raise'}
        ob = Ob('C07.a', 'vbs_bytes_to_list raises only the library data error (iteration absorbs StopIteration)',
                func_where(lfi), 'VbsReader(file_in, **kwargs)')
        # structural: the function iterates a VbsReader; iteration absorbs StopIteration only
        src = ast.unparse(lfi.node)
        bad = sorted(e for e in esc if e not in (mlib, stop))
        uses_reader = any(isinstance(n, ast.Call) and isinstance(n.func, ast.Name) and n.func.id == 'VbsReader'
                          for n in ast.walk(lfi.node))
        if not uses_reader:
            ob.verdict, ob.detail = UNDECIDED, 'does not iterate a VbsReader any more'
        elif bad:
            ob.verdict, ob.detail = UNDECIDED, f'reader may raise {bad} (reported under VbsReader.__next__)'
        else:
            ob.verdict, ob.detail = PROVED, f'escapes(VbsReader.__next__) = {sorted(e.split(".")[-1] for e in esc)}; ' \
                                            f'the comprehension absorbs StopIteration'
        res.add(ob)

    # ---------------- C07.b handler adequacy (semantic: what happens to the library error of loads inside IpmReader)
    ipm_next = prog.cls('mciipm.IpmReader').lookup('__next__')[1]
    ob = Ob('C07.b', 'IpmReader.__next__ converts the library error of iso8583.loads into MciIpmDataError', func_where(ipm_next),
            'except <handler> around iso8583.loads(...)')
    unwrapped, wrapped = 0, 0
    for runs in ipm_runs:
        for p in runs.inv:
            caught = [e for e in p.evs('caught') if exc_key(e.data['exc'].cls) == lib and e.under(ipm_next.short)]
            if caught and p.outcome == 'raise' and exc_key(p.value.cls) == mlib:
                wrapped += 1
            if p.outcome == 'raise' and exc_key(p.value.cls) == lib:
                unwrapped += 1
    if unwrapped:
        ob.verdict, ob.detail, ob.witness = REFUTED, 'Iso8583DataError raised by loads leaves IpmReader.__next__ unconverted (no handler catches it)', {'paths': unwrapped}
    elif not wrapped:
        ob.verdict, ob.detail = UNDECIDED, 'no path on which the error of loads is caught and converted was observed'
    else:
        ob.verdict, ob.detail = PROVED, f'{wrapped} abstract paths catch Iso8583DataError and raise MciIpmDataError; none lets it through'
    res.add(ob)

    # the tools' entry points: interpreted with the conversion summarised as "returns or raises the library data error"
    from .tools import cli_error_obs
    for ob in cli_error_obs(prog, res, 'escape'):
        res.add(ob)

    # ---------------- C07.c loop progress
    loop_units = []
    if 'pds' in du.units:
        loop_units.append(('iso8583._pds_to_dict', du.units['pds'].runs))
    if 'icc' in du.units:
        loop_units.append(('iso8583._icc_to_dict', du.units['icc'].runs))
    loop_units.append(('mciipm.Unblock1014.read', runs_u))
    for q, runs in loop_units:
        fi = prog.func(q)
        loops = [n for n in ast.walk(fi.node) if isinstance(n, ast.While)]
        for ln in loops:
            res.add(progress_ob(prog, res, fi, ln, runs))

    # ---------------- C07.c the patterns the decoder matches wire data against cannot backtrack exponentially
    from ..regex_eda import exponential_repeats, Unsupported
    pats = []
    try:
        cfg = prog.config_literal()
    except AnalysisError:
        cfg = None
    if cfg is not None:
        for bit, ent in sorted((cfg.get('bit_config') or {}).items()):
            pc = ent.get('field_processor_config') if isinstance(ent, dict) else None
            if isinstance(pc, str) and pc:
                pats.append((f"config.config['bit_config']['{bit}']['field_processor_config']", pc, 0))
    for mod in prog.modules.values():
        if mod.name == '<builtins>' or '.vendor' in mod.name or mod.name.startswith('cardutil.cli'):
            continue
        for n in ast.walk(mod.tree):
            if isinstance(n, ast.Call) and isinstance(n.func, ast.Attribute) and isinstance(n.func.value, ast.Name) and \
                    n.func.value.id == 're' and n.func.attr in ('compile', 'match', 'search', 'fullmatch', 'sub', 'split', 'findall',
                                                                'finditer') and n.args and isinstance(n.args[0], ast.Constant) \
                    and isinstance(n.args[0].value, str):
                pats.append((f'{mod.name}: re.{n.func.attr}(...) line {n.lineno}', n.args[0].value, 0))
    ob = Ob('C07.c', 'no pattern that wire data is matched against has an exponentially ambiguous repetition (a failing match '
                     'terminates promptly instead of backtracking for hours)', 'cardutil/config.py:config', 'field_processor_config (DE43)')
    ob.rule = 'C07.c.regex'
    bad, undecided = [], []
    for where, pat, fl in pats:
        try:
            for w, fails_after in exponential_repeats(pat, fl):
                (bad if fails_after else undecided).append((where, w))
        except (Unsupported, re_error) as ex:
            undecided.append((where, f'not analysed: {ex}'))
    if not pats:
        ob.verdict, ob.detail = (UNDECIDED, 'no configured pattern was found (anti-vacuity)') if cfg is None else \
            (PROVED, 'the decoder matches wire data against no regular expression')
    elif bad:
        where, w = bad[0]
        ob.verdict = REFUTED
        ob.detail = (f'{where}: a repetition (X)+ in which X matches {w[:len(w) // 2]!r}, {w[len(w) // 2:]!r} and also their '
                     f'concatenation {w!r}: a run of n such pieces splits in 2^n ways, all of which are tried when the rest of the '
                     f'pattern fails - loads() does not return for a long element of that shape')
        ob.witness = {'pattern': where, 'X matches': w, 'and': 'both halves of it'}
    elif undecided:
        ob.verdict, ob.detail = UNDECIDED, '; '.join(f'{a}: {b}' for a, b in undecided[:3])
    else:
        ob.verdict, ob.detail = PROVED, f'{len(pats)} patterns: every unbounded repetition is unambiguous under concatenation'
    res.add(ob)

    # ---------------- C07.d no recursion on the decode paths
    rec = []
    all_runs = [du.loads, runs_u] + [u.runs for u in du.units.values()]
    for r in all_runs:
        for p in r.inv:
            for e in p.evs('recursion'):
                rec.append(e.data['callee'])
            if p.outcome == 'abandon' and 'recursion' in str(p.value):
                rec.append(str(p.value))
    ob = Ob('C07.d', 'no recursion among the functions reachable from the decode entry points', 'cardutil/iso8583.py:loads',
            'call graph reachable from loads / readers')
    if rec:
        ob.verdict, ob.detail = UNDECIDED, f'recursive call encountered: {sorted(set(rec))}'
    else:
        ob.verdict, ob.detail = PROVED, f'{len(res.stats["functions"])} functions entered, no recursive call'
    res.add(ob)


def progress_ob(prog, res, fi, loop, runs):
    """Every path from the loop head to its back edge strictly advances a bounded measure."""
    cond = ast.unparse(loop.test)
    ob_where = func_where(fi)

    def chk(p, mode):
        if mode == 'inv':
            if p.outcome != 'loopback' or p.value is not loop:
                return []
            head = [e for e in p.events if e.kind == 'loop-head' and e.node is loop]
            back = [e for e in p.events if e.kind == 'loop-back' and e.node is loop]
            if not head or not back:
                return [soft('loop events missing')]
            h, b = head[-1], back[-1]
            st = p.store
            measures = []
            for k, g in h.data['gen'].items():
                post = b.data['post'].get(k)
                if isinstance(g, IntV) and isinstance(post, IntV):
                    measures.append((f'{k[1]}', post.lin - g.lin))
                if isinstance(g, SeqV) and isinstance(post, SeqV) and len(g.segs) == 1 and isinstance(g.segs[0], Sl):
                    if len(post.segs) == 1 and isinstance(post.segs[0], Sl) and post.segs[0].src is g.segs[0].src:
                        measures.append((f'start of {k[1]}', post.segs[0].lo - g.segs[0].lo))
            for fid, (f, pos) in b.data['files'].items():
                if fid in h.data['files']:
                    measures.append((f'position of {f.name}', pos - h.data['files'][fid][1]))
            best = None
            for name, step in measures:
                if st.prove_ge0(step - 1):
                    return []
                best = best or (name, step)
            if not measures:
                return [soft(f'no progress measure recognised for `while {cond}`', loop)]
            # report the cursor-like measure (first int/slice measure) as the failing one
            name, step = best
            return [Failure(f'loop `while {cond}` may not advance: step of {name} is {st.canon(step)} with bounds '
                            f'{st.bounds(step)}', node=loop, neg=[[-step]])]
        # unroll mode: compare the measure between two consecutive iterations
        fails = []
        iters = [i for i, e in enumerate(p.events) if e.kind == 'loop-iter' and e.node is loop]
        if not iters:
            return []
        # cursor variables: locals assigned in the body, observed at each iteration start via 'enter' locals not
        # available; use the recorded loop-iter snapshots
        snaps = [p.events[i].data.get('snap') for i in iters]
        ends = p.events[iters[-1]:]
        # the state after the last iteration matters only when the loop would go on (the path was cut at the unrolling bound):
        # an iteration after which the condition is false needs no progress
        cut = p.outcome == 'abandon'
        for a, bsnap in zip(snaps, snaps[1:] + ([p_end_snapshot(p, loop)] if cut else [])):
            if a is None or bsnap is None:
                continue
            prog_found = False
            cands = []
            for k, va in a.items():
                vb = bsnap.get(k)
                if isinstance(va, IntV) and isinstance(vb, IntV):
                    cands.append((k, vb.lin - va.lin))
                elif isinstance(va, Lin) and isinstance(vb, Lin):
                    cands.append((k, vb - va))
            for k, step in cands:
                if p.store.prove_ge0(step - 1):
                    prog_found = True
            if not prog_found and cands:
                for k, step in cands:
                    if isinstance(k, tuple) and k[0] == 'local':
                        fails.append(Failure(f'iteration of `while {cond}` does not advance {k[1]} '
                                             f'(step {p.store.canon(step)})', node=loop,
                                             neg=[[-s for (_k, s) in cands if not p.store.prove_ge0(s - 1)]]))
                        break
        return fails
    return runs.judge('C07.c', f'loop `while {cond}` makes progress on every iteration (termination)', ob_where,
                      f'while {cond}', chk, rule=f'C07.c.{fi.short}')


def p_end_snapshot(p, loop):
    for e in reversed(p.events):
        if e.kind == 'loop-end-snap' and e.node is loop:
            return e.data.get('snap')
    return None
