"""C12 - PDS packing: sub-element layout, carrier bound, order, no split, carriers; decode tiling via C08.f."""
from __future__ import annotations

import ast

from ..lin import Lin, Infeasible
from ..avals import *   # noqa
from ..avals import value_tags
from ..decide import benign_unknown, Runs, need_ge0, need_eq0, definite, soft, iterations
from ..report import Ob, PROVED, REFUTED, UNDECIDED, func_where, ASSUMPTIONS, Failure
from ..model import norm_text, AnalysisError
from .. import seqops
from . import common
from .decode import DecodeUnits, codec

PACK = 'iso8583._pds_to_de'
CAP = 999


def pds_dict(it):
    """A message dict holding PDSxxxx entries: 4-digit tags, values of 0..992 characters (A5)."""
    d = DictV(open_=True, desc='message')

    def key_elem(it2):
        tag = seqops.new_source(it2, 'tag', 'str', 4, 4, charset='digits')
        return seqops.concat(it2, seqops.lit('PDS'), seqops.whole(tag))

    def default(it2, key, node, strict):
        return it2.sym_str('pds_value', lo=0, hi=992)
    d.key_elem = key_elem
    d.default = default
    return d


def check(prog, res, tier):
    res.assumptions = [ASSUMPTIONS['A1'], ASSUMPTIONS['A4'], ASSUMPTIONS['A5']]
    res.explanation = (
        'The packer is interpreted for a symbolic set of PDSxxxx entries (4-digit tags, values of 0..992 characters): the '
        'descriptor appended per key must be tag(4 zero-filled) ++ length(3 zero-filled) ++ value; with the loop invariant '
        'len(carrier) <= 999 (checked inductive) every string handed over as a carrier is non-empty and at most 999 '
        'characters, flushes happen only between sub-elements; keys are visited in sorted order and carriers are taken '
        'in ascending element order; the decoder reads the same widths and radix (C08.f decides its tiling).')
    pfi = prog.func(PACK)

    def loop_head(it, st, pre, gen):
        # candidate invariant for string accumulators of the packer: len <= 999
        if it.stack and pfi.short in it.stack:        # the packer itself or a helper it calls (collect / emit phases)
            for k, g in gen.items():
                if isinstance(g, SeqV) and g.kind == 'str' and k[0] in ('local', 'ljoin'):
                    it.store.assume_ge0(Lin.const(CAP) - g.length())
                    it.user.setdefault('inv_vars', set()).add(k)

    def entry(it):
        d = pds_dict(it)
        it.user['d'] = d
        return it.call_function(pfi, [d], {})
    hooks = dict(common.HOOKS)
    hooks['loop_head'] = loop_head
    runs = Runs(prog, entry, hooks=hooks, res=res, unroll=3)

    acc_keys = {}

    def appended_part(p, s0, s1):
        """(accumulator key, list of segments appended in this iteration)"""
        inv = p.interp.user.get('inv_vars')
        if inv:
            acc_keys.setdefault('v', set()).update(inv)
        elif p.interp.an.mode == 'unroll':
            # unrolled paths have no generalised loop head: use the accumulators recognised on the inductive paths
            if 'v' not in acc_keys:
                for q in runs.inv:
                    acc_keys.setdefault('v', set()).update(q.interp.user.get('inv_vars') or ())
            inv = acc_keys.get('v') or None
        for k in s0:
            a, b = s0.get(k), s1.get(k)
            if inv and k not in inv:
                continue
            if k[0] in ('local', 'ljoin') and isinstance(a, SeqV) and isinstance(b, SeqV) and a.kind == 'str' and a is not b \
                    and len(b.segs) >= 3 and isinstance(b.segs[-1], Sl) and b.segs[-1].src.name.startswith('pds_value'):
                return k, a, b
        for k in s0:
            a, b = s0.get(k), s1.get(k)
            if inv and k in inv and isinstance(a, SeqV) and isinstance(b, SeqV):
                return k, a, b
        return None, None, None

    def carrier_appends(p, lo=None, hi=None):
        """list.append events that hand over a carrier: appends to a list that is itself the text accumulator (a list of
        sub-elements joined at the flush) are part of the accumulation, not hand-overs"""
        if 'v' not in acc_keys:
            for q in runs.inv:
                acc_keys.setdefault('v', set()).update(q.interp.user.get('inv_vars') or ())
        names = {k[1] for k in acc_keys.get('v', ()) if k[0] == 'ljoin'}
        out = []
        for e in p.events:
            if e.kind != 'list-append' or not e.under(pfi.short):
                continue
            if lo is not None and not (lo < e.seq < hi):
                continue
            tgt = e.node.func.value if isinstance(e.node, ast.Call) and isinstance(e.node.func, ast.Attribute) else None
            if isinstance(tgt, ast.Name) and tgt.id in names:
                continue
            out.append(e)
        return out

    # ---- C12.a sub-element layout  + invariant
    def chk_a(p, mode):
        fails = []
        st = p.store
        for first, last, s0, s1, head in iterations(p, func=pfi.short):
            k, a, b = appended_part(p, s0, s1)
            if k is None:
                if mode == 'inv':
                    fails.append(soft('no string accumulator found in the packing loop'))
                continue
            segs = list(b.segs)
            if len(segs) < 3:
                fails.append(definite(f'a sub-element is appended as {b!r}, not tag ++ length ++ value'))
                continue
            tag, ln, val = segs[-3], segs[-2], segs[-1]
            if not (isinstance(val, Sl) and st.decide_eq0(val.lo) is True and st.decide_eq0(val.hi - val.src.length) is True):
                fails.append(definite(f'the value part {val!r} is not the whole value unchanged'))
                continue
            if not (isinstance(ln, Num) and ln.base == 10 and ln.fill == '0' and ln.val is not None
                    and st.decide_eq0(ln.val - val.src.length) is True):
                fails.append(definite(f'the length part {ln!r} is not the zero-filled decimal length of the value'))
            else:
                if ln.minw != 3:
                    fails.append(definite(f'the length is rendered with minimum width {ln.minw}, not 3'))
                fails += need_eq0(st, ln.width - 3, f'length numeral is {st.canon(ln.width)} characters wide')
            if not (isinstance(tag, Num) and tag.base == 10 and tag.fill == '0'):
                fails.append(definite(f'the tag part {tag!r} is not a zero-filled decimal numeral'))
            else:
                if tag.minw != 4:
                    fails.append(definite(f'the tag is rendered with minimum width {tag.minw}, not 4'))
                fails += need_eq0(st, tag.width - 4, f'tag numeral is {st.canon(tag.width)} characters wide')
                # the tag numeral is the int of the key suffix
                o = p.interp.origin.get(tag.val.syms()[0]) if tag.val is not None and tag.val.syms() else None
                if not (o and o[0] == 'int' and isinstance(o[1], SeqV) and len(o[1].segs) == 1 and isinstance(o[1].segs[0], Sl)
                        and o[1].segs[0].src.name.startswith('tag')):
                    fails.append(definite('the tag numeral is not the number in the PDSxxxx key'))
            # invariant re-established
            fails += need_ge0(st, Lin.const(CAP) - b.length(), f'a carrier string may grow to {st.canon(b.length())} characters '
                                                                f'(bounds {st.bounds(b.length())}), more than {CAP}')
        return fails
    # ---- C12.a (acceptance) every admissible set is packed: tags of 4 digits, values of 0..992 characters
    def chk_accept(p, mode):
        if p.outcome != 'raise':
            return []
        exc = p.value
        return [definite(f'the packer refuses a set of sub-elements whose values all have 0..992 characters ({exc!r}): a value of '
                         f'992 characters fills a carrier exactly (7 + 992 = 999) and is representable',
                         getattr(exc, 'raise_node', None) or exc.node, firm=True)]
    chk_accept.no_return_ok = False
    res.add(runs.judge('C12.a', 'the packer accepts every set of PDS sub-elements with values of 0..992 characters', func_where(pfi),
                       '_pds_to_de(message) raises nothing for admissible values', chk_accept, rule='C12.a.accept'))

    res.add(runs.judge('C12.a', 'each sub-element is appended as tag(4 digits) ++ length(3 digits) ++ value and the carrier never exceeds 999 characters',
                       func_where(pfi), "add_output = f'{tag:04}{length:03}{value}'; if len(output + add_output) > 999: flush", chk_a))

    # ---- C12.c carrier bound at every hand-over, C12.d no split
    def chk_c(p, mode):
        fails = []
        st = p.store
        if mode == 'inv':
            for first, last, s0, s1, head in iterations(p, func=pfi.short):
                k, a, b = appended_part(p, s0, s1)
                if b is not None:
                    fails += need_ge0(st, Lin.const(CAP) - b.length(), f'a carrier string may grow to {st.canon(b.length())} '
                                                                        f'characters, more than {CAP}')
        for e in carrier_appends(p):
            if True:
                v = e.data['value']
                if not isinstance(v, SeqV):
                    fails.append(definite(f'a non-string carrier {v!r} is produced', e.node))
                    continue
                fails += need_ge0(st, Lin.const(CAP) - v.length(), f'a carrier of {st.canon(v.length())} characters (bounds '
                                                                   f'{st.bounds(v.length())}) is produced: the 3-digit prefix counts to {CAP}', e.node)
                fails += need_ge0(st, v.length() - 1, 'an empty carrier string is produced', e.node)
        return fails
    res.add(runs.judge('C12.c', 'every string handed over as a carrier is non-empty and at most 999 characters', func_where(pfi),
                       'outputs.append(output)', chk_c))

    def chk_split(p, mode):
        """a flush happens only between sub-elements: the string appended to the list is a value of the accumulator at
        an iteration boundary, and what follows starts with a complete sub-element."""
        fails = []
        for first, last, s0, s1, head in iterations(p, func=pfi.short):
            apps = carrier_appends(p, first, last)
            k, a, b = appended_part(p, s0, s1)
            if k is None:
                continue
            for e in apps:
                v = e.data['value']
                if not (v is a or (isinstance(v, SeqV) and seqops.seq_eq_structural(p.interp, v, a) is True)):
                    fails.append(definite(f'the carrier flushed inside an iteration is {v!r}, not the accumulated sub-elements: a '
                                          f'sub-element would be split between carriers', e.node))
                # after a flush the accumulator restarts with exactly the new sub-element
                if len(b.segs) != 3:
                    fails.append(definite(f'after a flush the carrier restarts as {b!r}, not with the whole new sub-element', e.node))
        return fails
    res.add(runs.judge('C12.d', 'a carrier is closed only between sub-elements (no sub-element is split)', func_where(pfi),
                       'outputs.append(output); output = \'\'', chk_split, rule='C12.d.split'))

    # ---- C12.d order
    def chk_order(p, mode):
        fails = []
        for e in p.events:
            if e.kind == 'ext-call' and e.data['callee'] == 'sorted' and e.under(pfi.short):
                r = e.data['result']
                if isinstance(r, ListV) and r.order == 'desc':
                    fails.append(definite('PDS keys are visited in descending order', e.node))
                elif not (isinstance(r, ListV) and r.order == 'asc'):
                    fails.append(soft('the order produced by sorted(..., key=...) is not followed', e.node))
        if not any(e.kind == 'ext-call' and e.data['callee'] == 'sorted' and e.under(pfi.short) for e in p.events):
            fails.append(definite('PDS keys are not sorted before packing'))
        return fails
    res.add(runs.judge('C12.d', 'PDS keys are packed in ascending tag order', func_where(pfi), "sorted([key for key in dict_values if key.startswith('PDS')])",
                       chk_order, rule='C12.d.keys'))

    # ---- C12.e no sub-element is chosen or dropped by its value
    def value_dependent(p, v, depth=0):
        v = p.interp.resolve(v)
        if depth > 5:
            return False
        if isinstance(v, SeqV):
            return any(isinstance(g, Sl) and str(getattr(g.src, 'name', '')).startswith('pds_value') for g in v.segs)
        o = getattr(v, 'origin', None)
        if isinstance(o, tuple):
            for x in o[1:]:
                xs = x if isinstance(x, (list, tuple)) else [x]
                if any(isinstance(y, AVal) and value_dependent(p, y, depth + 1) for y in xs):
                    return True
        return False

    def chk_sel(p, mode):
        fails = []
        for e in p.events:
            if e.kind == 'comp-filter' and e.under(pfi.short) and value_dependent(p, e.data.get('value')):
                fails.append(definite(f'the PDS entries to pack are filtered by `{e.data["text"]}`, which tests the value of the entry: '
                                      f'entries with an empty value are dropped from the message', e.node, firm=True))
        return fails
    res.add(runs.judge('C12.e', 'the PDS entries to pack are selected by their key only, not by their value', func_where(pfi),
                       "[key for key in dict_values if key.startswith('PDS')]", chk_sel, rule='C12.e.select'))
    for ob in common.state_obs(res, 'C12.a', func_where(pfi), [('_pds_to_de', runs)], 'PDS packing'):
        res.add(ob)

    # the same decided by constant propagation: the packer folded on the three value classes '' / '0' / ordinary text
    def entry_k(it):
        d = DictV(items={'MTI': seqops.lit('1144'), 'DE2': seqops.lit('4444555566667777'), 'PDS0105': seqops.lit('ABC'),
                         'PDS0023': seqops.lit(''), 'PDS9999': seqops.lit('0')}, desc='message')
        d.exact_ok = True
        return it.call_function(pfi, [d], {})
    runs_k = Runs(prog, entry_k, hooks=common.HOOKS, res=res)
    ob = Ob('C12.e', "every PDSxxxx entry is packed whatever its value: {'PDS0105': 'ABC', 'PDS0023': '', 'PDS9999': '0'} gives one "
                     "carrier '0023000' '0105003ABC' '99990010'", func_where(pfi), "keys = sorted(key for key in dict_values if key.startswith('PDS'))",
            rule='C12.e.fold')
    want = ['00230000105003ABC99990010']
    got, why = None, None
    rets = [p for p in runs_k.inv if p.outcome == 'return']
    if len(runs_k.inv) != 1 or len(rets) != 1 or rets[0].unknowns or rets[0].tainted:
        why = 'the packer does not fold to one path on a concrete message' + (f' ({rets[0].unknowns[0][0]})' if rets and rets[0].unknowns else '')
    else:
        v = rets[0].interp.resolve(rets[0].value)
        items = v.items if isinstance(v, (ListV, TupleV)) and v.items is not None else None
        if items is None or not all(isinstance(rets[0].interp.resolve(x), SeqV) and rets[0].interp.resolve(x).is_lit() for x in items):
            why = f'the packer returns {v!r}, not a list of constant strings'
        else:
            got = [rets[0].interp.resolve(x).lit_value() for x in items]
    if got is None:
        ob.verdict, ob.detail = UNDECIDED, why
    elif got != want:
        ob.verdict, ob.detail, ob.witness = REFUTED, f'the packer turns these three entries into {got!r}, expected {want!r}: an entry is dropped, duplicated or re-ordered because of its value', {'message': "{'PDS0105': 'ABC', 'PDS0023': '', 'PDS9999': '0'}"}
    else:
        ob.verdict, ob.detail = PROVED, f'folded: {got!r}'
    res.add(ob)

    dfi = prog.func('iso8583._dict_to_iso8583')

    def pack_summary(it, fi, args, kwargs, node, self_obj):
        return ListV(items=None, elem=it.sym_str('carrier', lo=1, hi=CAP), length=it.sym_int('ncarriers', 0, None).lin, desc='carriers')

    def field_summary(it, fi, args, kwargs, node, self_obj):
        return it.sym_bytes('element')

    def entry_d(it):
        msg = DictV(open_=True, desc='message')
        msg.default = lambda it2, key, n, strict: SymV(it2.fresh('message[..]'), 'any')
        it.user['msg'] = msg
        return it.call_function(dfi, [msg, PyLit(prog.config_literal()['bit_config'], "config['bit_config']"), codec(it), ConstV(False)], {})
    runs_d = Runs(prog, entry_d, summaries={PACK: pack_summary, 'iso8583._field_to_iso8583': field_summary},
                  hooks=common.HOOKS, res=res)

    def chk_carriers(p, mode):
        fails = []
        pops = [e for e in p.events if e.kind == 'list-pop' and e.under(dfi.short)]
        for e in pops:
            if e.data['index'] is None or p.store.decide_eq0(Lin.of(e.data['index']) + 1) is True:
                if e.data['order'] != 'desc':
                    fails.append(definite(f'carrier numbers are taken from the end of a list ordered {e.data["order"]!r}: carriers '
                                          f'are not filled in ascending element order', e.node))
            elif p.store.decide_eq0(Lin.of(e.data['index'])) is True:
                if e.data['order'] != 'asc':
                    fails.append(definite(f'carrier numbers are taken from the front of a list ordered {e.data["order"]!r}', e.node))
            else:
                fails.append(soft('carrier selection not recognised', e.node))
        # each carrier string is stored under DE<popped number>
        for first, last, s0, s1, head in iterations(p, func=dfi.short):
            sets = [e for e in p.events if e.kind == 'setitem' and e.under(dfi.short) and first < e.seq < last
                    and e.data['obj'] is p.interp.user['msg']]
            pp = [e for e in pops if first < e.seq < last]
            if pp and not sets:
                fails.append(definite('a carrier number is consumed without storing the carrier string', pp[0].node))
            for e in sets:
                key = e.data['key']
                ok = isinstance(key, SeqV) and key.segs and isinstance(key.segs[0], Lit) and key.segs[0].data == 'DE'
                if not ok:
                    fails.append(definite(f'carrier string stored under {key!r}, not DE<n>', e.node))
        return fails
    res.add(runs_d.judge('C12.d', 'packed strings are assigned to the PDS carrier elements in ascending element order', func_where(dfi),
                         'de_field_key = de_pds_fields.pop()', chk_carriers, rule='C12.d.carriers',
                         unknown_ok=benign_unknown))

    # ---- C12.b writer/reader agreement
    du = DecodeUnits(prog, res)
    ob = Ob('C12.b', 'the decoder reads tag(4) and length(3) with the widths and radix the packer writes', func_where(pfi),
            'f\'{tag:04}{length:03}...\' vs field_data[p:p+4], int(field_data[p+4:p+7])')
    if 'pds' not in du.units:
        ob.verdict, ob.detail = UNDECIDED, '_pds_to_dict not found'
    else:
        up = du.units['pds']
        widths = set()
        bases = set()
        keyprefix = set()
        blocked_b = None
        for p in up.runs.inv:
            if p.outcome != 'loopback':
                continue
            if p.unknowns or p.tainted:
                blocked_b = p.unknowns[0][0] if p.unknowns else str(p.tainted[0])
            src = p.interp.user['unit_args'][0][0].segs[0].src
            from .c08 import src_slices
            h = [e for e in p.events if e.kind == 'loop-head'][-1]
            sl = [x for x in src_slices(p, src, func=up.name, since=h.seq) if not x[3]]
            ws = tuple(p.store.canon(hi - lo) for _e, lo, hi, _o in sl[:2])
            widths.add(ws)
            for e in p.events:
                if e.kind == 'ext-call' and e.data['callee'] == 'int' and e.under(up.name):
                    b = 10
                    if len(e.data['args']) > 1:
                        b = p.interp.py_key(e.data['args'][1])
                    bases.add(b)
                if e.kind == 'setitem' and e.under(up.name) and isinstance(e.data['key'], SeqV) and e.data['key'].segs \
                        and isinstance(e.data['key'].segs[0], Lit):
                    keyprefix.add(e.data['key'].segs[0].data)
        # keys of a result built in one go ({"PDS" + tag: data for ...}, dict(pairs), update(pairs))
        for p in up.runs.inv:
            if p.outcome != 'return' or not isinstance(p.value, DictV):
                continue
            keys = [k for k, _v in p.value.sym_stores]
            comp = getattr(p.value, 'comp', None)
            if comp is not None and isinstance(comp[0], TupleV) and len(comp[0].items) == 2:
                keys.append(comp[0].items[0])
            for k in keys:
                k = p.interp.resolve(k)
                if isinstance(k, SeqV) and k.segs and isinstance(k.segs[0], Lit):
                    keyprefix.add(k.segs[0].data)
        want = {(Lin.const(4), Lin.const(3))}
        if blocked_b is not None:
            ob.verdict, ob.detail = UNDECIDED, f'the decoder walk is not fully interpreted: {blocked_b}'
        elif widths == want and bases == {10} and keyprefix == {'PDS'}:
            ob.verdict, ob.detail = PROVED, 'decoder slice widths (4, 3), radix 10, key prefix PDS'
        elif not widths or any(len(w) < 2 for w in widths):
            ob.verdict, ob.detail = UNDECIDED, 'decoder loop not analysed'
        elif not keyprefix or not bases:
            ob.verdict, ob.detail = UNDECIDED, 'the keys of the returned sub-elements / the radix of the length were not observed'
        else:
            ob.verdict = REFUTED
            ob.detail = f'decoder reads widths {sorted(map(str, widths))} radix {sorted(bases)} key prefix {sorted(keyprefix)}; packer writes (4, 3) radix 10 prefix PDS'
            ob.witness = {'widths': str(sorted(map(str, widths))), 'bases': sorted(bases)}
    res.add(ob)

    # ---- C12.f carriers in the packaged configuration
    cfg = prog.config_literal()['bit_config']
    carriers = {k: v for k, v in cfg.items() if v.get('field_processor') == 'PDS'}
    ob = Ob('C12.f', 'the packaged configuration has PDS carrier elements and all are LLLVAR (capacity 999)', 'cardutil/config.py:config',
            "field_processor == 'PDS' entries")
    bad = {k: v.get('field_type') for k, v in carriers.items() if v.get('field_type') != 'LLLVAR'}
    if not carriers:
        ob.verdict, ob.detail, ob.witness = REFUTED, 'no PDS carrier configured', {'carriers': 0}
    elif bad:
        ob.verdict, ob.detail, ob.witness = REFUTED, f'PDS carriers that cannot hold 999 characters: {bad}', bad
    else:
        ob.verdict, ob.detail = PROVED, f'carriers {sorted(int(k) for k in carriers)} all LLLVAR'
    res.add(ob)
