"""C04 - 1014 blocking: inductive layout invariant over all write sequences."""
from __future__ import annotations

from ..lin import Lin
from ..avals import *   # noqa
from ..decide import require_instances, Runs, need_ge0, need_eq0, definite, soft
from ..report import Ob, PROVED, REFUTED, UNDECIDED, func_where, ASSUMPTIONS
from ..model import norm_text

PAYLOAD, TRAILER, BLOCK, PAD = 1012, 2, 1014, 0x40


def is_pad_seg(seg):
    """-> True if the segment consists of 0x40 bytes only."""
    if isinstance(seg, Lit):
        return len(seg.data) > 0 and set(seg.data) == {PAD}
    if isinstance(seg, Rep):
        return seg.unit == bytes([PAD])
    return False


def make_blocker(it, prog, r_sym=True):
    ci = prog.cls('mciipm.Block1014')
    f = it.new_file('out')
    obj = it.instantiate(ci, [f], {}, None)
    it.user = {'file': f, 'obj': obj}
    if r_sym:
        if 'remaining_chars' not in obj.fields:
            return obj, f, None
        r = it.sym_int('r', 0, PAYLOAD)
        obj.fields['remaining_chars'] = r
        it.user['r'] = r
        return obj, f, r
    return obj, f, None


class LayoutFold:
    """Ghost state over the stream of bytes handed to the wrapped file: `cursor` = end of the contiguous data
    emitted so far, `fill` = payload bytes emitted since the last trailer."""

    def __init__(self, path, src, fill0, out_file, allow_final_fill=False):
        self.p = path
        self.store = path.store
        self.src = src
        self.cursor = Lin.const(0)
        self.fill = Lin.of(fill0)
        self.out = out_file
        self.fails = []
        self.allow_final_fill = allow_final_fill
        self.head_fill = {}
        self.samples = []
        self.pad = None
        self.pad_node = None
        self.track = {}
        self.index_loops = set()      # for-range loops whose body emits data addressed by the loop index
        self.pending_for = {}
        self.cur_iter = {}

    def flush_pad(self, node=None):
        """consecutive 0x40 bytes (possibly from several writes) are judged together"""
        if self.pad is None:
            return
        ln, node = self.pad, self.pad_node
        self.pad = None
        st = self.store
        if self.allow_final_fill:
            self.fails += need_eq0(st, self.fill + ln - BLOCK,
                                   f'fill+trailer of {st.canon(ln)} bytes does not complete the block '
                                   f'(fill={st.canon(self.fill)})', node)
        else:
            self.fails += need_eq0(st, self.fill - PAYLOAD,
                                   f'trailer emitted when the block holds {st.canon(self.fill)} payload bytes, '
                                   f'not {PAYLOAD}', node)
            self.fails += need_eq0(st, ln - TRAILER, f'trailer is {st.canon(ln)} bytes, not {TRAILER}', node)
        self.fill = Lin.const(0)

    def seg(self, seg, node):
        st = self.store
        if is_pad_seg(seg):
            self.pad = (self.pad if self.pad is not None else Lin.const(0)) + seg.length()
            self.pad_node = node
            return
        self.flush_pad()
        if isinstance(seg, Sl) and seg.src is self.src:
            self.fails += need_eq0(st, seg.lo - self.cursor,
                                   f'data bytes emitted out of sequence: slice starts at {st.canon(seg.lo)} but '
                                   f'{st.canon(self.cursor)} bytes were emitted so far (dropped/duplicated bytes)', node)
            self.cursor = seg.hi
            self.fill = self.fill + seg.length()
            self.fails += need_ge0(st, Lin.const(PAYLOAD) - self.fill,
                                   f'payload of a block may exceed {PAYLOAD} bytes before its trailer '
                                   f'(fill={st.canon(self.fill)})', node)
        else:
            self.fails.append(definite(f'bytes written that are neither input data nor 0x40 padding: {seg!r}', node))

    def event(self, e):
        st = self.store
        if e.kind == 'write' and e.data['file'] is self.out:
            data = e.data['data']
            if not isinstance(data, SeqV):
                self.fails.append(definite(f'write of a non-bytes value {data!r}', e.node))
                return
            self.samples.append(repr(data))
            for g in data.segs:
                self.seg(g, e.node)
        elif e.kind == 'loop-head':
            self.flush_pad()
            var = self._tracking_var(e.data['gen'], e.data['pre'])
            if var is None:
                # no variable tracks the emission cursor: the loop cannot consume data, or it was widened away
                for k, g in e.data['gen'].items():
                    if isinstance(g, SeqV) and not g.is_lit() and any(isinstance(s_, Opq) for s_ in g.segs):
                        self.fails.append(soft('pending data variable was widened to an opaque value', e.node))
                self.track[id(e.node)] = None
                if id(e.node) in self.index_loops:
                    self.pending_for[id(e.node)] = (self.cursor, self.fill)
                    cf = st.canon(self.fill)
                    if not cf.is_const():
                        self.fails.append(soft(f'fill at loop head is not a constant ({cf})', e.node))
                    self.head_fill[id(e.node)] = cf
                return
            k, glin = var
            self.track[id(e.node)] = k
            self.cursor = glin
            rk = ('attr', 'remaining_chars')
            gr = e.data['gen'].get(rk)
            if isinstance(gr, IntV):
                # the loop body updates the free-space counter: relational invariant fill == 1012 - remaining_chars
                pr = e.data['pre'].get(rk)
                if isinstance(pr, IntV):
                    self.fails += need_eq0(st, self.fill + pr.lin - PAYLOAD, 'fill + remaining_chars != 1012 at loop entry', e.node)
                self.fill = Lin.const(PAYLOAD) - gr.lin
                self.head_fill[id(e.node)] = 'relational'
                return
            cf = st.canon(self.fill)
            if not cf.is_const():
                self.fails.append(soft(f'fill at loop head is not a constant ({cf})', e.node))
            self.head_fill[id(e.node)] = cf
        elif e.kind == 'for-iter':
            self.cur_iter[id(e.node)] = e.data.get('iterable')
        elif e.kind in ('loop-iter', 'loop-exit') and id(e.node) in self.pending_for:
            # index addressed emission: before iteration number k the loop has emitted k * step bytes
            c0, f0 = self.pending_for[id(e.node)]
            itv = self.cur_iter.get(id(e.node))
            if not (isinstance(itv, RangeV) and isinstance(itv.step, int)):
                self.fails.append(soft('data is emitted by a loop that is not a range() loop', e.node))
                return
            if e.kind == 'loop-iter' and e.data.get('n') == 'generic' and isinstance(e.data.get('elem'), IntV):
                off = e.data['elem'].lin - Lin.of(itv.lo)
                self.cursor = c0 + off
                self.track[id(e.node)] = ('index', c0, off, itv.step)
            elif e.kind == 'loop-exit' and e.data.get('how') == 'exhausted' and getattr(itv, '_count', None) is not None:
                self.cursor = c0 + Lin.of(itv._count).scale(itv.step)
            elif e.kind == 'loop-exit':
                self.fails.append(soft('loop left early', e.node))
        elif e.kind == 'loop-back':
            self.flush_pad()
            k = self.track.get(id(e.node))
            if k is None:
                return
            if isinstance(k, tuple) and k and k[0] == 'index':
                _, c0, off, step = k
                self.fails += need_eq0(st, self.cursor - (c0 + off + Lin.const(step)),
                                       f'an iteration addressed by the loop index emits {st.canon(self.cursor - c0 - off)} data '
                                       f'bytes, the index advances by {step} (bytes dropped or duplicated)', e.node)
                hf = self.head_fill.get(id(e.node))
                if hf is not None:
                    self.fails += need_eq0(st, self.fill - hf, f'block fill is not restored by a loop iteration '
                                                               f'({st.canon(self.fill)} vs {hf} at loop head)', e.node)
                return
            post = e.data['post'].get(k)
            plin = self._lin_of(post)
            if plin is not None and getattr(self, 'offset', None) and k in self.offset and isinstance(post, IntV):
                plin = plin + self.offset[k]
            if plin is not None:
                self.fails += need_eq0(st, plin - self.cursor,
                                       'data pending after a loop iteration does not start where emission stopped '
                                       '(bytes dropped or duplicated by the loop body)', e.node)
            elif isinstance(post, SeqV) and not post.segs:
                self.fails += need_eq0(st, self.src.length - self.cursor, 'loop body drops pending data', e.node)
            else:
                self.fails.append(soft('pending data after the loop body has an unexpected shape', e.node))
            hf = self.head_fill.get(id(e.node))
            if hf == 'relational':
                pr = e.data['post'].get(('attr', 'remaining_chars'))
                if not isinstance(pr, IntV):
                    self.fails.append(soft('remaining_chars is not an integer at the back edge', e.node))
                else:
                    self.fails += need_eq0(st, self.fill + pr.lin - PAYLOAD, 'a loop iteration does not restore fill + remaining_chars == 1012', e.node)
                    self.fails += need_ge0(st, pr.lin, 'remaining_chars may become negative inside the loop', e.node)
                    self.fails += need_ge0(st, Lin.const(PAYLOAD) - pr.lin, 'remaining_chars may exceed 1012 inside the loop', e.node)
            elif hf is not None:
                self.fails += need_eq0(st, self.fill - hf, f'block fill is not restored by a loop iteration '
                                                           f'({st.canon(self.fill)} vs {hf} at loop head)', e.node)

    def _lin_of(self, v):
        """position tracked by a loop variable: an integer cursor, or the start of a suffix slice of the data"""
        if isinstance(v, IntV):
            return v.lin
        if isinstance(v, SeqV) and len(v.segs) == 1 and isinstance(v.segs[0], Sl) and v.segs[0].src is self.src:
            return v.segs[0].lo
        return None

    def _tracking_var(self, gen, pre):
        """the generalised variable whose entry value equals the number of data bytes emitted so far"""
        st = self.store
        best = None
        for k, g in gen.items():
            if k[0] != 'local':
                continue
            gl = self._lin_of(g)
            pl = self._lin_of(pre.get(k))
            if gl is None:
                continue
            if pl is not None and st.decide_eq0(pl - self.cursor) is True:
                if isinstance(g, SeqV):
                    return k, gl
                best = best or (k, gl)
        if best is None:
            # an integer cursor relative to a fixed base (e.g. a position inside a suffix of the data): cursor == var + offset,
            # offset fixed at loop entry; the relation is re-verified at the back edge
            for k, g in gen.items():
                if k[0] != 'local' or not isinstance(g, IntV) or not isinstance(pre.get(k), IntV):
                    continue
                off = st.canon(self.cursor - pre[k].lin)
                if any(s_.endswith('@loop') or '@loop#' in s_ for s_ in off.syms()):
                    continue
                cand = (k, g.lin + off)
                # prefer the variable the loop condition / slices are about: the one advanced by the body is confirmed later
                if best is None:
                    best = cand
                    self.offset = {k: off}
                else:
                    return None      # ambiguous: leave it to the other rules
        return best

    def _suffix_var(self, gen):
        for k, g in gen.items():
            if isinstance(g, SeqV) and len(g.segs) == 1 and isinstance(g.segs[0], Sl) and g.segs[0].src is self.src:
                return k, g
        return None


def discover_index_loops(paths, src_of, out_of):
    """for-loops whose generic iteration hands a slice of the data to the wrapped file (emission addressed by the index)"""
    found = []
    for p in paths:
        if p.outcome != 'loopback':
            continue
        src, out = src_of(p), out_of(p)
        cur = None
        for e in p.events:
            if e.kind == 'loop-iter' and e.data.get('n') == 'generic':
                cur = e.node
            elif e.kind == 'loop-back':
                cur = None
            elif e.kind == 'write' and cur is not None and e.data['file'] is out and isinstance(e.data['data'], SeqV) and \
                    any(isinstance(g, Sl) and g.src is src for g in e.data['data'].segs):
                import ast as _ast
                if isinstance(cur, _ast.For) and cur not in found:
                    found.append(cur)
    return found


def check(prog, res, tier):
    res.assumptions = [ASSUMPTIONS['A3'], ASSUMPTIONS['A4']]
    res.explanation = (
        'Abstract interpretation of Block1014.__init__/write/finalise/seek/close and block_1014 over symbolic '
        'lengths (len(b), remaining_chars@entry in [0,1012]); a ghost automaton (cursor, fill) folds over the '
        'stream of bytes handed to the wrapped file; loops are handled by a generalised loop head plus one-step '
        'induction; refutations need an unrolled path and an integer witness.')
    wfi = prog.func('mciipm.Block1014.write')
    ci = prog.cls('mciipm.Block1014')
    where_w = func_where(wfi)

    # ---- C04.0 base case
    def entry0(it):
        obj, f, _ = make_blocker(it, prog, r_sym=False)
        return obj
    runs0 = Runs(prog, entry0, res=res)

    def chk0(p, mode):
        fails = []
        obj = p.value
        rc = obj.fields.get('remaining_chars') if isinstance(obj, ObjV) else None
        if not isinstance(rc, IntV):
            return [definite('constructor does not initialise remaining_chars to an integer')]
        fails += need_eq0(p.store, rc.lin - PAYLOAD, f'constructor leaves remaining_chars={rc.lin}, not {PAYLOAD}')
        for e in p.evs('write'):
            fails.append(definite('constructor writes to the wrapped file', e.node))
        return fails
    res.add(runs0.judge('C04.0', 'constructor establishes the layout invariant (nothing emitted, 1012 free)',
                        func_where(prog.func('mciipm.Block1014.__init__')), 'self.remaining_chars = 1012', chk0,
                        sample=lambda ps: {'fields': repr(ps[0].value.fields)}))

    # ---- C04.a/b/c on write
    def entry_w(it):
        obj, f, r = make_blocker(it, prog)
        if r is None:
            raise_anchor()
        b = it.sym_bytes('b')
        it.user['b'] = b
        it.call_function(wfi, [b], {}, self_obj=obj)
        return obj
    def loop_head(it, st, pre, gen):
        g = gen.get(('attr', 'remaining_chars'))
        if isinstance(g, IntV) and it.stack and it.stack[-1].startswith('mciipm.Block1014'):
            it.store.assume_ge0(g.lin)
            it.store.assume_ge0(Lin.const(PAYLOAD) - g.lin)
    runs_w = Runs(prog, entry_w, res=res, hooks={'loop_head': loop_head})

    index_loops = {}

    def fold(p):
        u = p.interp.user
        src = u['b'].segs[0].src
        lf = LayoutFold(p, src, Lin.const(PAYLOAD) - u['r'].lin, u['file'])
        if 'v' not in index_loops:
            index_loops['v'] = discover_index_loops(runs_w.inv, lambda q: q.interp.user['b'].segs[0].src, lambda q: q.interp.user['file'])
        lf.index_loops = {id(n) for n in index_loops['v'] if any(e.node is n for e in p.events)}
        for e in p.events:
            lf.event(e)
        lf.flush_pad()
        return lf, u

    def chk_a(p, mode):
        lf, u = fold(p)
        fails = [f for f in lf.fails if 'sequence' in f.desc or 'pending' in f.desc or 'neither' in f.desc
                 or 'drops' in f.desc or 'non-bytes' in f.desc]
        if p.outcome == 'return':
            fails += need_eq0(p.store, lf.src.length - lf.cursor,
                              f'write() returns with only {p.store.canon(lf.cursor)} of len(b) bytes emitted')
        return fails

    def chk_b(p, mode):
        lf, u = fold(p)
        return [f for f in lf.fails if 'trailer' in f.desc or 'exceed' in f.desc or 'fill' in f.desc]

    def chk_c(p, mode):
        if p.outcome != 'return':
            return []
        lf, u = fold(p)
        rc = u['obj'].fields.get('remaining_chars')
        if not isinstance(rc, IntV):
            return [definite('remaining_chars is not an integer after write()')]
        fails = need_eq0(p.store, lf.fill + rc.lin - PAYLOAD,
                         f'after write(): fill ({p.store.canon(lf.fill)}) + remaining_chars ({p.store.canon(rc.lin)}) '
                         f'!= {PAYLOAD}')
        fails += need_ge0(p.store, rc.lin, 'remaining_chars may become negative')
        fails += need_ge0(p.store, Lin.const(PAYLOAD) - rc.lin, f'remaining_chars may exceed {PAYLOAD}')
        return fails

    def sample_w(ps):
        out = []
        for p in ps[:4]:
            lf, u = fold(p)
            out.append({'path': p.labels, 'outcome': p.outcome, 'emitted': lf.samples,
                        'fill': repr(p.store.canon(lf.fill)), 'cursor': repr(p.store.canon(lf.cursor))})
        return out
    res.add(runs_w.judge('C04.a', 'data emitted by write() is b[0:n] in order, contiguous, nothing dropped or duplicated',
                         where_w, 'self.file_obj.write(<slices of bytes_to_write>)', chk_a, sample=sample_w))
    res.add(runs_w.judge('C04.b', 'every 2-byte 0x40 trailer follows exactly 1012 payload bytes; payload never exceeds 1012',
                         where_w, 'self.file_obj.write(self.PAD_CHAR * 2)', chk_b))
    res.add(runs_w.judge('C04.c', 'write() re-establishes fill + remaining_chars == 1012 with remaining_chars in [0,1012]',
                         where_w, 'self.remaining_chars = ...', chk_c))

    # ---- C04.d finalise / seek / close
    for name, after in (('finalise', None), ('seek', 'seek'), ('close', 'close')):
        fi = prog.func(f'mciipm.Block1014.{name}')

        def entry_f(it, fi=fi, name=name):
            obj, f, r = make_blocker(it, prog)
            args = [IntV(0)] if name == 'seek' else []
            it.call_function(fi, args, {}, self_obj=obj)
            return obj
        runs_f = Runs(prog, entry_f, res=res)

        def chk_d(p, mode, after=after):
            u = p.interp.user
            lf = LayoutFold(p, None, Lin.const(PAYLOAD) - u['r'].lin, u['file'], allow_final_fill=True)
            n_w = 0
            order = []
            for e in p.events:
                if e.kind == 'write' and e.data['file'] is u['file']:
                    n_w += 1
                    order.append('write')
                elif e.kind in ('seek', 'close') and e.data['file'] is u['file']:
                    order.append(e.kind)
                lf.event(e)
            lf.flush_pad()
            fails = list(lf.fails)
            if n_w == 0:
                fails.append(definite(f'{name}() emits no fill/trailer bytes'))
            if p.outcome == 'return':
                rc = u['obj'].fields.get('remaining_chars')
                if isinstance(rc, IntV):
                    fails += need_eq0(p.store, rc.lin - PAYLOAD,
                                      f'{name}() leaves remaining_chars={p.store.canon(rc.lin)}, not {PAYLOAD}')
                else:
                    fails.append(definite('remaining_chars not an integer'))
                fails += need_eq0(p.store, lf.fill, 'block not completed')
            if after is not None:
                if after not in order:
                    fails.append(definite(f'{name}() does not {after} the wrapped file'))
                elif 'write' in order and order.index(after) < order.index('write'):
                    fails.append(definite(f'{name}() touches the wrapped file before finalising the block'))
            return fails
        res.add(runs_f.judge('C04.d', f'{name}() pads the open block with remaining_chars+2 bytes of 0x40 and resets the state'
                             + (f' before calling {after}()' if after else ''),
                             func_where(fi), f'Block1014.{name}', chk_d, rule=f'C04.d.{name}'))

    # ---- C04.e one-shot blocker
    bfi = prog.func('mciipm.block_1014')

    def entry_b(it):
        fin = it.new_file('in')
        fout = it.new_file('out')
        it.user = {'in': fin, 'out': fout}
        it.call_function(bfi, [fin, fout], {})
        return None
    runs_b = Runs(prog, entry_b, res=res)
    seen_e = {'reads': 0}

    def chk_e(p, mode):
        u = p.interp.user
        fails = []
        src = u['in'].src
        # per read chunk: data ++ pad must total one block; data chunks contiguous
        fill = Lin.const(0)
        cursor = None
        in_iter = mode == 'unroll'
        reads = []
        for e in p.events:
            if e.kind == 'loop-iter':
                in_iter = True
            if e.kind == 'read' and e.data['file'] is u['in']:
                sz = e.data['size']
                if sz is None or p.store.decide_eq0(Lin.of(sz) - PAYLOAD) is not True:
                    szc = p.store.canon(Lin.of(sz)) if sz is not None else None
                    if szc is None or not szc.is_const() or abs(szc.c - PAYLOAD) > 2:
                        # a bulk read (whole input, 64 KiB ...) with the blocks cut out of it afterwards: not the block-by-block
                        # design this rule follows.  Reading the *other* block constant (1014 for 1012) stays a violation.
                        return fails + [soft(f'the one-shot blocker reads {sz if sz is not None else "everything"} bytes at a time and '
                                             f'cuts the blocks out afterwards: outside the model of this rule', e.node)]
                    fails += need_eq0(p.store, Lin.of(sz if sz is not None else 0) - PAYLOAD,
                                      f'one-shot blocker reads {sz} bytes per block, not {PAYLOAD}', e.node)
                reads.append(e)
            if e.kind == 'write' and e.data['file'] is u['out']:
                data = e.data['data']
                if not isinstance(data, SeqV):
                    fails.append(definite('write of non-bytes', e.node))
                    continue
                fails += need_eq0(p.store, data.length() - BLOCK,
                                  f'block emitted by block_1014 has length {p.store.canon(data.length())}, not {BLOCK}', e.node)
                segs = list(data.segs)
                if not segs or not (isinstance(segs[0], Sl) and src is not None and segs[0].src is src):
                    fails.append(definite(f'block does not start with the chunk read from the input: {data!r}', e.node))
                    continue
                chunk = segs[0]
                if reads:
                    last = reads[-1].data['data']
                    if not (len(last.segs) == 1 and last.segs[0].src is chunk.src and
                            p.store.decide_eq0(last.segs[0].lo - chunk.lo) is True and
                            p.store.decide_eq0(last.segs[0].hi - chunk.hi) is True):
                        fails.append(definite('block payload is not the whole chunk just read', e.node))
                for g in segs[1:]:
                    if not is_pad_seg(g):
                        fails.append(definite(f'block contains bytes that are neither the chunk nor 0x40 padding: {g!r}', e.node))
                fails += need_ge0(p.store, Lin.const(PAYLOAD) - chunk.length(), 'chunk longer than the payload size', e.node)
        # every chunk that is read is written: only the empty read at the end of the data is followed by no write
        if p.outcome in ('return', 'loopback'):
            evs = [e for e in p.events if (e.kind == 'read' and e.data['file'] is u['in']) or (e.kind == 'write' and e.data['file'] is u['out'])]
            for i, e in enumerate(evs):
                if e.kind != 'read':
                    continue
                seen_e['reads'] += mode == 'inv'
                blk = e.data['data']
                nxt = evs[i + 1] if i + 1 < len(evs) else None
                written = nxt is not None and nxt.kind == 'write' and isinstance(nxt.data['data'], SeqV) and blk.segs and \
                    any(isinstance(g, Sl) and g.src is blk.segs[0].src for g in nxt.data['data'].segs)
                if not written:
                    fails += need_eq0(p.store, blk.length(), 'a chunk is read from the input but no block is written for it', e.node)
        return fails
    res.add(require_instances(runs_b.judge('C04.e', 'block_1014 emits per 1012-byte chunk: chunk ++ 0x40 fill ++ 2-byte 0x40 trailer = 1014 bytes',
                         func_where(bfi), 'output_data.write(record + pad_char * 2)', chk_e,
                         sample=lambda ps: [repr(e.data['data']) for p in ps for e in p.evs('write')][:3]),
                              seen_e['reads'], 'a read of the input by block_1014'))

    # ---- C04.f pad constant
    ob = Ob('C04.f', 'pad byte is 0x40 in Block1014', func_where(prog.func('mciipm.Block1014.write')), 'Block1014.PAD_CHAR')
    r = ci.lookup('PAD_CHAR')
    if r is None or r[0] != 'attr':
        ob.verdict, ob.detail = UNDECIDED, 'PAD_CHAR class constant not found'
    else:
        import ast
        try:
            v = ast.literal_eval(r[1])
        except Exception:
            v = None
        if v == bytes([PAD]):
            ob.verdict, ob.detail = PROVED, 'folds to b"\\x40"'
        elif isinstance(v, bytes):
            ob.verdict, ob.detail = REFUTED, f'pad constant folds to {v!r}, not b"\\x40"'
            ob.witness = {'PAD_CHAR': repr(v)}
        else:
            ob.verdict, ob.detail = UNDECIDED, 'PAD_CHAR is not a literal'
    res.add(ob)


def raise_anchor():
    from ..model import AnalysisError
    raise AnalysisError('Block1014.remaining_chars (anchored state) is not initialised by the constructor')
