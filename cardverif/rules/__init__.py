"""Per-property rule sets."""
